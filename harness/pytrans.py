#!/usr/bin/env python3
"""pytrans: a FAIL-CLOSED translator from the Python `ast` of geomdl's numerical core to Gallina.

    translate(repo_root, spec) -> {coq_module_name: coq_text}
    python pytrans.py --repo /repo --write        writes /verif/coq/Gen/<Module>.v
    python pytrans.py --repo <tree> --check       SAME / DIFF / UNTRANSLATABLE per function, exit 0 iff all SAME

The generated code is written against coq/Gen/Prelude.v.  Everything the translator does not understand raises
`Untranslatable`.  SPEC (below) is part of the trusted translator: it names the functions, the types of their
arguments (Python is untyped), the fuel of each `while` and the few trusted idioms.  The output depends only on the
AST (not on comments, docstrings, blank lines, formatting, dict order or hash seeds).
"""
import ast, os, re, sys, argparse
from fractions import Fraction

HERE = os.path.dirname(os.path.abspath(__file__))
GEN_DIR = os.path.join(os.path.dirname(HERE), "coq", "Gen")


class Untranslatable(Exception):
    pass


def fail(node, msg):
    line = getattr(node, "lineno", None)
    raise Untranslatable("%s%s" % (msg, "" if line is None else " (line %d)" % line))


# ----------------------------------------------------------------------------------------------- types
# 'int' 'float' 'ratio' 'bool' 'unit' ('list', t) ('fn', (args...), ret) ('tuple', (t...)) ; TVar for `[]`
class TVar(object):
    def __init__(self):
        self.ref = None


def resolve(t):
    while isinstance(t, TVar) and t.ref is not None:
        t = t.ref
    if isinstance(t, tuple) and t[0] == "list":
        return ("list", resolve(t[1]))
    if isinstance(t, tuple) and t[0] == "tuple":
        return ("tuple", tuple(resolve(x) for x in t[1]))
    return t


def unify(a, b, node):
    a, b = resolve(a), resolve(b)
    if isinstance(a, TVar):
        if a is not b:
            a.ref = b
        return b
    if isinstance(b, TVar):
        b.ref = a
        return a
    if isinstance(a, tuple) and isinstance(b, tuple) and a[0] == b[0] == "list":
        return ("list", unify(a[1], b[1], node))
    if isinstance(a, tuple) and isinstance(b, tuple) and a[0] == b[0] == "tuple" and len(a[1]) == len(b[1]):
        return ("tuple", tuple(unify(x, y, node) for x, y in zip(a[1], b[1])))
    if a != b:
        fail(node, "type mismatch: %s vs %s" % (show_type(a), show_type(b)))
    return a


def show_type(t):
    t = resolve(t)
    if isinstance(t, TVar):
        return "?"
    if isinstance(t, tuple):
        if t[0] == "list":
            return "list[%s]" % show_type(t[1])
        if t[0] == "fn":
            return "fn(%s)->%s" % (",".join(show_type(x) for x in t[1]), show_type(t[2]))
        if t[0] == "tuple":
            return "tuple(%s)" % ",".join(show_type(x) for x in t[1])
        if t[0] == "dict":
            return "dict:%s" % t[1]
        if t[0] == "obj":
            return "obj:%s" % t[1]
    return t


def parse_type(s):
    s = s.strip()
    if s in ("int", "float", "ratio", "bool", "unit", "optfloat"):
        return s
    if s.startswith("dict:") and re.match(r"^[A-Za-z][A-Za-z0-9_]*$", s[5:]):
        return ("dict", s[5:])        # a dict with the fixed key set SPEC gives under "dicts" (a Coq record)
    if s.startswith("obj:") and re.match(r"^[A-Za-z][A-Za-z0-9_]*$", s[4:]):
        return ("obj", s[4:])         # an object of which only the attributes SPEC lists under "objects" are read (a Coq record)
    if s.startswith("list[") and s.endswith("]"):
        return ("list", parse_type(s[5:-1]))
    def split_top(args):
        parts, depth, cur = [], 0, ""
        for ch in args:
            if ch == "," and depth == 0:
                parts.append(cur); cur = ""
            else:
                depth += ch in "[("; depth -= ch in "])"; cur += ch
        if cur.strip():
            parts.append(cur)
        return parts
    if s.startswith("tuple[") and s.endswith("]"):
        return ("tuple", tuple(parse_type(p) for p in split_top(s[6:-1])))
    if s.startswith("fn(") and "->" in s:
        args, ret = s[3:].rsplit(")->", 1)
        return ("fn", tuple(parse_type(p) for p in split_top(args)), parse_type(ret))
    raise Untranslatable("bad type in spec: %r" % s)


def coq_type(t):
    t = resolve(t)
    if isinstance(t, TVar):
        raise Untranslatable("element type of a list could not be inferred")
    if t == "int":
        return "Z"
    if t == "float":
        return "T"
    if t == "ratio":
        return "ratio"
    if t == "bool":
        return "bool"
    if t == "unit":
        return "unit"
    if t == "optfloat":
        return "option T"         # a list slot that holds None or a float
    if t[0] == "list":
        return "list %s" % paren_type(t[1])
    if t[0] == "fn":
        return " -> ".join([paren_type(a) for a in t[1]] + ["gres %s" % paren_type(t[2])])
    if t[0] == "tuple":
        return " * ".join(paren_type(a) for a in t[1])
    if t[0] in ("dict", "obj"):
        return "%s T" % t[1]
    raise Untranslatable("bad type %r" % (t,))


def paren_type(t):
    s = coq_type(t)
    return "(%s)" % s if " " in s else s


# Coq keywords / constructors in scope that may not be used as (pattern) variables
RESERVED = set("""left right S O Some None true false tt nil cons pair inl inr GOk GErr GCont GRet Z0 Zpos Zneg xH xI xO
py_inf py_ninf dist eq_refl I Lt Gt Eq as at cofix else end exists exists2 fix for forall fun if IF in let match mod Prop return Set then
Type using where with do K T IndexError ValueError TypeError ZeroDivisionError GeomdlError OutOfFuel Qmake""".split())


def mangle(name):
    return name + "_" if name in RESERVED or name.startswith("v_") or name.startswith("self_") else name


EXC = {"ValueError": "ValueError", "TypeError": "TypeError", "IndexError": "IndexError",
       "ZeroDivisionError": "ZeroDivisionError", "GeomdlException": "GeomdlError"}
IGNORED_DECORATORS = ("export", "lru_cache")      # identity / memoisation of a pure function


# ----------------------------------------------------------------------------------------------- helpers on the AST
def assigned_names(stmts):
    """names assigned anywhere in a statement list (deep), in order of first assignment"""
    out = []

    def add(n):
        if n not in out:
            out.append(n)

    def target(t):
        if isinstance(t, ast.Name):
            add(t.id)
        elif isinstance(t, ast.Subscript):
            base = t
            while isinstance(base, ast.Subscript):
                base = base.value
            if isinstance(base, ast.Name):
                add(base.id)
            else:
                fail(t, "assignment target not understood")
        elif isinstance(t, (ast.Tuple, ast.List)):
            for e in t.elts:
                target(e)
        elif isinstance(t, ast.Attribute) and isinstance(t.value, ast.Name):
            pass                     # x.attr = e does not bind a name (only understood at the top level of a function: set_attribute)
        else:
            fail(t, "assignment target not understood")

    def walk(ss):
        for s in ss:
            if isinstance(s, ast.Assign):
                for t in s.targets:
                    target(t)
            elif isinstance(s, ast.AugAssign):
                target(s.target)
            elif isinstance(s, ast.For):
                target(s.target); walk(s.body); walk(s.orelse)
            elif isinstance(s, ast.While):
                walk(s.body); walk(s.orelse)
            elif isinstance(s, ast.If):
                walk(s.body); walk(s.orelse)
            elif isinstance(s, ast.Try):
                walk(s.body)
                for h in s.handlers:
                    walk(h.body)
                walk(s.orelse); walk(s.finalbody)
            elif isinstance(s, ast.Expr) and isinstance(s.value, ast.Call) and isinstance(s.value.func, ast.Attribute) \
                    and s.value.func.attr in ("append", "extend", "insert", "pop", "reverse", "sort", "clear", "remove"):
                target(s.value.func.value)
    walk(stmts)
    return out


MUTATORS = ("append", "extend", "insert", "pop", "reverse", "sort", "clear", "remove")


def mutates_lists(stmts):
    for st in stmts:
        for n in ast.walk(st):
            if isinstance(n, (ast.Assign, ast.AugAssign)):
                tg = n.targets if isinstance(n, ast.Assign) else [n.target]
                for t in tg:
                    for x in ast.walk(t):
                        if isinstance(x, ast.Subscript):
                            return True
            if isinstance(n, ast.AugAssign):
                return True if not isinstance(n.target, ast.Name) else mutates_lists_aug(n)
            if isinstance(n, ast.Call) and isinstance(n.func, ast.Attribute) and n.func.attr in MUTATORS:
                return True
            if isinstance(n, ast.Delete):
                return True
    return False


def mutates_lists_aug(n):
    # `x += e` on a name is in place only if x is a list.  Guess from the right-hand side; a wrong guess is safe:
    # "no" is re-checked with the real type in s_AugAssign, "yes" only switches the strict aliasing rules on
    return isinstance(n.value, (ast.List, ast.ListComp, ast.Call))


def reads_before_bound(stmts, name):
    """may the statements read `name` before they (certainly) bind it?  (straight-line scan; anything unclear counts as a read)"""
    def loads(node):
        return any(isinstance(n, ast.Name) and n.id == name and isinstance(n.ctx, ast.Load) for n in ast.walk(node))
    for st in stmts:
        if isinstance(st, ast.Assign) and len(st.targets) == 1 and isinstance(st.targets[0], ast.Name) and st.targets[0].id == name:
            return loads(st.value)
        if isinstance(st, ast.For) and isinstance(st.target, ast.Name) and st.target.id == name:
            if loads(st.iter):
                return True
            # the loop binds it only if it runs: what follows may still see the old value -> keep scanning after the loop,
            # but the body itself starts with the name bound
            continue
        if any(isinstance(n, ast.Name) and n.id == name for n in ast.walk(st)):
            return loads(st) or True
    return False


def contains(stmts, kinds):
    for s in stmts:
        for n in ast.walk(s):
            if isinstance(n, kinds):
                return True
    return False


def always_terminates(stmts):
    if not stmts:
        return False
    s = stmts[-1]
    if isinstance(s, (ast.Return, ast.Raise)):
        return True
    if isinstance(s, ast.If):
        return always_terminates(s.body) and always_terminates(s.orelse)
    return False


def is_docstring(s):
    return isinstance(s, ast.Expr) and isinstance(s.value, ast.Constant) and isinstance(s.value.value, str)


# ----------------------------------------------------------------------------------------------- contexts
class Ctx(object):
    """what `return e` and falling off the end of the current block mean"""
    def __init__(self, ret, fall, rtype):
        self.ret, self.fall, self.rtype = ret, fall, rtype


YIELDED = "py_yielded"


def degenerate(fdef):
    """a generator function as the function that returns the list of the values it yields (what list(f(...)) is, for a generator that is
    run to its end):  `yield e` (a statement) becomes py_yielded.append(e), the function starts with py_yielded = [] and ends with
    return py_yielded.  Anything else with yield (yield as an expression, yield from, return inside) is refused."""
    import copy
    f = copy.deepcopy(fdef)
    if any(isinstance(n, ast.Name) and n.id == YIELDED for n in ast.walk(f)) or any(isinstance(a, ast.arg) and a.arg == YIELDED for a in ast.walk(f)):
        fail(fdef, "the name %s is used by the function" % YIELDED)
    if contains(f.body, (ast.Return, ast.YieldFrom, ast.FunctionDef, ast.Lambda)):
        fail(fdef, "generator: return / yield from / nested functions are not understood")
    count = [0]

    class Tr(ast.NodeTransformer):
        def visit_Expr(self, node):
            if isinstance(node.value, ast.Yield):
                if node.value.value is None:
                    fail(node, "yield without a value")
                count[0] += 1
                new = ast.parse("%s.append(0)" % YIELDED).body[0]
                new.value.args = [node.value.value]
                return ast.fix_missing_locations(ast.copy_location(new, node))
            return node
    f = Tr().visit(f)
    if any(isinstance(n, (ast.Yield, ast.YieldFrom)) for n in ast.walk(f)):
        fail(fdef, "yield used as an expression")
    if count[0] == 0:
        fail(fdef, "SPEC says generator, but the function does not yield")
    first = 1 if f.body and is_docstring(f.body[0]) else 0
    init = ast.copy_location(ast.parse("%s = []" % YIELDED).body[0], fdef)
    ret = ast.copy_location(ast.parse("return %s" % YIELDED).body[0], fdef)
    f.body = f.body[:first] + [init] + f.body[first:] + [ret]
    return ast.fix_missing_locations(f)


class FunTrans(object):
    def __init__(self, modtrans, fspec, fdef):
        if fspec.get("generator", False):
            fdef = degenerate(fdef)
        elif any(isinstance(n, (ast.Yield, ast.YieldFrom)) for n in ast.walk(fdef)):
            fail(fdef, "a generator function (SPEC does not say generator)")
        self.m, self.spec, self.fdef = modtrans, fspec, fdef
        self.counter = 0
        self.fuels = list(fspec.get("fuel", []))
        self.fuels_used = set()
        self.fuel_params = []
        self.params = []          # (python name, type)
        self.kwparams = {}        # name -> type
        self.alias_ok = fspec.get("alias_ok", False)
        self.checked_div = fspec.get("checked_div", False)
        self.catching_zero_div = 0
        self.callee_raises = set()
        self.static_vals = dict(fspec.get("static_vals", {}))     # parameter -> the literal this variant is specialised to
        self.abstract_used = set()
        self.static_locals = {}   # local name -> the bool literal it certainly holds here (constant propagation)
        self.dyn_depth = 0        # > 0 inside loop bodies / branches of run-time conditions
        self.facts = {}           # name -> c : `name >= c` holds from here on (after `if name < c: return ...`)
        self.local_fns = {}       # nested function name -> {"owned": [...]}
        self.outer_names = ()     # (nested functions) the variables of the enclosing function
        # methods: SPEC names them Class.method; `self` is not a value of the generated code, the attributes SPEC lists under
        # "self_attrs" (self._span_func) become parameters self_<attr> that take the place of `self`
        self.cls = fspec["name"].split(".")[0] if "." in fspec["name"] else None
        self.selfname = None
        self.selfattrs = []       # (attribute, type)
        self.readonly = set()     # local names given to (parts of) a dict argument: never updated in place
        # a function that never updates a list in place may give a list a second name
        if not mutates_lists(fdef.body):
            self.alias_ok = True
            self.pure_lists = True
        else:
            self.pure_lists = False

    # ---- names
    def fresh(self):
        self.counter += 1
        return "v_%d" % self.counter

    # ---- signature
    def signature(self):
        f, sp = self.fdef, self.spec
        a = f.args
        if a.kwonlyargs or getattr(a, "posonlyargs", []):
            fail(f, "unsupported argument kinds")
        if a.vararg and (sp.get("vararg") != a.vararg.arg or a.args or a.defaults):
            # f(*args) only: the tuple of the positional arguments is ONE list parameter (SPEC "vararg": its name; its type under
            # "params"); it is read-only like any argument.  Translated code cannot call such a function.
            fail(f, "unsupported argument kinds")
        for d in f.decorator_list:
            dn = d.func if isinstance(d, ast.Call) else d
            name = dn.id if isinstance(dn, ast.Name) else None
            if name not in IGNORED_DECORATORS:
                fail(f, "unknown decorator")
        allnames = [x.arg for x in a.args]
        if a.vararg:
            allnames = [a.vararg.arg]
        if self.cls is not None:
            if not allnames:
                fail(f, "a method without a self parameter")
            self.selfname, allnames = allnames[0], allnames[1:]
            if self.selfname in assigned_names(f.body) or self.selfname in allnames or a.kwarg and a.kwarg.arg == self.selfname:
                fail(f, "the self parameter is rebound")
            for attr in sp.get("self_attrs", {}):
                self.selfattrs.append((attr, parse_type(sp["self_attrs"][attr])))
        elif sp.get("self_attrs"):
            fail(f, "self_attrs in the spec of a plain function")
        self.all_params = allnames
        for n in self.static_vals:
            if n not in allnames:
                fail(f, "static parameter %s is not a parameter" % n)
            if n in assigned_names(f.body):
                fail(f, "static parameter %s is assigned in the body" % n)
        # "none_params" (set by a "none_variants" entry of SPEC): this variant is the function called with None for these
        # parameters (their default); they are not parameters of the generated function, `p is None` is true until p is assigned
        self.none_params = list(sp.get("none_params", []))
        for n in self.none_params:
            if n not in allnames or n in self.static_vals:
                fail(f, "none parameter %s is not a parameter" % n)
        names = [n for n in allnames if n not in self.static_vals]
        if names != list(sp["params"].keys()) and set(names) != set(sp["params"].keys()):
            fail(f, "parameters %s differ from the spec %s" % (names, list(sp["params"].keys())))
        for n in names:
            if n not in self.none_params:
                self.params.append((n, parse_type(sp["params"][n])))
        ndef = len(a.defaults)
        self.defaults = {}
        self.static_defaults = {}
        for n, d in zip(allnames[len(allnames) - ndef:], a.defaults):
            if n in self.static_vals:
                if not (isinstance(d, ast.Constant) and isinstance(d.value, bool)):
                    fail(f, "the default of a static parameter must be True / False")
                self.static_defaults[n] = d.value
            elif isinstance(d, ast.Constant) and d.value is None:
                pass        # p=None for a parameter whose SPEC type cannot be None: no default here, callers must give it
            else:
                self.defaults[n] = d
        for n in self.none_params:
            if n in self.defaults or n not in allnames[len(allnames) - ndef:]:
                fail(f, "the default of the none parameter %s is not None" % n)
        # "fuel_params": extra int parameters of the GENERATED function (no counterpart in the source) that the fuel expressions of while
        # loops may use, for loops whose number of passes is not bounded by an int expression of the source (linalg.frange)
        self.fuel_params = list(sp.get("fuel_params", []))
        for n in self.fuel_params:
            if n in allnames or n in assigned_names(f.body) or not re.match(r"^py_[a-z_]+$", n):
                fail(f, "fuel parameter %s: must be a fresh name py_..." % n)
        kws = sp.get("kwargs", {})
        if a.kwarg is None and kws:
            fail(f, "spec lists keyword arguments but the function has no **kwargs")
        self.kwname = a.kwarg.arg if a.kwarg else None
        for n in kws:
            self.kwparams[n] = parse_type(kws[n])
        self.kwdefaults = {}
        self.rtype = parse_type(sp["returns"])

    # ------------------------------------------------------------------------------------------- expressions
    # expr(node, env) -> (binds, term, type);  binds = list of text lines to be emitted before the term is used
    def coerce_float(self, term, t, node):
        t = resolve(t)
        if t == "float":
            return term
        if t == "int":
            return "(ofZ K %s)" % term
        fail(node, "cannot use %s as a float" % show_type(t))

    def coerce_operand(self, opnode, term, t, node):
        """an int LITERAL next to a float is the float literal of the same value (1 - x is 1.0 - x)"""
        if resolve(t) == "int" and isinstance(opnode, ast.Constant) and isinstance(opnode.value, int) \
                and not isinstance(opnode.value, bool):
            return self.const(ast.Constant(value=float(opnode.value)))[1]
        return self.coerce_float(term, t, node)

    def const(self, node):
        v = node.value
        if v is None:
            return [], "None", "optfloat"       # only meaningful as a list element (a placeholder)
        if isinstance(v, bool):
            return [], ("true" if v else "false"), "bool"
        if isinstance(v, int):
            return [], (str(v) if v >= 0 else "(%d)" % v), "int"
        if isinstance(v, float):
            fr = Fraction(repr(v))
            if fr == 0:
                return [], "(o0 K)", "float"
            if fr == 1:
                return [], "(o1 K)", "float"
            if fr.denominator == 1:
                return [], "(olitz K %s)" % zlit(fr.numerator), "float"
            return [], "(olit K %s %d)" % (zlit(fr.numerator), fr.denominator), "float"
        fail(node, "constant %r not understood" % (v,))

    def ratio_const(self, node):
        if isinstance(node, ast.Constant) and isinstance(node.value, (int, float)) and not isinstance(node.value, bool):
            fr = Fraction(repr(node.value))
            return "(rlit %s %d)" % (zlit(fr.numerator), fr.denominator)
        fail(node, "a ratio default must be a numeric literal")

    def expr(self, node, env):
        m = getattr(self, "e_" + type(node).__name__, None)
        if m is None:
            fail(node, "expression %s not understood" % type(node).__name__)
        return m(node, env)

    def e_Constant(self, node, env):
        return self.const(node)

    def e_Name(self, node, env):
        if node.id in self.static_vals and node.id not in env:
            return [], ("true" if self.static_vals[node.id] else "false"), "bool"
        if node.id in env and isinstance(env[node.id], tuple) and env[node.id][0] == "building":
            fail(node, "an object under construction can only be assigned attributes and returned")
        if node.id in env:
            if self.local_fns.get(node.id, {}).get("owned"):
                fail(node, "a nested function that updates its argument in place may only be used in reduce(f, xs, fresh)")
            return [], mangle(node.id), env[node.id]
        fn = self.m.lookup_function(node.id)
        if fn is not None and (fn.get("infinity") or fn.get("variants") or fn.get("abstract")):
            fail(node, "a function with infinity / static parameters used as a value")
        if fn is not None:
            return [], "(%s K)" % fn["coqname"], fn["fntype"]
        fail(node, "variable %s is not (definitely) bound here" % node.id)

    def selfattr(self, node, env):
        """self.<attr> for an attribute SPEC lists under self_attrs -> (coq name, type), else None"""
        if isinstance(node, ast.Attribute) and isinstance(node.value, ast.Name) and self.selfname is not None \
                and node.value.id == self.selfname and self.selfname not in env and isinstance(node.ctx, ast.Load):
            for attr, t in self.selfattrs:
                if attr == node.attr:
                    return "self_" + attr, t
            fail(node, "the attribute %s of self is not in the spec (self_attrs)" % node.attr)
        return None

    def e_Attribute(self, node, env):
        sa = self.selfattr(node, env)
        if sa is not None:
            return [], sa[0], sa[1]
        if isinstance(node.ctx, ast.Load):
            # x.attr on an object-typed value (SPEC "objects": the attributes that are read, with their types): the projection of
            # the record.  Trusted reading: reading the attribute has no effect and returns the value of that field.
            probe = None
            if not (isinstance(node.value, ast.Name) and node.value.id not in env):
                b, x, t = self.expr(node.value, env)
                t = resolve(t)
                if isinstance(t, tuple) and t[0] == "obj":
                    fields = self.obj_fields(t[1], node)
                    if node.attr not in fields:
                        fail(node, "the attribute %r is not in the spec of the object type %s" % (node.attr, t[1]))
                    return b, "(%s_%s %s)" % (t[1], node.attr, x), parse_type(fields[node.attr])
            # module.function as a value (kwargs.get('find_span_func', helpers.find_span_linear))
            fn = self.function_ref(node, env)
            if fn is not None:
                return [], "(%s K)" % fn["coqname"], fn["fntype"]
        fail(node, "attribute access not understood")

    def function_ref(self, node, env):
        """a translated function named as a value (f or module.f), usable as such (no static / abstract / infinity parameters)"""
        fn = None
        if isinstance(node, ast.Name) and node.id not in env:
            fn = self.m.lookup_function(node.id)
        elif isinstance(node, ast.Attribute) and isinstance(node.value, ast.Name) and node.value.id not in env:
            fn = self.m.lookup_module_function(node.value.id, node.attr)
        if fn is not None and (fn.get("infinity") or fn.get("variants") or fn.get("abstract") or fn.get("tvariants")
                               or fn.get("selfattrs") or fn.get("fuel_params")):
            fail(node, "a function with infinity / static / abstract parameters used as a value")
        return fn

    def obj_fields(self, oname, node):
        d = self.m.spec.get("objects", {}).get(oname)
        if d is None:
            fail(node, "the object type %s is not in the spec (objects)" % oname)
        return d

    def dict_fields(self, dname, node):
        d = self.m.spec.get("dicts", {}).get(dname)
        if d is None:
            fail(node, "the dict type %s is not in the spec (dicts)" % dname)
        return d

    def e_UnaryOp(self, node, env):
        b, x, t = self.expr(node.operand, env)
        t = resolve(t)
        if isinstance(node.op, ast.USub):
            if isinstance(node.operand, ast.Constant) and t == "int":
                return [], "(-%s)" % x, "int"
            if t == "int":
                return b, "(- %s)" % x, "int"
            if t == "float":
                return b, "(oneg K %s)" % x, "float"
            if t == "ratio":
                return b, "(rsub (rofZ 0) %s)" % x, "ratio"
        if isinstance(node.op, ast.Not) and t == "bool":
            return b, "(negb %s)" % x, "bool"
        if isinstance(node.op, ast.Not) and t == "int":
            return b, "(%s =? 0)" % x, "bool"          # not n  on an int
        if isinstance(node.op, ast.Not) and isinstance(t, tuple) and t[0] == "list":
            return b, "(zlen %s =? 0)" % x, "bool"     # not l  on a list
        if isinstance(node.op, ast.UAdd) and t in ("int", "float", "ratio"):
            return b, x, t
        fail(node, "unary operator not understood")

    def e_BinOp(self, node, env):
        idi = self.idiom(node, env)
        if idi is not None:
            return idi
        bl, l, tl = self.expr(node.left, env)
        br, r, tr = self.expr(node.right, env)
        tl, tr = resolve(tl), resolve(tr)
        b = bl + br
        op = type(node.op).__name__
        if isinstance(tl, tuple) and tl[0] == "list" and isinstance(tr, tuple) and tr[0] == "list" and op == "Add":
            return b, "(%s ++ %s)" % (l, r), unify(tl, tr, node)
        # an operand read from a list of None-or-float slots: arithmetic on None raises TypeError
        if tl == "optfloat":
            v = self.fresh()
            b = b + ["do %s <- py_unopt %s ;;" % (v, l)]; l, tl = v, "float"
        if tr == "optfloat":
            v = self.fresh()
            b = b + ["do %s <- py_unopt %s ;;" % (v, r)]; r, tr = v, "float"
        if tl == tr == "bool" and op in ("Add", "Sub"):
            # True / False as the ints 1 / 0 :  (a > b) - (a < b)
            return b, "(Z.b2z %s %s Z.b2z %s)" % (l, "+" if op == "Add" else "-", r), "int"
        num = ("int", "float", "ratio")
        if tl not in num or tr not in num:
            fail(node, "operands %s, %s not understood" % (show_type(tl), show_type(tr)))
        if tl == tr == "int":
            if op in ("Add", "Sub", "Mult"):
                return b, "(%s %s %s)" % (l, {"Add": "+", "Sub": "-", "Mult": "*"}[op], r), "int"
            if op == "Div":
                if isinstance(node.right, ast.Constant) and node.right.value != 0:
                    return b, "(rdiv %s %s)" % (l, r), "ratio"
                v = self.fresh()
                return b + ["do %s <- zdiv_chk %s %s ;;" % (v, l, r)], v, "ratio"
            if op == "FloorDiv":
                if isinstance(node.right, ast.Constant) and node.right.value != 0:
                    return b, "(%s / %s)" % (l, r), "int"       # Z./ floors like Python for every sign
            if op == "Mod":
                if isinstance(node.right, ast.Constant) and isinstance(node.right.value, int) and node.right.value > 0:
                    return b, "(%s mod %s)" % (l, r), "int"     # Z.modulo has the sign of the divisor, like Python
            fail(node, "integer operator %s not understood" % op)
        if op == "Pow" and tl == "float" and isinstance(node.right, ast.Constant) and type(node.right.value) is int \
                and node.right.value == 2:
            return b, "(omul K %s %s)" % (l, l), "float"        # x ** 2 = x * x (rounding is not modelled)
        if "float" in (tl, tr):
            if "ratio" in (tl, tr):
                # an exact rational (int / int) next to a float: injected into the scalars, as float(a / b) is
                if tl == "ratio":
                    l, tl = "(oratio K %s)" % l, "float"
                else:
                    r, tr = "(oratio K %s)" % r, "float"
            l, r = self.coerce_operand(node.left, l, tl, node), self.coerce_operand(node.right, r, tr, node)
            fn = {"Add": "oadd", "Sub": "osub", "Mult": "omul", "Div": "odiv"}.get(op)
            if fn is None:
                fail(node, "float operator %s not understood" % op)
            if op == "Div" and (self.checked_div or self.catching_zero_div):
                v = self.fresh()      # ZeroDivisionError is observable here: the division is checked
                return b + ["do %s <- odiv_chk K %s %s ;;" % (v, l, r)], v, "float"
            return b, "(%s K %s %s)" % (fn, l, r), "float"
        # ratio with ratio / int
        if tl == "int":
            l = "(rofZ %s)" % l
        if tr == "int":
            r = "(rofZ %s)" % r
        fn = {"Add": "radd", "Sub": "rsub", "Mult": "rmul"}.get(op)
        if fn is None:
            fail(node, "ratio operator %s not understood" % op)
        return b, "(%s %s %s)" % (fn, l, r), "ratio"

    def cmp1(self, op, l, tl, r, tr, node):
        tl, tr = resolve(tl), resolve(tr)
        o = type(op).__name__
        if tl == tr == "int":
            tab = {"Lt": "(%s <? %s)", "LtE": "(%s <=? %s)", "Eq": "(%s =? %s)", "NotEq": "(negb (%s =? %s))"}
            if o in tab:
                return tab[o] % (l, r)
            if o == "Gt":
                return "(%s <? %s)" % (r, l)
            if o == "GtE":
                return "(%s <=? %s)" % (r, l)
        elif tl in ("int", "float") and tr in ("int", "float"):
            l, r = self.coerce_float(l, tl, node), self.coerce_float(r, tr, node)
            tab = {"Lt": "(oltb K %s %s)", "LtE": "(oleb K %s %s)", "Eq": "(oeqb K %s %s)",
                   "NotEq": "(negb (oeqb K %s %s))"}
            if o in tab:
                return tab[o] % (l, r)
            if o == "Gt":
                return "(oltb K %s %s)" % (r, l)
            if o == "GtE":
                return "(oleb K %s %s)" % (r, l)
        elif tl == tr == ("list", "float") and o in ("Eq", "NotEq"):
            # list == list: the same length and pairwise ==
            return ("(pylist_eqb K %s %s)" if o == "Eq" else "(negb (pylist_eqb K %s %s))") % (l, r)
        elif tl == tr == "bool" and o in ("Eq", "NotEq"):
            return ("(Bool.eqb %s %s)" if o == "Eq" else "(negb (Bool.eqb %s %s))") % (l, r)
        fail(node, "comparison %s on %s, %s not understood" % (o, show_type(tl), show_type(tr)))

    def e_Compare(self, node, env):
        # `x is None` / `x is not None` on a value whose spec type cannot be None
        if len(node.ops) == 1 and isinstance(node.ops[0], (ast.Is, ast.IsNot)) and \
                isinstance(node.comparators[0], ast.Constant) and node.comparators[0].value is None:
            if self.holds_none(node.left, env):
                return [], ("true" if isinstance(node.ops[0], ast.Is) else "false"), "bool"
            b, x, t = self.expr(node.left, env)
            return b, ("false" if isinstance(node.ops[0], ast.Is) else "true"), "bool"
        b, l, tl = self.expr(node.left, env)
        return self.compare_chain(b, l, tl, list(node.ops), list(node.comparators), env, node)

    def holds_none(self, node, env):
        """a parameter this variant of the function is called with None for ("none_params"), not assigned so far"""
        return isinstance(node, ast.Name) and node.id in getattr(self, "none_params", ()) and node.id not in env

    def static_none_test(self, test, env):
        """`p is None` / `p is not None` for such a parameter -> its truth value, else None"""
        if isinstance(test, ast.Compare) and len(test.ops) == 1 and isinstance(test.ops[0], (ast.Is, ast.IsNot)) \
                and isinstance(test.comparators[0], ast.Constant) and test.comparators[0].value is None \
                and self.holds_none(test.left, env):
            return isinstance(test.ops[0], ast.Is)
        return None

    def compare_chain(self, b, l, tl, ops, comps, env, node):
        br, r, tr = self.expr(comps[0], env)
        c = self.cmp1(ops[0], l, tl, r, tr, node)
        if len(ops) == 1:
            return b + br, c, "bool"
        # a < b < c : b evaluated once, the rest only if the first comparison holds
        b2, c2, _ = self.compare_chain([], r, tr, ops[1:], comps[1:], env, node)
        if not b2:
            return b + br, "(andb %s %s)" % (c, c2), "bool"
        v = self.fresh()
        return b + br + ["do %s <- (if %s then (%s GOk %s) else GOk false) ;;" % (v, c, " ".join(b2), c2)], v, "bool"

    def e_BoolOp(self, node, env):
        b, x, t = self.expr(node.values[0], env)
        if resolve(t) != "bool":
            fail(node, "and/or on non-booleans")
        isand = isinstance(node.op, ast.And)
        for nxt in node.values[1:]:
            b2, y, t2 = self.expr(nxt, env)
            if resolve(t2) != "bool":
                fail(node, "and/or on non-booleans")
            if not b2:
                x = "(%s %s %s)" % ("andb" if isand else "orb", x, y)
            else:   # short circuit: the right operand is evaluated only when needed
                v = self.fresh()
                if isand:
                    b = b + ["do %s <- (if %s then (%s GOk %s) else GOk false) ;;" % (v, x, " ".join(b2), y)]
                else:
                    b = b + ["do %s <- (if %s then GOk true else (%s GOk %s)) ;;" % (v, x, " ".join(b2), y)]
                x = v
        return b, x, "bool"

    def e_IfExp(self, node, env):
        if isinstance(node.test, ast.Name) and node.test.id in self.static_vals and node.test.id not in env:
            return self.expr(node.body if self.static_vals[node.test.id] else node.orelse, env)
        if isinstance(node.test, ast.Name) and node.test.id in self.static_locals and node.test.id in env:
            return self.expr(node.body if self.static_locals[node.test.id] else node.orelse, env)
        bc, c, tc = self.expr(node.test, env)
        b1, x1, t1 = self.expr(node.body, env)
        b2, x2, t2 = self.expr(node.orelse, env)
        t = unify(t1, t2, node)
        if not b1 and not b2:
            return bc, "(if %s then %s else %s)" % (c, x1, x2), t
        v = self.fresh()
        return bc + ["do %s <- (if %s then (%s GOk %s) else (%s GOk %s)) ;;" %
                     (v, c, " ".join(b1), x1, " ".join(b2), x2)], v, t

    def e_List(self, node, env):
        if not node.elts:
            return [], "[]", ("list", TVar())
        b, xs, t = [], [], TVar()
        parts = []
        for e in node.elts:
            be, x, te = self.expr(e, env)
            self.no_alias(e, te)
            b += be; parts.append((e, x, resolve(te)))
        # [x - y, 0, 0] : an int LITERAL in a list of floats is the float literal of the same value, as an operand of a
        # float operation would be (the model's lists are homogeneous)
        if any(te == "float" for _, _, te in parts) and all(
                te == "float" or (te == "int" and isinstance(e, ast.Constant)) for e, _, te in parts):
            parts = [(e, self.coerce_operand(e, x, te, node), "float") for e, x, te in parts]
        for e, x, te in parts:
            xs.append(x); t = unify(t, te, node)
        return b, "[%s]" % "; ".join(xs), ("list", t)

    def e_Tuple(self, node, env):
        b, xs, ts = [], [], []
        for e in node.elts:
            be, x, t = self.expr(e, env)
            b += be; xs.append(x); ts.append(t)
        if len(xs) < 2:
            fail(node, "tuple with fewer than two components")
        return b, "(%s)" % ", ".join(xs), ("tuple", tuple(ts))

    def e_Subscript(self, node, env):
        if isinstance(node.slice, ast.Slice):
            return self.slice_expr(node, env)
        bl, l, tl = self.expr(node.value, env)
        tl = resolve(tl)
        if isinstance(tl, tuple) and tl[0] == "dict":
            # d['key'] on a dict with the fixed key set of SPEC: the projection of the record
            k = node.slice
            fields = self.dict_fields(tl[1], node)
            if not (isinstance(k, ast.Constant) and isinstance(k.value, str)):
                fail(node, "a dict may only be indexed by a literal key")
            if k.value not in fields:
                fail(node, "the key %r is not in the spec of the dict type %s" % (k.value, tl[1]))
            return bl, "(%s_%s %s)" % (tl[1], k.value, l), parse_type(fields[k.value])
        if isinstance(tl, tuple) and tl[0] == "tuple":
            # t[k] on a tuple (a Coq pair ((a, b), c)) with a literal index inside the tuple
            k = node.slice
            n = len(tl[1])
            if not (isinstance(k, ast.Constant) and isinstance(k.value, int) and not isinstance(k.value, bool)
                    and 0 <= k.value < n):
                fail(node, "a tuple may only be indexed by a literal 0 <= k < its length")
            proj = l
            for _ in range(n - 1 - k.value):
                proj = "(fst %s)" % proj
            if k.value > 0:
                proj = "(snd %s)" % proj
            return bl, proj, tl[1][k.value]
        if not (isinstance(tl, tuple) and tl[0] == "list"):
            fail(node, "indexing a %s" % show_type(tl))
        bi, i, ti = self.expr(node.slice, env)
        if resolve(ti) != "int":
            fail(node, "index is not an int")
        v = self.fresh()
        return bl + bi + ["do %s <- znth %s %s ;;" % (v, l, i)], v, tl[1]

    def slice_expr(self, node, env):
        bl, l, tl = self.expr(node.value, env)
        tl = resolve(tl)
        if not (isinstance(tl, tuple) and tl[0] == "list"):
            fail(node, "slicing a %s" % show_type(tl))
        s = node.slice
        if s.step is not None:
            fail(node, "slice step")
        b = bl
        lo = hi = None
        if s.lower is not None:
            b1, lo, t1 = self.expr(s.lower, env); b += b1
            if resolve(t1) != "int":
                fail(node, "slice bound is not an int")
        if s.upper is not None:
            b1, hi, t1 = self.expr(s.upper, env); b += b1
            if resolve(t1) != "int":
                fail(node, "slice bound is not an int")
        if lo is None and hi is None:
            return b, l, tl
        if lo is None:
            return b, "(zslice_to %s %s)" % (l, hi), tl
        if hi is None:
            return b, "(zslice_from %s %s)" % (l, lo), tl
        return b, "(zslice %s %s %s)" % (l, lo, hi), tl

    def iter_source(self, it, env):
        """iteration source of a for / comprehension -> (binds, list term, element type)"""
        if isinstance(it, ast.Call) and isinstance(it.func, ast.Name) and it.func.id == "range" and "range" not in env:
            if it.keywords or not (1 <= len(it.args) <= 3):
                fail(it, "range() arguments")
            b, xs = [], []
            for a in it.args:
                ba, x, t = self.expr(a, env)
                if resolve(t) != "int":
                    fail(it, "range() of a non-int")
                b += ba; xs.append(x)
            if len(xs) == 1:
                xs = ["0", xs[0]]
            if len(xs) == 2:
                xs.append("1")
            else:
                st = it.args[2]
                try:
                    val = ast.literal_eval(st)
                except Exception:
                    fail(it, "range() step must be a literal")
                if not isinstance(val, int) or val == 0:
                    fail(it, "range() step must be a non-zero int literal")
            return b, "(zrange %s %s %s)" % tuple(xs), "int"
        if isinstance(it, ast.Call) and isinstance(it.func, ast.Name) and it.func.id == "enumerate" and "enumerate" not in env:
            if it.keywords or len(it.args) != 1:
                fail(it, "enumerate() arguments")
            inner = it.args[0]
            if isinstance(inner, ast.Call) and isinstance(inner.func, ast.Name) and inner.func.id == "zip" and "zip" not in env:
                b1, x1, et1 = self.iter_source(inner, env)        # enumerate(zip(a, b))
                return b1, "(combine (zrange 0 (zlen %s) 1) %s)" % (x1, x1), ("tuple", ("int", et1))
            b1, x1, t1 = self.expr(inner, env)
            t1 = resolve(t1)
            if not (isinstance(t1, tuple) and t1[0] == "list"):
                fail(it, "enumerate() of a non-list")
            return b1, "(combine (zrange 0 (zlen %s) 1) %s)" % (x1, x1), ("tuple", ("int", t1[1]))
        if isinstance(it, ast.Call) and isinstance(it.func, ast.Name) and it.func.id == "zip" and "zip" not in env:
            if it.keywords or len(it.args) not in (2, 3):
                fail(it, "zip() arguments")
            b1, x1, t1 = self.expr(it.args[0], env)
            b2, x2, t2 = self.expr(it.args[1], env)
            t1, t2 = resolve(t1), resolve(t2)
            if not (isinstance(t1, tuple) and t1[0] == "list" and isinstance(t2, tuple) and t2[0] == "list"):
                fail(it, "zip() of non-lists")
            if len(it.args) == 3:
                # zip(a, b, c): triples ((x, y), z) - stops at the shortest list, like the nested combine
                b3, x3, t3 = self.expr(it.args[2], env)
                t3 = resolve(t3)
                if not (isinstance(t3, tuple) and t3[0] == "list"):
                    fail(it, "zip() of non-lists")
                return b1 + b2 + b3, "(combine (combine %s %s) %s)" % (x1, x2, x3), ("tuple", (t1[1], t2[1], t3[1]))
            return b1 + b2, "(combine %s %s)" % (x1, x2), ("tuple", (t1[1], t2[1]))
        if isinstance(it, ast.Call) and isinstance(it.func, ast.Name) and it.func.id == "reversed" and "reversed" not in env:
            if it.keywords or len(it.args) != 1:
                fail(it, "reversed() arguments")
            b1, x1, t1 = self.expr(it.args[0], env)
            t1 = resolve(t1)
            if not (isinstance(t1, tuple) and t1[0] == "list"):
                fail(it, "reversed() of a non-list")
            return b1, "(rev %s)" % x1, t1[1]
        b, x, t = self.expr(it, env)
        t = resolve(t)
        if not (isinstance(t, tuple) and t[0] == "list"):
            fail(it, "iteration over a %s" % show_type(t))
        return b, x, t[1]

    def bind_target(self, tgt, et, env):
        """loop / comprehension target -> (pattern text, new env)"""
        env = dict(env)
        et = resolve(et)
        if isinstance(tgt, ast.Name):
            env[tgt.id] = et
            return ("_" if tgt.id == "_" else mangle(tgt.id)), env
        if isinstance(tgt, ast.Tuple) and isinstance(et, tuple) and et[0] == "tuple" and len(tgt.elts) == len(et[1]) \
                and all(isinstance(e, ast.Name) for e in tgt.elts):
            for e, t in zip(tgt.elts, et[1]):
                env[e.id] = t
            return "'(%s)" % ", ".join(mangle(e.id) for e in tgt.elts), env
        fail(tgt, "loop target not understood")

    def e_ListComp(self, node, env):
        if len(node.generators) != 1:
            fail(node, "nested comprehension generators")
        g = node.generators[0]
        if g.ifs or g.is_async:
            fail(node, "comprehension filter")
        b, src, et = self.iter_source(g.iter, env)
        pat, env2 = self.bind_target(g.target, et, env)
        save = self.counter
        if isinstance(node.elt, ast.Tuple) and not node.elt.elts:
            # [() for _ in range(n)]: slots that are overwritten later; the empty tuple is the empty sequence []
            be, x, t = [], "[]", ("list", TVar())
        else:
            be, x, t = self.expr(node.elt, env2)
            self.no_alias(node.elt, t)
        if not be:
            return b, "(map (fun %s => %s) %s)" % (pat, x, src), ("list", t)
        v = self.fresh()
        return b + ["do %s <- gmapM (fun %s => %s GOk %s) %s ;;" % (v, pat, " ".join(be), x, src)], v, ("list", t)

    def e_Call(self, node, env):
        idi = self.idiom(node, env)
        if idi is not None:
            return idi
        f = node.func
        # kwargs.get('name', default)
        if isinstance(f, ast.Attribute) and f.attr == "get" and isinstance(f.value, ast.Name) and f.value.id == self.kwname \
                and self.kwname not in env:
            if len(node.args) != 2 or node.keywords or not isinstance(node.args[0], ast.Constant):
                fail(node, "kwargs.get form")
            key = node.args[0].value
            if key in self.spec.get("static_kwargs", {}):
                # this generated function is the specialisation of the source to that value of the keyword (a bool flag)
                val = self.spec["static_kwargs"][key]
                d = node.args[1]
                if not (isinstance(val, bool) and isinstance(d, ast.Constant) and isinstance(d.value, bool)):
                    fail(node, "a static keyword and its default must be True / False")
                self.static_kw_read = getattr(self, "static_kw_read", set()) | {key}
                return [], ("true" if val else "false"), "bool"
            if key not in self.kwparams:
                fail(node, "keyword argument %r is not in the spec" % (key,))
            bd = self.record_kwdefault(key, node.args[1], env)
            return bd, "kw_" + key, self.kwparams[key]
        ab = self.spec.get("abstract_calls", {})
        if ab:
            cname = None
            if isinstance(f, ast.Attribute) and isinstance(f.value, ast.Name) and f.value.id not in env \
                    and f.value.id in self.m.imported_mods:
                cname = "%s.%s" % (self.m.imported_mods[f.value.id], f.attr)
            elif isinstance(f, ast.Attribute) and isinstance(f.value, ast.Name) and f.value.id not in env \
                    and f.value.id == "math" and "math" in self.m.plain_imports:
                cname = "math.%s" % f.attr          # math.sqrt left uninterpreted
            if cname in ab:
                # a callee SPEC leaves uninterpreted: it is a function PARAMETER of the generated function (the tie theorem
                # holds for every such function)
                pname, ftype = ab[cname]["param"], parse_type(ab[cname]["type"])
                if node.keywords or len(node.args) != len(ftype[1]):
                    fail(node, "call of the abstract function %s: arity" % cname)
                b, xs = [], []
                for a, t in zip(node.args, ftype[1]):
                    ba, x, ta = self.expr(a, env)
                    unify(ta, t, node); b += ba; xs.append(x)
                v = self.fresh()
                self.callee_raises |= set(EXC.values())
                self.abstract_used.add(cname)
                return b + ["do %s <- %s %s ;;" % (v, pname, " ".join(xs))], v, ftype[2]
        if isinstance(f, ast.Attribute) and isinstance(f.value, ast.Name) and f.value.id == "math" and "math" not in env \
                and "math" in self.m.plain_imports:
            return self.math_call(node, env)
        if isinstance(f, ast.Attribute) and isinstance(f.value, ast.Name) and f.value.id == "copy" and "copy" not in env \
                and "copy" in self.m.plain_imports and f.attr == "deepcopy":
            return self.p_deepcopy(node, env)          # copy.deepcopy(x): values are immutable here
        sa = self.selfattr(f, env)
        if sa is not None:
            # self._span_func(...): the call of a function-typed attribute of self (a parameter of the generated function)
            return self.call_fnvalue(sa[0], sa[1], node, env)
        if isinstance(f, ast.Attribute) and isinstance(f.value, ast.Call) and isinstance(f.value.func, ast.Name) \
                and f.value.func.id == "super" and "super" not in env:
            return self.call_super(node, env)
        if isinstance(f, ast.Name) and f.id not in env:
            prim = getattr(self, "p_" + f.id, None)
            if prim is not None and f.id in PRIMITIVES:
                return prim(node, env)
        # call of a function-typed variable or of a translated function
        if isinstance(f, ast.Name) and f.id in env:
            if self.local_fns.get(f.id, {}).get("owned"):
                if isinstance(resolve(env[f.id]), tuple) and resolve(env[f.id])[0] == "fn" and not node.keywords \
                        and len(node.args) == len(resolve(env[f.id])[1]):
                    fail(node, "a nested function that updates its argument in place may only be used in reduce(f, xs, fresh)")
            return self.call_fnvalue(mangle(f.id), env[f.id], node, env)
        name = None
        if isinstance(f, ast.Name):
            name = f.id
            fn = self.m.lookup_function(name)
        elif isinstance(f, ast.Attribute) and isinstance(f.value, ast.Name) and f.value.id not in env:
            fn = self.m.lookup_module_function(f.value.id, f.attr)
            name = f.value.id + "." + f.attr
        else:
            fn = None
        if fn is None:
            fail(node, "call of %s: not a translated function or a primitive" % (name or "an expression"))
        return self.call_translated(fn, node, env)

    def call_fnvalue(self, term, ft, node, env):
        """the call of a function-typed variable (an argument function, a nested function, an attribute of self)"""
        ft = resolve(ft)
        if not (isinstance(ft, tuple) and ft[0] == "fn"):
            fail(node, "call of a non-function")
        if node.keywords or len(node.args) != len(ft[1]):
            fail(node, "call of a function argument: arity")
        b, xs = [], []
        for a, t in zip(node.args, ft[1]):
            ba, x, ta = self.expr(a, env)
            if resolve(t) == "float" and resolve(ta) == "int":
                x = self.coerce_operand(a, x, ta, node)
            else:
                unify(ta, t, node)
            b += ba; xs.append(x)
        v = self.fresh()
        self.callee_raises |= set(EXC.values())       # an argument function may raise anything
        return b + ["do %s <- %s %s ;;" % (v, term, " ".join(xs))], v, ft[2]

    def call_super(self, node, env):
        """super(Class, self).method(args): the method of the nearest base class that defines it (single inheritance, plain
        classes only); it must have been translated (SPEC order).  The attributes of self it uses are passed on."""
        f = node.func
        sup = f.value
        if self.cls is None or sup.keywords or len(sup.args) != 2 or not all(isinstance(a, ast.Name) for a in sup.args) \
                or sup.args[0].id != self.cls or sup.args[1].id != self.selfname or self.cls in env or self.selfname in env:
            fail(node, "super() form: only super(<this class>, self) inside a method")
        owner = self.m.super_owner(self.cls, f.attr, node)
        fn = self.m.funcs.get("%s.%s" % (owner, f.attr))
        if fn is None:
            fail(node, "the method %s.%s is not translated (before this one)" % (owner, f.attr))
        prefix = []
        mine = dict(self.selfattrs)
        for attr, t in fn["selfattrs"]:
            if attr not in mine or resolve(mine[attr]) != resolve(t):
                fail(node, "the callee uses self.%s, which is not in the spec of this method (self_attrs)" % attr)
            prefix.append("self_" + attr)
        return self.call_translated(fn, node, env, prefix)

    def call_translated(self, fn, node, env, prefix=()):
        b, xs = [], []
        if fn.get("vararg"):
            fail(node, "call of a function with *args (not supported)")
        allp = fn.get("all_params", [p for p, _ in fn["params"]])
        statics = fn.get("static", [])
        given_all = {}
        if len(node.args) > len(allp):
            fail(node, "too many arguments")
        for p, a in zip(allp, node.args):
            given_all[p] = a
        keywords = []
        for kw in node.keywords:
            if kw.arg in statics:
                if kw.arg in given_all:
                    fail(node, "argument given twice")
                given_all[kw.arg] = kw.value
            else:
                keywords.append(kw)
        if statics:
            # a static parameter selects the variant of the callee: it must be a literal (or left to its default)
            key = []
            for sp_ in statics:
                if sp_ in given_all:
                    a = given_all.pop(sp_)
                    if isinstance(a, ast.Name) and a.id in env and a.id in self.static_locals:
                        a = ast.Constant(value=self.static_locals[a.id])      # a flag that certainly holds this literal here
                    elif isinstance(a, ast.Name) and a.id not in env and a.id in self.static_vals:
                        a = ast.Constant(value=self.static_vals[a.id])        # the caller's own static parameter
                    if not (isinstance(a, ast.Constant) and isinstance(a.value, bool)):
                        fail(node, "the static argument %s must be the literal True / False" % sp_)
                    if tuple(key + [a.value]) not in [k[:len(key) + 1] for k in fn["variants"]]:
                        fail(node, "the callee is not translated for %s = %s" % (sp_, a.value))
                    key.append(a.value)
                elif sp_ in fn["static_defaults"]:
                    key.append(fn["static_defaults"][sp_])
                else:
                    fail(node, "missing argument %s" % sp_)
            fn = fn["variants"][tuple(key)]
        if fn.get("tvariants"):
            fn = self.pick_type_variant(fn, given_all, keywords, env, node)
        pnames = [p for p, _ in fn["params"]]
        given = given_all
        kwgiven = {}
        forwarded = False
        for kw in keywords:
            if kw.arg is None:
                # f(..., **kwargs) with the function's own **kwargs: every keyword the callee reads is passed on (the callee's
                # keys must be keys of this function's spec, with the same types)
                if not (isinstance(kw.value, ast.Name) and kw.value.id == self.kwname and self.kwname not in env) or forwarded:
                    fail(node, "** in a call: only the function's own **kwargs, once")
                forwarded = True
                continue
            if kw.arg in pnames:
                if kw.arg in given:
                    fail(node, "argument given twice")
                given[kw.arg] = kw.value
            elif kw.arg in fn["kwparams"]:
                kwgiven[kw.arg] = kw.value
            else:
                fail(node, "unknown keyword argument %s" % kw.arg)
        for p, t in fn["params"]:
            if p in given:
                anode = given[p]
                if isinstance(anode, ast.Tuple) and isinstance(resolve(t), tuple) and resolve(t)[0] == "list":
                    # a tuple display passed for a parameter that is only indexed: the list of the same elements
                    anode = ast.copy_location(ast.List(elts=anode.elts, ctx=ast.Load()), anode)
                ba, x, ta = self.expr(anode, env)
                t2 = resolve(t)
                if t2 == "float" and resolve(ta) == "int":
                    x = self.coerce_float(x, ta, node)
                else:
                    unify(ta, t, node)
                b += ba; xs.append(x)
            elif p in fn["defaults"]:
                xs.append(fn["defaults"][p])
            else:
                fail(node, "missing argument %s" % p)
        for k in fn["kworder"]:
            if k in kwgiven:
                ba, x, ta = self.expr(kwgiven[k], env)
                unify(ta, fn["kwparams"][k], node); b += ba; xs.append(x)
            elif forwarded:
                if k not in self.kwparams or resolve(self.kwparams[k]) != resolve(fn["kwparams"][k]):
                    fail(node, "**kwargs passed on: the keyword %s of the callee is not in the spec of this function" % k)
                # the default of a keyword that is only passed on is the callee's
                dflt = None if k in fn["kwnodefault"] else "(%s__default_%s K)" % (fn["coqname"], k)
                if k in self.kwdefaults and self.kwdefaults[k] != dflt:
                    fail(node, "keyword %s: passed on to a callee with another default" % k)
                self.kwdefaults[k] = dflt
                xs.append("kw_" + k)
            elif k in fn["kwnodefault"]:
                fail(node, "keyword argument %s has a computed default: give it explicitly" % k)
            else:
                xs.append("(%s__default_%s K)" % (fn["coqname"], k))
        for cname in fn.get("abstract_cnames", []):
            # an uninterpreted callee of the callee (linalg.point_distance): it must be the same parameter of this function
            mine = self.spec.get("abstract_calls", {}).get(cname)
            if mine is None or mine != fn["abstract_spec"][cname]:
                fail(node, "call of a function with the abstract callee %s, which is not an abstract callee of this function" % cname)
            self.abstract_used.add(cname)
        if fn.get("abstract") and len(fn.get("abstract_cnames", [])) != len(fn["abstract"]):
            fail(node, "call of a function with abstract callees (not supported)")
        if fn.get("infinity"):
            if not self.spec.get("infinity_params", False):
                fail(node, "call of a function with infinity parameters from one without")
            xs += ["py_inf", "py_ninf"]
        for n in fn.get("fuel_params", []):
            # the callee's fuel parameter is the caller's parameter of the same name
            if n not in self.fuel_params:
                fail(node, "call of a function with the fuel parameter %s, which is not a fuel parameter of this function" % n)
            xs.append(n)
        xs += list(fn.get("abstract", []))
        v = self.fresh()
        self.callee_raises |= set(fn.get("raises", ()))
        return b + ["do %s <- %s K %s ;;" % (v, fn["coqname"], " ".join(list(prefix) + xs))], v, fn["rtype"]

    def pick_type_variant(self, fn, given, keywords, env, node):
        """the variant of fn (the function itself or one of its "type_variants") whose parameter types are the types of the
        arguments of this call; the arguments are translated once more by the caller (probe: counters are restored)"""
        args = dict(given)
        for kw in keywords:
            if kw.arg is not None:
                args[kw.arg] = kw.value
        save, saver = self.counter, self.callee_raises
        atypes = {}
        for name, a in args.items():
            try:
                if isinstance(a, ast.Tuple):
                    a = ast.copy_location(ast.List(elts=a.elts, ctx=ast.Load()), a)
                atypes[name] = resolve(self.expr(a, env)[2])
            except Untranslatable:
                atypes[name] = None
        self.counter, self.callee_raises = save, set(saver)

        def concrete(t):
            if isinstance(t, TVar) or t is None:
                return False
            if isinstance(t, tuple) and t[0] in ("list",):
                return concrete(t[1])
            if isinstance(t, tuple) and t[0] == "tuple":
                return all(concrete(x) for x in t[1])
            return True
        for cand in [fn] + list(fn["tvariants"]):
            ok = True
            for pn, pt in cand["params"]:
                at = atypes.get(pn)
                if at is not None and concrete(at) and resolve(pt) != at and not (resolve(pt) == "float" and at == "int"):
                    ok = False
            if ok:
                return cand
        fail(node, "no type variant of %s fits the argument types" % fn["coqname"])

    def record_kwdefault(self, key, dnode, env):
        t = resolve(self.kwparams[key])
        if t == "ratio":
            txt = self.ratio_const(dnode)
        else:
            try:
                ast.literal_eval(dnode)
                literal = True
            except Exception:
                literal = False
            if not literal and isinstance(t, tuple) and t[0] == "fn" and self.function_ref(dnode, env) is not None:
                # the default is a translated function (find_span_func = helpers.find_span_linear): a constant
                b, txt, td = self.expr(dnode, {})
                if resolve(td) != t:
                    fail(dnode, "the default function of keyword %s has another type than the spec gives" % key)
                if key in self.kwdefaults and self.kwdefaults[key] != txt:
                    fail(dnode, "two different defaults for keyword %s" % key)
                self.kwdefaults[key] = txt
                return []
            if not literal:
                # Python evaluates the default expression before the lookup: keep its effects (it may raise), drop its value;
                # such a keyword has no default definition and must be given explicitly by translated callers
                b, txt, td = self.expr(dnode, env)
                unify(td, t, dnode)
                if key in self.kwdefaults:
                    fail(dnode, "keyword %s read twice" % key)
                self.kwdefaults[key] = None
                return b
            b, txt, td = self.expr(dnode, {})
            if b:
                fail(dnode, "default of a keyword argument must be a pure literal expression")
            if t == "float" and resolve(td) == "int":
                txt = self.coerce_float(txt, td, dnode)
            else:
                unify(td, t, dnode)
        if key in self.kwdefaults and self.kwdefaults[key] != txt:
            fail(dnode, "two different defaults for keyword %s" % key)
        self.kwdefaults[key] = txt
        return []

    def math_call(self, node, env):
        name = node.func.attr
        if node.keywords:
            fail(node, "math.%s with keywords" % name)
        if name == "factorial" and len(node.args) == 1:
            b, x, t = self.expr(node.args[0], env)
            if resolve(t) != "int":
                fail(node, "math.factorial of a %s" % show_type(t))
            v = self.fresh()
            return b + ["do %s <- zfact_chk %s ;;" % (v, x)], v, "int"       # ValueError for a negative argument
        if name == "pow" and len(node.args) == 2:
            base = node.args[0]
            if isinstance(base, ast.UnaryOp) and isinstance(base.op, ast.USub) and isinstance(base.operand, ast.Constant) \
                    and base.operand.value == 1 and type(base.operand.value) is int:
                b, x, t = self.expr(node.args[1], env)
                if resolve(t) != "int":
                    fail(node, "math.pow(-1, e) with e a %s" % show_type(t))
                return b, "(pow_neg1 K %s)" % x, "float"                      # math.pow(-1, n) = 1.0 / -1.0
        fail(node, "math.%s: not understood" % name)

    # ---- primitives
    def args1(self, node, env, n=1):
        if node.keywords or len(node.args) != n:
            fail(node, "arity of %s" % node.func.id)
        return [self.expr(a, env) for a in node.args]

    def p_len(self, node, env):
        (b, x, t), = self.args1(node, env)
        t = resolve(t)
        if not (isinstance(t, tuple) and t[0] == "list"):
            fail(node, "len of a %s" % show_type(t))
        return b, "(zlen %s)" % x, "int"

    def p_abs(self, node, env):
        (b, x, t), = self.args1(node, env)
        t = resolve(t)
        if t == "float":
            return b, "(oabs K %s)" % x, "float"
        if t == "int":
            return b, "(Z.abs %s)" % x, "int"
        fail(node, "abs of a %s" % show_type(t))

    def p_float(self, node, env):
        (b, x, t), = self.args1(node, env)
        if resolve(t) == "ratio":
            return b, "(oratio K %s)" % x, "float"       # float(a / b) for ints a, b: the exact quotient as a scalar
        return b, self.coerce_float(x, t, node), "float"

    def p_int(self, node, env):
        (b, x, t), = self.args1(node, env)
        t = resolve(t)
        if t == "int":
            return b, x, "int"
        if t == "ratio":
            return b, "(rtrunc %s)" % x, "int"
        fail(node, "int() of a %s" % show_type(t))

    def p_round(self, node, env):
        (b, x, t), = self.args1(node, env)
        t = resolve(t)
        if t == "int":
            return b, x, "int"
        if t == "ratio":
            return b, "(rround %s)" % x, "int"
        fail(node, "round() of a %s" % show_type(t))

    def minmax(self, node, env, zf, of):
        if len(node.args) == 1 and isinstance(node.args[0], ast.Starred) and not node.keywords:
            # min(*l) for a list of floats: the first minimal element (TypeError for fewer than two elements: min() of nothing,
            # min(x) of a float that is not iterable)
            b, x, t = self.expr(node.args[0].value, env)
            if resolve(t) != ("list", "float"):
                fail(node, "%s(*l) of a %s" % (node.func.id, show_type(t)))
            v = self.fresh()
            return b + ["do %s <- %s_list K %s ;;" % (v, of, x)], v, "float"
        (b1, x, t1), (b2, y, t2) = self.args1(node, env, 2)
        t1, t2 = resolve(t1), resolve(t2)
        if t1 == t2 == "int":
            return b1 + b2, "(%s %s %s)" % (zf, x, y), "int"
        if t1 in ("int", "float") and t2 in ("int", "float") and t1 == t2:
            return b1 + b2, "(%s K %s %s)" % (of, x, y), "float"
        fail(node, "min/max of %s, %s" % (show_type(t1), show_type(t2)))

    def p_min(self, node, env):
        return self.minmax(node, env, "zmin", "pymin")

    def p_max(self, node, env):
        return self.minmax(node, env, "zmax", "pymax")

    def p_list(self, node, env):
        if not node.args and not node.keywords and node.func.id == "list":
            return [], "[]", ("list", TVar())          # list(): a new empty list
        (b, x, t), = self.args1(node, env)
        t = resolve(t)
        if isinstance(t, tuple) and t[0] == "list":
            self.no_alias_elems(node, t)
            return b, x, t      # a shallow copy: the same value
        fail(node, "list() of a %s" % show_type(t))

    p_tuple = p_list

    def p_sum(self, node, env):
        (b, x, t), = self.args1(node, env)
        t = resolve(t)
        if t == ("list", "float"):
            return b, "(gsum K %s)" % x, "float"
        fail(node, "sum() of a %s" % show_type(t))

    def p_all(self, node, env):
        (b, x, t), = self.args1(node, env)
        if resolve(t) != ("list", "bool"):
            fail(node, "%s() of a %s" % (node.func.id, show_type(t)))
        return b, "(py_%s %s)" % (node.func.id, x), "bool"

    p_any = p_all

    def p_bool(self, node, env):
        (b, x, t), = self.args1(node, env)
        return b, self.truth(x, t, node), "bool"

    def truth(self, x, t, node):
        """Python truthiness of an int / bool value"""
        t = resolve(t)
        if t == "bool":
            return x
        if t == "int":
            return "(negb (%s =? 0))" % x
        if isinstance(t, tuple) and t[0] == "list":
            return "(negb (zlen %s =? 0))" % x        # a list is true when it is not empty
        fail(node, "truth value of a %s" % show_type(t))

    def p_sorted(self, node, env):
        if len(node.args) == 1 and not node.keywords and isinstance(node.args[0], ast.Call) \
                and isinstance(node.args[0].func, ast.Name) and node.args[0].func.id == "set" and "set" not in env \
                and len(node.args[0].args) == 1 and not node.args[0].keywords:
            b, x, t = self.expr(node.args[0].args[0], env)
            if resolve(t) == ("list", "float"):
                return b, "(py_sorted_uniq K %s)" % x, t      # sorted(set(l)): the distinct values, ascending
            fail(node, "sorted(set()) of a %s" % show_type(t))
        (b, x, t), = self.args1(node, env)
        t = resolve(t)
        if t == ("list", ("list", "float")):
            return b, "(py_sorted_pts K %s)" % x, t       # a new list (of the same point objects)
        fail(node, "sorted() of a %s" % show_type(t))

    def p_reduce(self, node, env):
        """reduce(f, xs, init) with f a nested function:  acc = init; for x in xs: acc = f(acc, x)"""
        if node.keywords or len(node.args) != 3 or not isinstance(node.args[0], ast.Name):
            fail(node, "reduce() form")
        fname = node.args[0].id
        if fname not in env or fname not in self.local_fns:
            fail(node, "reduce() of something that is not a nested function")
        ft = resolve(env[fname])
        if len(ft[1]) != 2:
            fail(node, "reduce() of a function that does not take two arguments")
        bx, xs, et = self.iter_source(node.args[1], env)
        unify(et, ft[1][1], node)
        bi, init, ti = self.expr(node.args[2], env)
        unify(ti, ft[1][0], node); unify(ft[2], ft[1][0], node)
        if self.local_fns[fname].get("owned"):
            # f updates its first argument in place: sound only if nobody else can see that object
            if self.local_fns[fname]["owned"] != [self.local_fns[fname]["params"][0]] or not self.is_fresh(node.args[2]) \
                    or isinstance(node.args[2], ast.Call):
                fail(node, "reduce() with an in-place function needs a fresh literal as the initial value")
        v, x, acc = self.fresh(), self.fresh(), self.fresh()
        self.callee_raises |= set(EXC.values())
        return bx + bi + ["do %s <- gfor %s (fun %s %s => %s %s %s) %s ;;" % (v, xs, x, acc, mangle(fname), acc, x, init)], v, ft[2]

    def p___range_last__(self, node, env):
        (b1, lo, t1), (b2, hi, t2) = self.args1(node, env, 2)
        v = self.fresh()
        return b1 + b2 + ["do %s <- range_last %s %s ;;" % (v, lo, hi)], v, "int"

    def p_deepcopy(self, node, env):
        (b, x, t), = self.args1(node, env)
        return b, x, t          # values are immutable here: a copy is the same value

    # ---- trusted idioms
    def is_float_of_int(self, n, env):
        return isinstance(n, ast.Call) and isinstance(n.func, ast.Name) and n.func.id == "float" and "float" not in env \
            and len(n.args) == 1 and not n.keywords

    def idiom(self, node, env):
        # float(a) / float(b) for ints a, b, in a function SPEC marks "exact_int_quotients": the quotient a / b, carried as
        # an exact rational like a / b itself (ZeroDivisionError for b == 0, as for float division by 0.0); needed where
        # the source goes on with int(j * d) (compute_knot_vector2)
        if self.spec.get("exact_int_quotients", False) and isinstance(node, ast.BinOp) and isinstance(node.op, ast.Div) \
                and self.is_float_of_int(node.left, env) and self.is_float_of_int(node.right, env):
            save = self.counter
            bl, l, tl = self.expr(node.left.args[0], env)
            br, r, tr = self.expr(node.right.args[0], env)
            if resolve(tl) == "int" and resolve(tr) == "int":
                v = self.fresh()
                return bl + br + ["do %s <- zdiv_chk %s %s ;;" % (v, l, r)], v, "ratio"
            self.counter = save
        # float('inf') / float('-inf'): no scalar of T; they become the parameters py_inf / py_ninf of the generated
        # function (only in the functions SPEC marks "infinity_params"; the tie theorems assume what the function needs of
        # them, e.g. that they compare above / below the data)
        if isinstance(node, ast.Call) and isinstance(node.func, ast.Name) and node.func.id == "float" \
                and "float" not in env and len(node.args) == 1 and not node.keywords \
                and isinstance(node.args[0], ast.Constant) and isinstance(node.args[0].value, str):
            if node.args[0].value not in ("inf", "-inf"):
                fail(node, "float() of a string other than 'inf' / '-inf'")
            if not self.spec.get("infinity_params", False):
                fail(node, "float('inf') in a function that SPEC does not mark infinity_params")
            return [], ("py_inf" if node.args[0].value == "inf" else "py_ninf"), "float"
        # float(("{:." + str(decimals) + "f}").format(X))  ->  fround decimals X
        if isinstance(node, ast.Call) and isinstance(node.func, ast.Name) and node.func.id == "float" \
                and "float" not in env and len(node.args) == 1 and not node.keywords:
            c = node.args[0]
            if isinstance(c, ast.Call) and isinstance(c.func, ast.Attribute) and c.func.attr == "format" \
                    and len(c.args) == 1 and not c.keywords:
                fmt = c.func.value
                if isinstance(fmt, ast.BinOp) and isinstance(fmt.op, ast.Add) and isinstance(fmt.left, ast.BinOp) \
                        and isinstance(fmt.left.op, ast.Add) and isinstance(fmt.left.left, ast.Constant) \
                        and fmt.left.left.value == "{:." and isinstance(fmt.right, ast.Constant) and fmt.right.value == "f}" \
                        and isinstance(fmt.left.right, ast.Call) and isinstance(fmt.left.right.func, ast.Name) \
                        and fmt.left.right.func.id == "str" and len(fmt.left.right.args) == 1:
                    bd, d, td = self.expr(fmt.left.right.args[0], env)
                    if resolve(td) != "int":
                        fail(node, "decimals is not an int")
                    bx, x, tx = self.expr(c.args[0], env)
                    return bd + bx, "(fround %s %s)" % (d, self.coerce_float(x, tx, node)), "float"
                fail(node, "str.format idiom not understood")
        return None

    # ---- aliasing: a list value may only be stored if it is fresh
    def is_fresh(self, node):
        if isinstance(node, (ast.ListComp, ast.List, ast.Constant)):
            return True
        if isinstance(node, ast.BinOp):
            return True
        if isinstance(node, ast.Call):
            return True        # translated functions and primitives return fresh values (deepcopy, list, ...)
        if isinstance(node, ast.Subscript) and isinstance(node.slice, ast.Slice):
            return True
        return False

    def no_alias(self, node, t):
        t = resolve(t)
        if isinstance(t, tuple) and t[0] == "list" and not self.is_fresh(node) and not self.alias_ok:
            fail(node, "a list is stored under a second name (aliasing is not modelled)")

    def no_alias_elems(self, node, t):
        t = resolve(t)
        if isinstance(t[1], tuple) and t[1][0] == "list" and not self.alias_ok:
            fail(node, "shallow copy of a nested list (aliasing is not modelled)")

    # ------------------------------------------------------------------------------------------- statements
    def pat(self, names):
        if not names:
            return "tt", "_"
        if len(names) == 1:
            return mangle(names[0]), mangle(names[0])
        tup = "(%s)" % ", ".join(mangle(n) for n in names)
        return tup, "'" + tup

    def block(self, stmts, env, ctx, ind):
        """text lines for a statement list followed by the context's fall-through"""
        if not stmts:
            return ctx.fall(env, ind)
        s, rest = stmts[0], stmts[1:]
        m = getattr(self, "s_" + type(s).__name__, None)
        if m is None:
            fail(s, "statement %s not understood" % type(s).__name__)
        return m(s, rest, env, ctx, ind)

    def emit(self, binds, ind):
        return [ind + b for b in binds]

    def s_Expr(self, s, rest, env, ctx, ind):
        if is_docstring(s):
            return self.block(rest, env, ctx, ind)
        c = s.value
        if isinstance(c, ast.Call) and isinstance(c.func, ast.Name) and c.func.id == "print" and "print" not in env:
            return [ind + "do _ <- py_print ;;"] + self.block(rest, env, ctx, ind)
        if isinstance(c, ast.Call) and isinstance(c.func, ast.Attribute) and c.func.attr == "append" \
                and isinstance(c.func.value, ast.Name) and len(c.args) == 1 and not c.keywords:
            name = c.func.value.id
            self.check_mutable(name, env, s)
            b, x, t = self.expr(c.args[0], env)
            self.no_alias(c.args[0], t)
            lt = unify(env[name], ("list", t), s)
            env = dict(env); env[name] = lt
            return self.emit(b, ind) + [ind + "let %s := %s ++ [%s] in" % (mangle(name), mangle(name), x)] + \
                self.block(rest, env, ctx, ind)
        if isinstance(c, ast.Call) and isinstance(c.func, ast.Attribute) and c.func.attr == "pop" \
                and isinstance(c.func.value, ast.Name) and not c.args and not c.keywords:
            name = c.func.value.id                      # X.pop() as a statement: drop the last element
            self.check_mutable(name, env, s)
            if not (isinstance(resolve(env[name]), tuple) and resolve(env[name])[0] == "list"):
                fail(s, "pop() on a %s" % show_type(env[name]))
            return [ind + "do %s <- zpop %s ;;" % (mangle(name), mangle(name))] + self.block(rest, env, ctx, ind)
        fail(s, "expression statement not understood")

    def check_mutable(self, name, env, node):
        if name not in env:
            fail(node, "variable %s is not bound" % name)
        if name in self.readonly:
            fail(node, "in-place update of %s, a part of a dict argument (visible to the caller; not modelled)" % name)
        if name in [p for p, _ in self.params] and name not in self.rebound:
            fail(node, "in-place update of the argument %s (visible to the caller; not modelled)" % name)
        if name in self.outer_names and name not in [p for p, _ in self.params] and name not in self.rebound:
            fail(node, "a nested function updates the variable %s of the enclosing function in place" % name)

    def s_Assign(self, s, rest, env, ctx, ind):
        if len(s.targets) != 1:
            fail(s, "chained assignment")
        tgt = s.targets[0]
        if isinstance(tgt, ast.Tuple) and isinstance(s.value, ast.Tuple) and len(tgt.elts) == len(s.value.elts):
            return self.assign_display(tgt, s.value, s, rest, env, ctx, ind)
        value = s.value
        c_ = value
        if isinstance(tgt, ast.Name) and isinstance(c_, ast.Call) and isinstance(c_.func, ast.Attribute) and c_.func.attr == "get" \
                and isinstance(c_.func.value, ast.Name) and c_.func.value.id == self.kwname and self.kwname not in env \
                and len(c_.args) == 2 and not c_.keywords and isinstance(c_.args[0], ast.Constant) \
                and c_.args[0].value in self.spec.get("static_kwargs", {}):
            # flag = kwargs.get('k', default) for a static keyword: the literal this variant is specialised to
            self.expr(c_, env)          # (checks the form)
            value = ast.copy_location(ast.Constant(value=self.spec["static_kwargs"][c_.args[0].value]), c_)
        con = self.construct_call(value, env)
        if con is not None:
            if not isinstance(tgt, ast.Name):
                fail(s, "a new object must be assigned to a variable")
            if s not in self.fdef.body:
                fail(s, "a new object may only be created at the top level of the function body")
            env = dict(env)
            env[tgt.id] = ("building", con, ())
            self.rebound = self.rebound | {tgt.id}
            return self.block(rest, env, ctx, ind)
        if isinstance(tgt, ast.Attribute) and isinstance(tgt.value, ast.Name) and tgt.value.id in env \
                and isinstance(env[tgt.value.id], tuple) and env[tgt.value.id][0] == "building":
            return self.set_attribute(tgt, value, s, rest, env, ctx, ind)
        if isinstance(tgt, ast.Name) and isinstance(value, ast.Tuple) and self.only_indexed(tgt.id):
            # d = (x, y) where d is bound once and only ever read as d[i]: a tuple is immutable, so the list of the same
            # elements behaves the same (indexing with IndexError); needed when i is not a literal
            value = ast.copy_location(ast.List(elts=value.elts, ctx=ast.Load()), value)
        b, x, t = self.expr(value, env)
        return self.assign_to(tgt, b, x, t, value, s, rest, env, ctx, ind)

    # ---- the construction of a result object:  x = Mod.Class() ; x.attr = e ... ; return x
    def construct_call(self, node, env):
        """Mod.Class() for a class SPEC lists under "constructs" -> the record (object type) of the attributes that get assigned"""
        if isinstance(node, ast.Call) and not node.args and not node.keywords and isinstance(node.func, ast.Attribute) \
                and isinstance(node.func.value, ast.Name) and node.func.value.id not in env \
                and node.func.value.id in self.m.imported_mods:
            cname = "%s.%s" % (self.m.imported_mods[node.func.value.id], node.func.attr)
            rec = self.spec.get("constructs", {}).get(cname)
            if rec is not None:
                self.obj_fields(rec, node)
                return rec
        return None

    def set_attribute(self, tgt, value, s, rest, env, ctx, ind):
        """x.attr = e on an object under construction: the value is recorded (evaluated here, in source order).  Trusted reading:
        the object stores the value; what its setter does besides (validation, normalisation) is not part of the translation."""
        name = tgt.value.id
        if s not in self.fdef.body:
            fail(s, "an attribute of a new object may only be assigned at the top level of the function body")
        _, rec, vals = env[name]
        fields = self.obj_fields(rec, s)
        if tgt.attr not in fields:
            fail(s, "the attribute %r is not in the spec of the object type %s" % (tgt.attr, rec))
        if tgt.attr in [a for a, _ in vals]:
            fail(s, "the attribute %s of the new object is assigned twice" % tgt.attr)
        b, x, t = self.expr(value, env)
        ft = parse_type(fields[tgt.attr])
        if resolve(ft) == "float" and resolve(t) == "int":
            x = self.coerce_float(x, t, s)
        else:
            unify(t, ft, s)
        v = self.fresh()
        env = dict(env)
        env[name] = ("building", rec, vals + ((tgt.attr, v),))
        return self.emit(b + ["let %s := %s in" % (v, x)], ind) + self.block(rest, env, ctx, ind)

    def only_indexed(self, name):
        """is `name` bound exactly once in the function and every read of it the container of an index expression name[i]?"""
        if name in self.all_params or name == self.kwname or name == self.selfname:
            return False
        indexed = set()
        stores = 0
        for n in ast.walk(self.fdef):
            if isinstance(n, ast.Subscript) and isinstance(n.ctx, ast.Load) and not isinstance(n.slice, ast.Slice) \
                    and isinstance(n.value, ast.Name) and n.value.id == name:
                indexed.add(id(n.value))
            if isinstance(n, (ast.FunctionDef, ast.Lambda)) and n is not self.fdef:
                return False
        for n in ast.walk(self.fdef):
            if isinstance(n, ast.Name) and n.id == name:
                if isinstance(n.ctx, ast.Store):
                    stores += 1
                elif id(n) not in indexed:
                    return False
        return stores == 1

    def roots_in_dict(self, node, env):
        """is the expression a part x['k'][i]... of a dict argument (or of a name already given to such a part)?"""
        while (isinstance(node, ast.Subscript) and not isinstance(node.slice, ast.Slice)) or \
                (isinstance(node, ast.Attribute) and isinstance(node.ctx, ast.Load)):
            node = node.value
        if not isinstance(node, ast.Name) or node.id not in env:
            return False
        t = resolve(env[node.id])
        return node.id in self.readonly or (isinstance(t, tuple) and t[0] in ("dict", "obj"))

    def assign_display(self, tgt, value, s, rest, env, ctx, ind):
        """a, b = x, y : the right-hand side is evaluated completely, from left to right, then the targets are assigned
        from left to right (each subscript target evaluates its container at that moment)"""
        env = dict(env)
        lines, comps = [], []
        for e in value.elts:
            bk, xk, tk = self.expr(e, env)
            lines += bk
            if isinstance(e, ast.Constant) or (isinstance(e, ast.UnaryOp) and isinstance(e.operand, ast.Constant)) \
                    or re.match(r"^v_\d+$", xk):
                comps.append((xk, tk))          # a literal or an immutable temporary
            else:
                v = self.fresh()
                lines.append("let %s := %s in" % (v, xk)); comps.append((v, tk))
        out = self.emit(lines, ind)
        for e, (xk, tk), ve in zip(tgt.elts, comps, value.elts):
            if isinstance(e, ast.Name):
                self.no_alias(ve, tk)
                if resolve(tk) == "unit":
                    fail(s, "assignment of None")
                self.facts.pop(e.id, None); self.static_locals.pop(e.id, None)
                env[e.id] = tk
                self.rebound = self.rebound | {e.id}
                out += [ind + "let %s := %s in" % (mangle(e.id), xk)]
            elif isinstance(e, ast.Subscript):
                out += self.emit(self.store(e, xk, tk, ve, env, s), ind)
            else:
                fail(s, "assignment target not understood")
        return out + self.block(rest, env, ctx, ind)

    def assign_to(self, tgt, b, x, t, vnode, s, rest, env, ctx, ind):
        env = dict(env)
        if isinstance(tgt, ast.Name):
            self.no_alias(vnode, t)
            name = tgt.id
            if resolve(t) == "unit":
                fail(s, "assignment of None")
            if name in self.readonly:
                fail(s, "the name %s of a part of a dict argument is rebound" % name)
            if isinstance(resolve(t), tuple) and resolve(t)[0] in ("list", "dict", "obj") and self.roots_in_dict(vnode, env):
                self.readonly.add(name)       # ctrlpts = datadict['control_points']: read-only from here on (check_mutable)
            env[name] = t
            self.rebound = self.rebound | {name}
            self.facts.pop(name, None)
            if isinstance(vnode, ast.Constant) and isinstance(vnode.value, bool) and self.dyn_depth == 0:
                self.static_locals[name] = vnode.value       # flag = True / False on a path every execution takes
            else:
                self.static_locals.pop(name, None)
            # `x <- e ;; let y := x in`  ->  `y <- e ;;`
            if b and b[-1].startswith("do %s <- " % x) and x.startswith("v_"):
                lines = b[:-1] + ["do %s <- %s" % (mangle(name), b[-1][len("do %s <- " % x):])]
            else:
                lines = b + ["let %s := %s in" % (mangle(name), x)]
            return self.emit(lines, ind) + self.block(rest, env, ctx, ind)
        if isinstance(tgt, ast.Subscript):
            lines = list(b)
            lines += self.store(tgt, x, t, vnode, env, s)
            return self.emit(lines, ind) + self.block(rest, env, ctx, ind)
        if isinstance(tgt, ast.Tuple) and all(isinstance(e, ast.Name) for e in tgt.elts):
            t = resolve(t)
            if not (isinstance(t, tuple) and t[0] == "tuple" and len(t[1]) == len(tgt.elts)):
                fail(s, "unpacking of a %s" % show_type(t))
            if not isinstance(vnode, ast.Call):
                fail(s, "tuple unpacking is only understood for the result of a call")
            names = [e.id for e in tgt.elts]
            for n, tt in zip(names, t[1]):
                env[n] = tt
                self.facts.pop(n, None); self.static_locals.pop(n, None)
            self.rebound = self.rebound | set(names)
            patt = "'(%s)" % ", ".join(mangle(n) for n in names)
            if b and b[-1].startswith("do %s <- " % x) and x.startswith("v_"):
                lines = b[:-1] + ["do %s <- %s" % (patt, b[-1][len("do %s <- " % x):])]
            else:
                lines = b + ["let %s := %s in" % (patt, x)]
            return self.emit(lines, ind) + self.block(rest, env, ctx, ind)
        fail(s, "assignment target not understood")

    def store(self, tgt, x, t, vnode, env, s):
        """lines performing  tgt = x  for a (nested) subscript target whose base is a local variable"""
        if isinstance(tgt.slice, ast.Slice):
            sl = tgt.slice
            if sl.lower is None and sl.upper is None and sl.step is None:
                # a[i][:] = fresh list of the same type : replaces the contents = replaces the element
                tgt2 = tgt.value
                if isinstance(tgt2, ast.Name):
                    self.check_mutable(tgt2.id, env, s)
                    unify(env[tgt2.id], t, s)
                    self.no_alias(vnode, t)
                    return ["let %s := %s in" % (mangle(tgt2.id), x)]
                self.no_alias(vnode, t)
                return self.store(tgt2, x, t, vnode, env, s)
            if sl.step is None and sl.lower is not None and sl.upper is not None:
                # a[i][lo:hi] = fresh list : Python evaluates the right-hand side, then the container a[i], then the bounds; the
                # container becomes  a[i][:lo] + value + a[i][max(lo, hi):]  (bounds clamped as in a slice): zslice_set
                self.no_alias(vnode, t)
                tgt2 = tgt.value
                bc, cur, tc = self.expr(to_load(tgt2), env)
                tc = resolve(tc)
                if not (isinstance(tc, tuple) and tc[0] == "list"):
                    fail(s, "slice assignment into a %s" % show_type(tc))
                unify(tc, t, s)
                b1, lo, t1 = self.expr(sl.lower, env)
                b2, hi, t2 = self.expr(sl.upper, env)
                if resolve(t1) != "int" or resolve(t2) != "int":
                    fail(s, "slice bound is not an int")
                new = "(zslice_set %s %s %s %s)" % (cur, lo, hi, x)
                if isinstance(tgt2, ast.Name):
                    self.check_mutable(tgt2.id, env, s)
                    return bc + b1 + b2 + ["let %s := %s in" % (mangle(tgt2.id), new)]
                fresh = ast.copy_location(ast.List(elts=[], ctx=ast.Load()), s)
                return bc + b1 + b2 + self.store(tgt2, new, tc, fresh, env, s)
            fail(s, "slice assignment")
        self.no_alias(vnode, t)
        path = []
        base = tgt
        while isinstance(base, ast.Subscript):
            if isinstance(base.slice, ast.Slice):
                fail(s, "slice inside an assignment target")
            path.append(base.slice)
            base = base.value
        if not isinstance(base, ast.Name):
            fail(s, "assignment target not understood")
        name = base.id
        self.check_mutable(name, env, s)
        path.reverse()
        lines = []
        idx = []
        for p in path:
            bi, i, ti = self.expr(p, env)
            if resolve(ti) != "int":
                fail(s, "index is not an int")
            lines += bi; idx.append(i)
        # descend
        cur, curt, rows = mangle(name), resolve(env[name]), []
        for i in idx[:-1]:
            if not (isinstance(curt, tuple) and curt[0] == "list"):
                fail(s, "indexing a %s" % show_type(curt))
            v = self.fresh()
            lines.append("do %s <- znth %s %s ;;" % (v, cur, i))
            rows.append((cur, i)); cur, curt = v, resolve(curt[1])
        if not (isinstance(curt, tuple) and curt[0] == "list"):
            fail(s, "indexing a %s" % show_type(curt))
        et = resolve(curt[1])
        if et == "float" and resolve(t) == "int":
            x = self.coerce_float(x, t, s)
        elif et == ("list", "optfloat") and resolve(t) == ("list", "float"):
            x = "(map Some %s)" % x          # floats stored into None-or-float slots
        elif et == "optfloat" and resolve(t) == "float":
            x = "(Some %s)" % x
        else:
            unify(curt[1], t, s)
        # rebuild from the inside out
        if not rows:
            lines.append("do %s <- zset %s %s %s ;;" % (mangle(name), cur, idx[-1], x))
            return lines
        v = self.fresh()
        lines.append("do %s <- zset %s %s %s ;;" % (v, cur, idx[-1], x))
        for k in range(len(rows) - 1, -1, -1):
            outer, i = rows[k]
            if k == 0:
                lines.append("do %s <- zset %s %s %s ;;" % (mangle(name), outer, i, v))
            else:
                v2 = self.fresh()
                lines.append("do %s <- zset %s %s %s ;;" % (v2, outer, i, v))
                v = v2
        return lines

    def s_AugAssign(self, s, rest, env, ctx, ind):
        load = ast.copy_location(ast.BinOp(left=to_load(s.target), op=s.op, right=s.value), s)
        ast.fix_missing_locations(load)
        if isinstance(s.target, ast.Name):
            t0 = resolve(env.get(s.target.id, None)) if s.target.id in env else None
            if isinstance(t0, tuple) and t0[0] == "list":
                if self.pure_lists:
                    fail(s, "in-place list extension in a function whose lists may be aliased")
                self.check_mutable(s.target.id, env, s)      # `a += b` extends the list object in place
        b, x, t = self.expr(load, env)
        return self.assign_to(s.target, b, x, t, load, s, rest, env, ctx, ind)

    def s_Return(self, s, rest, env, ctx, ind):
        if rest:
            fail(s, "code after return")
        if s.value is None:
            fail(s, "return without a value")
        v = s.value
        if isinstance(v, ast.BoolOp) and isinstance(v.op, ast.Or) and len(v.values) == 2 and isinstance(v.values[1], ast.Name) \
                and isinstance(v.values[0], ast.Call) and isinstance(v.values[0].func, ast.Attribute) \
                and v.values[0].func.attr == "extend" and isinstance(v.values[0].func.value, ast.Name) \
                and v.values[0].func.value.id == v.values[1].id and len(v.values[0].args) == 1 and not v.values[0].keywords \
                and isinstance(v.values[0].args[0], (ast.GeneratorExp, ast.ListComp)):
            # return X.extend(e for ...) or X : extend returns None, so the value is X after the extension
            name = v.values[1].id
            self.check_mutable(name, env, s)
            g = v.values[0].args[0]
            comp = ast.copy_location(ast.ListComp(elt=g.elt, generators=g.generators), g)
            bg, xg, tg = self.expr(comp, env)
            t = unify(env[name], tg, s)
            unify(t, ctx.rtype, s)
            return self.emit(bg, ind) + [ind + ctx.ret("(%s ++ %s)" % (mangle(name), xg))]
        rt0 = resolve(ctx.rtype)
        if isinstance(v, ast.Name) and v.id in env and isinstance(env[v.id], tuple) and env[v.id][0] == "building":
            _, rec, vals = env[v.id]
            fields = self.obj_fields(rec, s)
            got = dict(vals)
            for a_ in fields:
                if a_ not in got:
                    fail(s, "the attribute %s of the returned object is never assigned" % a_)
            unify(("obj", rec), ctx.rtype, s)
            return [ind + ctx.ret("(mk_%s %s)" % (rec, " ".join(got[a_] for a_ in fields)))]
        if isinstance(v, ast.List) and isinstance(rt0, tuple) and rt0[0] == "tuple" and len(v.elts) == len(rt0[1]) >= 2:
            # return [a, b] where SPEC gives a tuple type: a fixed-length list of values of different types (callers index or
            # unpack it) is the tuple of the same elements
            v = ast.copy_location(ast.Tuple(elts=v.elts, ctx=ast.Load()), v)
        b, x, t = self.expr(v, env)
        rt = resolve(ctx.rtype)
        if rt == "float" and resolve(t) == "int":
            x = self.coerce_float(x, t, s)
        else:
            unify(t, ctx.rtype, s)
        return self.emit(b, ind) + [ind + ctx.ret(x)]

    def s_Raise(self, s, rest, env, ctx, ind):
        if rest:
            fail(s, "code after raise")
        e = s.exc
        if e is None:
            if getattr(self, "handler_exc", None) is None:
                fail(s, "bare raise outside a handler")
            return [ind + "GErr %s" % self.handler_exc]
        if isinstance(e, ast.Call):
            e = e.func
        if isinstance(e, ast.Name) and e.id in EXC and e.id not in env:
            return [ind + "GErr %s" % EXC[e.id]]
        fail(s, "raise of an unknown exception")

    def s_FunctionDef(self, s, rest, env, ctx, ind):
        """a nested function: a local Gallina function  let f := (fun args => body) in ...  SPEC gives its types under
        "locals".  It may read (not assign, not update in place) the variables of the enclosing function that are bound at
        the def; Python looks such a variable up when the function is CALLED, so it must not be assigned afterwards."""
        lspec = self.spec.get("locals", {}).get(s.name)
        if lspec is None:
            fail(s, "the nested function %s is not in the spec (locals)" % s.name)
        if s not in self.fdef.body:
            fail(s, "a nested function must be defined at the top level of the function body")
        if s.name in env or s.name in self.local_fns:
            fail(s, "the nested function %s redefines a name" % s.name)
        sub = FunTrans(self.m, dict(lspec, name=s.name), s)
        sub.counter, sub.local_fns, sub.outer_names = self.counter, self.local_fns, tuple(env)
        sub.alias_ok = sub.alias_ok or self.alias_ok
        lines, ftype, pnames = sub.translate_nested(env, ind)
        self.counter = sub.counter
        loaded = set(n.id for n in ast.walk(s) if isinstance(n, ast.Name))
        later = set(assigned_names(rest))
        for n in sorted(loaded & set(env)):
            if n in later and n not in pnames:
                fail(s, "the variable %s used by the nested function %s is assigned after the def" % (n, s.name))
        if s.name in later:
            fail(s, "the nested function %s is reassigned" % s.name)
        env = dict(env)
        env[s.name] = ftype
        self.local_fns[s.name] = {"owned": list(lspec.get("owned", [])), "params": pnames}
        return lines + self.block(rest, env, ctx, ind)

    def translate_nested(self, outer_env, ind):
        f, sp = self.fdef, self.spec
        a = f.args
        if a.vararg or a.kwonlyargs or getattr(a, "posonlyargs", []) or a.kwarg or a.defaults or f.decorator_list:
            fail(f, "nested function: unsupported argument kinds / decorators")
        names = [x.arg for x in a.args]
        if names != list(sp["params"].keys()):
            fail(f, "parameters %s differ from the spec %s" % (names, list(sp["params"].keys())))
        self.params = [(n, parse_type(sp["params"][n])) for n in names]
        self.rtype = parse_type(sp["returns"])
        self.kwname, self.kwdefaults, self.defaults = None, {}, {}
        for n in sp.get("owned", []):
            if n not in names:
                fail(f, "owned parameter %s is not a parameter" % n)
        local = [n for n in assigned_names(f.body) if n not in names]
        for n in local:
            if n in outer_env:
                fail(f, "the nested function assigns %s, a variable of the enclosing function" % n)
        if contains(f.body, (ast.FunctionDef, ast.Nonlocal, ast.Global)):
            fail(f, "nested function: def / nonlocal / global inside")
        env = dict(outer_env)
        for n, t in self.params:
            env[n] = t
        # an owned parameter is an object nobody but this call can see: updating it in place is a local effect
        self.rebound = frozenset(sp.get("owned", []))
        self.handler_exc = None
        ctx = Ctx(lambda x: "GOk %s" % x,
                  lambda env2, ind2: fail(f, "the function can fall off its end (returns None)"), self.rtype)
        body = self.block(f.body, env, ctx, ind + "  ")
        if len(self.fuels_used) != len(self.fuels):
            fail(f, "unused fuel expressions in the spec")
        args = " ".join("(%s : %s)" % (mangle(n), coq_type(t)) for n, t in self.params)
        body[-1] = body[-1] + ") in"
        ftype = ("fn", tuple(t for _, t in self.params), self.rtype)
        return [ind + "let %s := (fun %s =>" % (mangle(f.name), args)] + body, ftype, names

    def s_Pass(self, s, rest, env, ctx, ind):
        return self.block(rest, env, ctx, ind)

    # ---- if
    def static_isinstance(self, test, env):
        """isinstance(e, float|int|list) -> (binds of e, truth value) decided by the spec types, else None"""
        if isinstance(test, ast.UnaryOp) and isinstance(test.op, ast.Not):
            st = self.static_isinstance(test.operand, env)
            return None if st is None else (st[0], not st[1])
        if isinstance(test, ast.Call) and isinstance(test.func, ast.Name) and test.func.id == "isinstance" \
                and "isinstance" not in env and len(test.args) == 2 and not test.keywords:
            cls = test.args[1]
            names = [cls] if isinstance(cls, ast.Name) else list(cls.elts) if isinstance(cls, ast.Tuple) else None
            if names is None or not all(isinstance(c, ast.Name) and c.id in ("float", "int", "list", "tuple") and c.id not in env
                                        for c in names):
                return None
            b, x, t = self.expr(test.args[0], env)
            t = resolve(t)
            if isinstance(t, TVar):
                fail(test, "isinstance on a value of unknown type")
            kind = "list" if isinstance(t, tuple) and t[0] == "list" else t
            if kind not in ("float", "int", "list"):
                fail(test, "isinstance on a %s" % show_type(t))
            # a Python list or tuple of the caller is a `list` here
            return b, any(kind == c.id or (kind == "list" and c.id == "tuple") for c in names)
        return None

    def s_If(self, s, rest, env, ctx, ind):
        st = self.static_isinstance(s.test, env)
        if st is not None:
            # the operand is evaluated (it may raise), the test itself is decided by the types of the spec
            b, truth = st
            live = s.body if truth else s.orelse
            return self.emit(b, ind) + self.block(list(live) + list(rest), env, ctx, ind)
        sn = self.static_none_test(s.test, env)
        if sn is not None:
            # this variant is the call with None for that parameter: only one branch exists
            live = s.body if sn else s.orelse
            if always_terminates(live):
                return self.block(list(live), env, ctx, ind)
            return self.block(list(live) + list(rest), env, ctx, ind)
        if isinstance(s.test, ast.Name) and s.test.id in self.static_vals and s.test.id not in env:
            # this variant of the function is specialised to the value of the parameter: only one branch exists
            live = s.body if self.static_vals[s.test.id] else s.orelse
            if always_terminates(live):
                return self.block(list(live), env, ctx, ind)       # what follows the if is unreachable in this variant
            return self.block(list(live) + list(rest), env, ctx, ind)
        if isinstance(s.test, ast.Name) and s.test.id in self.static_locals and s.test.id in env:
            # the flag certainly holds this literal here: only one branch can run (the branches may not even have the
            # same types: knot_removal's is_volume)
            live = s.body if self.static_locals[s.test.id] else s.orelse
            if always_terminates(live):
                return self.block(list(live), env, ctx, ind)
            return self.block(list(live) + list(rest), env, ctx, ind)
        opt = self.optfloat_test(s.test, env)
        if opt is not None:
            # `if x is not None:` / `if x is None:` on a None-or-float value: a match; x is a float in the branch where it is not None
            name, positive = opt
            bc, c, out = [], None, []
        else:
            bc, c, tc = self.expr(s.test, env)
            c = self.truth(c, tc, s)          # `if n:` on an int is `n != 0`
            out = self.emit(bc, ind)
        tb, te = always_terminates(s.body), always_terminates(s.orelse)
        # `if name < c: return / raise` at the top level of the function: name >= c from here on
        t_ = s.test
        newfact = None
        if s in self.fdef.body and always_terminates(s.body) and not s.orelse and isinstance(t_, ast.Compare) and len(t_.ops) == 1 \
                and isinstance(t_.ops[0], ast.Lt) and isinstance(t_.left, ast.Name) and isinstance(t_.comparators[0], ast.Constant) \
                and type(t_.comparators[0].value) is int and resolve(env.get(t_.left.id)) == "int":
            newfact = (t_.left.id, t_.comparators[0].value)
        # what a branch assigns is no longer a known constant afterwards
        for n in assigned_names(list(s.body) + list(s.orelse)):
            self.static_locals.pop(n, None)
        self.dyn_depth += 1
        try:
            if opt is not None:
                envf = dict(env); envf[name] = "float"
                n_ = mangle(name)
                some, none = ind + "| Some %s =>" % n_, ind + "| None =>"
                shape = ([ind + "match %s with" % n_, some if positive else none], [none if positive else some], [ind + "end"],
                         "match %s with" % n_, "end)", envf if positive else env, env if positive else envf)
            else:
                shape = ([ind + "if %s then" % c], [ind + "else"], [], "if %s then" % c, ")", env, env)
            return self.s_If_dynamic(s, rest, env, ctx, ind, out, shape, tb, te, newfact)
        finally:
            self.dyn_depth -= 1

    def optfloat_test(self, test, env):
        """`x is not None` / `x is None` for a variable x that holds None or a float -> (x, is-not-None?) else None"""
        if isinstance(test, ast.Compare) and len(test.ops) == 1 and isinstance(test.ops[0], (ast.Is, ast.IsNot)) \
                and isinstance(test.comparators[0], ast.Constant) and test.comparators[0].value is None \
                and isinstance(test.left, ast.Name) and test.left.id in env and resolve(env[test.left.id]) == "optfloat":
            return test.left.id, isinstance(test.ops[0], ast.IsNot)
        return None

    def s_If_dynamic(self, s, rest, env, ctx, ind, out, shape, tb, te, newfact):
        # shape: the lines that open the construct / separate the branches / close it, its opening and closing inside
        # `do pat <- (...) ;;`, and the environments of the two branches (a match on a None-or-float variable rebinds it)
        head, mid, tail, jopen, jclose, env_t, env_e = shape
        dead = Ctx(ctx.ret, lambda env2, ind2: fail(s, "internal: fall-through of a terminating block"), ctx.rtype)
        if tb and te:
            if rest:
                fail(s, "code after an if whose branches both return")
            return out + head + self.block(s.body, env_t, dead, ind + "  ") + \
                mid + self.block(s.orelse, env_e, dead, ind + "  ") + tail
        if tb:
            thenb = self.block(s.body, env_t, dead, ind + "  ")
            if newfact is not None:
                self.facts[newfact[0]] = newfact[1]
                self.dyn_depth -= 1         # the rest of the function continues in the else branch, on every execution
                try:
                    elseb = self.block(list(s.orelse) + list(rest), env_e, ctx, ind + "  ")
                finally:
                    self.dyn_depth += 1
            else:
                elseb = self.block(list(s.orelse) + list(rest), env_e, ctx, ind + "  ")
            return out + head + thenb + mid + elseb + tail
        if te:
            return out + head + self.block(list(s.body) + list(rest), env_t, ctx, ind + "  ") + \
                mid + self.block(s.orelse, env_e, dead, ind + "  ") + tail
        if contains(s.body + s.orelse, (ast.Return,)):
            # a branch that returns on some paths only: what follows the if is the continuation of BOTH branches
            # (`if c: B` ; R  is  `if c: B ; R  else: R`)
            return out + head + self.block(list(s.body) + list(rest), env_t, ctx, ind + "  ") + \
                mid + self.block(list(s.orelse) + list(rest), env_e, ctx, ind + "  ") + tail
        # join: the variables assigned in a branch that are bound afterwards on both paths
        names = assigned_names(s.body + s.orelse)
        ends = []

        def probe(env2, ind2):
            ends.append(env2)
            return []
        save, saver = self.counter, self.rebound
        pctx = Ctx(ctx.ret, probe, ctx.rtype)
        self.block(s.body, env_t, pctx, ""); self.block(s.orelse, env_e, pctx, "")
        self.counter, self.rebound = save, saver
        e1, e2 = ends
        jn = [n for n in names if n in e1 and n in e2]
        jt = {}
        for n in jn:
            jt[n] = unify(e1[n], e2[n], s)
        tup, pat = self.pat(jn)
        jctx = Ctx(ctx.ret, lambda env2, ind2: [ind2 + "GOk %s" % tup], ctx.rtype)
        body = self.block(s.body, env_t, jctx, ind + "  ")
        orelse = self.block(s.orelse, env_e, jctx, ind + "  ")
        env = dict(env)
        for n in jn:
            env[n] = jt[n]
        self.rebound = self.rebound | set(jn)
        if tail:
            out += [ind + "do %s <- (%s" % (pat, jopen)] + head[1:] + body + mid + orelse + [ind + jclose + " ;;"]
        else:
            out += [ind + "do %s <- (%s" % (pat, jopen)] + body + mid + close(orelse, jclose + " ;;")
        return out + self.block(rest, env, ctx, ind)

    # ---- loops
    def loop_state(self, body, env, extra=()):
        return [n for n in assigned_names(body) if n in env and n not in extra]

    def s_For(self, s, rest, env, ctx, ind):
        if s.orelse:
            fail(s, "for ... else")
        if contains(s.body, (ast.Break, ast.Continue)):
            fail(s, "break / continue")
        b, src, et = self.iter_source(s.iter, env)
        tnames = [n.id for n in ast.walk(s.target) if isinstance(n, ast.Name)]
        assigned = assigned_names(s.body)
        for n in tnames:
            if n in assigned:
                fail(s, "the loop variable %s is assigned in the loop body" % n)
        # a loop variable that shadows a bound variable: range(...) is evaluated first (with the old value); after the
        # loop the variable counts as unbound (Python: last element, or the old value for an empty range)
        shadowed = [n for n in tnames if n in env and n != "_"]
        is_range = isinstance(s.iter, ast.Call) and isinstance(s.iter.func, ast.Name) and s.iter.func.id == "range"
        for n in ast.walk(s.iter):
            if isinstance(n, ast.Name) and n.id in assigned and not is_range:
                if not self.writes_only_current(s, n.id):
                    fail(s, "the iterated list is modified in the loop body")
        env0 = dict((k, v) for k, v in env.items() if k not in shadowed)
        pat, env2 = self.bind_target(s.target, et, env0)
        state = self.loop_state(s.body, env0)
        # `for t in range(a, n)` with a literal a and n >= a + 1 known (after `if n < c: return`): the range is not empty, so
        # after the loop t is its last element n - 1; made explicit as the assignment t = n - 1 in front of what follows
        if is_range and isinstance(s.target, ast.Name) and rest and not contains(s.body, (ast.Return,)):
            a_ = s.iter.args
            lo = 0 if len(a_) == 1 else a_[0].value if (len(a_) == 2 and isinstance(a_[0], ast.Constant)
                                                        and type(a_[0].value) is int) else None
            hi = a_[-1] if len(a_) <= 2 else None
            used_after = reads_before_bound(rest, s.target.id)
            if used_after and lo is not None and isinstance(hi, ast.Name) and hi.id not in assigned \
                    and self.facts.get(hi.id) is not None and self.facts[hi.id] >= lo + 1 and s.target.id not in shadowed:
                last = ast.parse("%s = %s - 1" % (s.target.id, hi.id)).body[0]
                rest = [ast.copy_location(last, s)] + list(rest)
                ast.fix_missing_locations(rest[0])
            elif used_after and lo is not None and hi is not None and s.target.id not in shadowed \
                    and self.spec.get("loop_var_after_loop") == "checked" \
                    and not any(isinstance(n, ast.Name) and n.id in assigned for n in ast.walk(hi)):
                # no such fact: decided at run time.  After a non-empty range the variable is the last element; after an
                # empty one Python uses an earlier binding of the name (possibly from a previous pass of an enclosing loop) or
                # raises UnboundLocalError - neither is modelled: the generated code GIVES UP there (GErr OutOfFuel, the
                # one outcome no handler sees); the tie theorems assume the range is not empty
                last = ast.parse("%s = __range_last__(%d, %s)" % (s.target.id, lo, ast.unparse(hi))).body[0]
                rest = [ast.copy_location(last, s)] + list(rest)
                ast.fix_missing_locations(rest[0])
        return self.emit(b, ind) + self.loop(s, "gfor", "gfor_ret", "%s (fun %s %%s =>" % (src, pat), state, env0, env2, rest, ctx, ind)

    def writes_only_current(self, s, name):
        """for i, x in enumerate(L) / enumerate(zip(A, L)) whose body changes L only by `L[i] = e` / `L[i] op= e`:
        the lazy iteration of Python reads element k (and the length) before body k runs, and the bodies 0..k-1 wrote
        the elements 0..k-1 only, so iterating over the value L had before the loop gives the same elements"""
        it = s.iter
        if not (isinstance(it, ast.Call) and isinstance(it.func, ast.Name) and it.func.id == "enumerate"
                and len(it.args) == 1 and not it.keywords):
            return False
        inner = it.args[0]
        srcs = inner.args if (isinstance(inner, ast.Call) and isinstance(inner.func, ast.Name) and inner.func.id == "zip"
                              and not inner.keywords) else [inner]
        if not all(isinstance(a, ast.Name) for a in srcs):
            return False
        if not (isinstance(s.target, ast.Tuple) and len(s.target.elts) == 2 and isinstance(s.target.elts[0], ast.Name)):
            return False
        idx = s.target.elts[0].id
        for st in s.body:
            for n in ast.walk(st):
                if isinstance(n, (ast.For, ast.While, ast.Try, ast.Delete)):
                    return False
                if isinstance(n, ast.Call) and isinstance(n.func, ast.Attribute) and n.func.attr in MUTATORS:
                    return False
                tg = n.targets if isinstance(n, ast.Assign) else [n.target] if isinstance(n, ast.AugAssign) else []
                for t in tg:
                    for x in ast.walk(t):
                        if isinstance(x, ast.Name) and x.id == name and isinstance(x.ctx, ast.Store):
                            return False
                    if isinstance(t, (ast.Tuple, ast.List)):
                        return False
                    base = t
                    while isinstance(base, ast.Subscript):
                        base = base.value
                    if isinstance(base, ast.Name) and base.id == name:
                        if not (isinstance(t, ast.Subscript) and isinstance(t.value, ast.Name)
                                and isinstance(t.slice, ast.Name) and t.slice.id == idx):
                            return False
        return True

    def s_While(self, s, rest, env, ctx, ind):
        if s.orelse:
            fail(s, "while ... else")
        if contains(s.body, (ast.Break, ast.Continue)):
            fail(s, "break / continue")
        # the i-th fuel expression of the spec belongs to the i-th while statement of the function, in source order (a
        # statement may be translated several times: branches are probed for the variables they bind)
        whiles = sorted((n for n in ast.walk(self.fdef) if isinstance(n, ast.While)), key=lambda n: (n.lineno, n.col_offset))
        k = [id(n) for n in whiles].index(id(s))
        if k >= len(self.fuels):
            fail(s, "no fuel expression in the spec for this while loop")
        self.fuels_used.add(k)
        fuel = ast.parse(self.fuels[k], mode="eval").body
        fenv = dict(env)
        for n in self.fuel_params:
            fenv[n] = "int"
        bf, fx, ft = self.expr(fuel, fenv)
        if bf or resolve(ft) != "int":
            fail(s, "fuel must be a pure int expression")
        state = self.loop_state(s.body, env)
        tup, pat = self.pat(state)
        bc, c, tc = self.expr(s.test, env)
        if resolve(tc) != "bool":
            fail(s, "condition is not a bool")
        cond = "(fun %s => %s GOk %s)" % (pat, " ".join(bc), c) if bc else "(fun %s => GOk %s)" % (pat, c)
        head = "(Z.to_nat %s) %s (fun %%s =>" % (fx, cond)
        return self.loop(s, "gwhile", "gwhile_ret", head, state, env, env, rest, ctx, ind)

    def loop(self, s, comb, comb_ret, head, state, env, env_body, rest, ctx, ind):
        tup, pat = self.pat(state)
        has_ret = contains(s.body, (ast.Return,))

        def fall(env2, ind2):
            for n in state:
                if n not in env2:
                    fail(s, "the loop-carried variable %s may be unbound at the end of the body" % n)
                unify(env2[n], env[n], s)       # the type of a loop-carried variable must not change
            return [ind2 + ("GOk (GCont %s)" % tup if has_ret else "GOk %s" % tup)]
        saver = self.rebound
        self.rebound = self.rebound | set(state)
        if has_ret:
            bctx = Ctx(lambda x: "GOk (GRet %s)" % x, fall, ctx.rtype)
        else:
            bctx = Ctx(None, fall, ctx.rtype)
        for n in assigned_names(s.body):          # not constants inside (or after) the loop
            self.static_locals.pop(n, None); self.facts.pop(n, None)
        self.dyn_depth += 1
        try:
            body = self.block(s.body, env_body, bctx, ind + "  ")
        finally:
            self.dyn_depth -= 1
        self.rebound = saver | set(state)
        head = head % pat
        if not has_ret:
            out = [ind + "do %s <- %s %s" % (pat, comb, head)] + close(body, ") %s ;;" % tup)
            return out + self.block(rest, env, ctx, ind)
        v = self.fresh()
        out = [ind + "do %s <- %s %s" % (v, comb_ret, head)] + close(body, ") %s ;;" % tup)
        out += [ind + "match %s with" % v, ind + "| GRet %s => %s" % (v, ctx.ret(v)), ind + "| GCont %s =>" % pat.lstrip("'")]
        out += self.block(rest, env, ctx, ind + "  ")
        return close(out, "", "end")

    # ---- try
    def handler_kinds(self, h, s):
        if isinstance(h.type, ast.Name) and h.type.id in EXC:
            return [EXC[h.type.id]]
        if h.type is None or (isinstance(h.type, ast.Name) and h.type.id == "Exception"):
            return None
        fail(s, "exception class not understood")

    def s_Try(self, s, rest, env, ctx, ind):
        if s.orelse or s.finalbody:
            fail(s, "try ... else / finally")
        for n in assigned_names(list(s.body) + [st for h in s.handlers for st in h.body]):
            self.static_locals.pop(n, None); self.facts.pop(n, None)
        if not assigned_names(s.body) and not contains(s.body, (ast.Return,)):
            return self.s_Try_unit(s, rest, env, ctx, ind)
        # a body that assigns: the handlers see the state before the try, which is only right if the body is one simple
        # statement (nothing is stored when its evaluation raises) or assigns fresh variables only
        if contains(s.body, (ast.Return,)) or any(contains(h.body, (ast.Return,)) for h in s.handlers):
            fail(s, "return inside try")
        single = len(s.body) == 1 and isinstance(s.body[0], (ast.Assign, ast.AugAssign))
        if not single:
            for n in assigned_names(s.body):
                if n in env:
                    fail(s, "try body updates the variable %s that is bound before the try" % n)
        kinds = [self.handler_kinds(h, s) for h in s.handlers]
        catches_zero = any(k is None or "ZeroDivisionError" in k for k in kinds)
        # which exceptions can the body raise?  (probe translation)
        ends = []

        def probe(env2, ind2):
            ends.append(env2)
            return []
        save, saver, savec = self.counter, self.rebound, self.callee_raises
        self.callee_raises = set()
        self.catching_zero_div += 1 if catches_zero else 0
        ptext = self.block(s.body, env, Ctx(None, probe, ctx.rtype), "")
        self.catching_zero_div -= 1 if catches_zero else 0
        can_raise = raises_of_text(ptext) | self.callee_raises
        self.counter, self.rebound, self.callee_raises = save, saver, savec | self.callee_raises
        live = []
        seen = set()
        for h, k in zip(s.handlers, kinds):
            ks = [x for x in (sorted(set(EXC.values())) if k is None else k) if x not in seen]
            seen |= set(ks)
            ks = [x for x in ks if x in can_raise]
            if ks:
                live.append((h, ks))
        if not live:
            # no handler can ever run for the argument types of the spec: the try is transparent
            return [ind + "(* try: the handlers are unreachable for the argument types of the spec *)"] + \
                self.block(list(s.body) + list(rest), env, ctx, ind)
        names = assigned_names(list(s.body) + [st for h, _ in live for st in h.body])
        envs = [ends[0]]
        for h, ks in live:
            ends2 = []
            save, saver = self.counter, self.rebound
            self.handler_exc = ks[0]
            self.block(h.body, env, Ctx(None, lambda e2, i2: (ends2.append(e2), [])[1], ctx.rtype), "")
            self.handler_exc = None
            self.counter, self.rebound = save, saver
            if ends2:
                envs.append(ends2[0])
        jn = [n for n in names if all(n in e for e in envs)]
        jt = {}
        for n in jn:
            t = envs[0][n]
            for e in envs[1:]:
                t = unify(t, e[n], s)
            jt[n] = t
        tup, pat = self.pat(jn)
        jctx = Ctx(None, lambda env2, ind2: [ind2 + "GOk %s" % tup], ctx.rtype)
        self.catching_zero_div += 1 if catches_zero else 0
        body = self.block(s.body, env, jctx, ind + "    ")
        self.catching_zero_div -= 1 if catches_zero else 0
        out = [ind + "do %s <- gtry (" % pat] + close(body, ")")
        e = self.fresh()
        out += [ind + "  (fun %s => match %s with" % (e, e)]
        for h, ks in live:
            for x in ks:
                self.handler_exc = x
                hb = self.block(h.body, env, jctx, ind + "      ")
                self.handler_exc = None
                out += [ind + "    | %s =>" % x] + hb
        out += [ind + "    | %s => GErr %s" % (e, e), ind + "    end) ;;"]
        env = dict(env)
        for n in jn:
            env[n] = jt[n]
        self.rebound = self.rebound | set(jn)
        return out + self.block(rest, env, ctx, ind)

    # try with a body without assignments / returns, handlers that re-raise
    def s_Try_unit(self, s, rest, env, ctx, ind):
        if s.orelse or s.finalbody:
            fail(s, "try ... else / finally")
        if assigned_names(s.body) or contains(s.body, (ast.Return,)):
            fail(s, "try body with assignments or return")
        unit_ctx = Ctx(None, lambda env2, ind2: [ind2 + "GOk tt"], ctx.rtype)
        body = self.block(s.body, env, unit_ctx, ind + "    ")
        out = [ind + "do _ <- gtry ("] + close(body, ")")
        e = self.fresh()
        out += [ind + "  (fun %s => match %s with" % (e, e)]
        seen = set()
        catch_all = False
        for h in s.handlers:
            if catch_all:
                fail(s, "handler after a catch-all")
            if assigned_names(h.body) or contains(h.body, (ast.Return,)):
                fail(s, "handler with assignments or return")
            if not always_terminates(h.body):
                fail(s, "handler that does not raise")
            if isinstance(h.type, ast.Name) and h.type.id in EXC:
                excs = [EXC[h.type.id]]
            elif h.type is None or (isinstance(h.type, ast.Name) and h.type.id == "Exception"):
                excs = None
            else:
                fail(s, "exception class not understood")
            if excs is None:
                catch_all = True
                if len(h.body) == 1 and isinstance(h.body[0], ast.Raise) and h.body[0].exc is None:
                    continue        # `except Exception: raise` : covered by the default case below
                left = [x for x in sorted(set(EXC.values())) if x not in seen]
            else:
                left = [x for x in excs if x not in seen]
            for x in left:
                seen.add(x)
                self.handler_exc = x
                hb = self.block([st for st in h.body], env, unit_ctx, ind + "      ")
                self.handler_exc = None
                out += [ind + "    | %s =>" % x] + hb
        out += [ind + "    | %s => GErr %s" % (e, e), ind + "    end) ;;"]
        return out + self.block(rest, env, ctx, ind)

    # ------------------------------------------------------------------------------------------- whole function
    def translate(self):
        self.signature()
        env = {}
        for n, t in self.params:
            env[n] = t
        # the names of the records of the dict types (and of the self attributes) may not be used as variables
        taken = set()
        for dname, fields in list(self.m.spec.get("dicts", {}).items()) + list(self.m.spec.get("objects", {}).items()):
            taken |= set([dname, "mk_" + dname] + ["%s_%s" % (dname, k) for k in fields])
        used = set(n.id for n in ast.walk(self.fdef) if isinstance(n, ast.Name)) | set(a.arg for a in ast.walk(self.fdef) if isinstance(a, ast.arg))
        if taken & used:
            fail(self.fdef, "the variable %s has the name of a record of the spec" % sorted(taken & used)[0])
        self.rebound = frozenset()
        self.handler_exc = None
        rt = self.rtype
        ctx = Ctx(lambda x: "GOk %s" % x,
                  lambda env2, ind2: fail(self.fdef, "the function can fall off its end (returns None)"), rt)
        body = self.block(self.fdef.body, env, ctx, "  ")
        if len(self.fuels_used) != len(self.fuels):
            fail(self.fdef, "unused fuel expressions in the spec")
        for k in self.kwparams:
            if k not in self.kwdefaults:
                fail(self.fdef, "keyword argument %s of the spec is never read" % k)
        coqname = self.spec["name"].replace(".", "_")        # Class.method -> Class_method
        for k in sorted(self.spec.get("static_kwargs", {})):
            if k not in getattr(self, "static_kw_read", set()):
                fail(self.fdef, "static keyword %s of the spec is never read" % k)
            coqname += "__%s_%s" % (k, str(self.spec["static_kwargs"][k]).lower())
        kworder = sorted(self.kwparams)
        lines = []
        for k in kworder:
            if self.kwdefaults[k] is not None:
                lines.append("Definition %s__default_%s {T : Type} (K : ops T) : %s := %s." %
                             (coqname, k, coq_type(self.kwparams[k]), self.kwdefaults[k]))
        args = " ".join("(%s : %s)" % (mangle(n), coq_type(t)) for n, t in self.params)
        if self.selfattrs:
            args = " ".join(["(self_%s : %s)" % (a_, coq_type(t)) for a_, t in self.selfattrs] + [args])
        kargs = "".join(" (kw_%s : %s)" % (k, coq_type(self.kwparams[k])) for k in kworder)
        if self.spec.get("infinity_params", False):
            kargs += " (py_inf : T) (py_ninf : T)"
        for n in self.fuel_params:
            kargs += " (%s : Z)" % n
        abstract = []
        for cname in sorted(self.spec.get("abstract_calls", {})):
            a_ = self.spec["abstract_calls"][cname]
            if cname not in self.abstract_used:
                fail(self.fdef, "the abstract callee %s of the spec is never called" % cname)
            kargs += " (%s : %s)" % (a_["param"], coq_type(parse_type(a_["type"])))
            abstract.append(a_["param"])
        lines.append("Definition %s {T : Type} (K : ops T) %s%s : gres %s :=" % (coqname, args, kargs, paren_type(rt)))
        body[-1] = body[-1] + "."
        lines += body
        defaults = {}
        for n, d in self.defaults.items():
            b, x, t = self.expr(d, {})
            if b:
                fail(d, "default value must be a literal")
            t0 = resolve(dict(self.params)[n])
            if t0 == "float" and resolve(t) == "int":
                x = self.coerce_float(x, t, d)
            else:
                unify(t, t0, d)
            defaults[n] = x
        info = {"coqname": coqname, "params": self.params, "kwparams": self.kwparams, "kworder": kworder,
                "raises": sorted(raises_of_text(body) | self.callee_raises),
                "kwnodefault": [k for k in kworder if self.kwdefaults[k] is None],
                "defaults": defaults, "rtype": rt, "all_params": self.all_params, "static_defaults": self.static_defaults,
                "abstract": abstract, "selfattrs": list(self.selfattrs),
                "vararg": bool(self.fdef.args.vararg), "fuel_params": list(self.fuel_params),
                "abstract_cnames": sorted(self.spec.get("abstract_calls", {})),
                "abstract_spec": dict(self.spec.get("abstract_calls", {})),
                "infinity": bool(self.spec.get("infinity_params", False)),
                "fntype": ("fn", tuple(t for _, t in self.params) + tuple(self.kwparams[k] for k in kworder), rt)}
        return "\n".join(lines), info


def raises_of_text(lines):
    """the exception kinds a generated block can raise by itself (calls are accounted for separately)"""
    txt = "\n".join(lines)
    out = set()
    if "znth " in txt or "zset " in txt or "zpop " in txt:
        out.add("IndexError")
    if "zfact_chk " in txt:
        out.add("ValueError")
    if "py_unopt " in txt:
        out.add("TypeError")
    if "zdiv_chk " in txt or "odiv_chk " in txt:
        out.add("ZeroDivisionError")
    for k in set(EXC.values()):
        if "GErr %s" % k in txt:
            out.add(k)
    return out


def zlit(n):
    return str(n) if n >= 0 else "(%d)" % n


def to_load(t):
    t2 = ast.parse(ast.unparse(t), mode="eval").body
    return ast.copy_location(t2, t)


def close(lines, suffix, newline=None):
    lines = list(lines)
    if newline is not None:
        ind = len(lines[0]) - len(lines[0].lstrip())
        lines.append(" " * ind + newline)
    else:
        lines[-1] = lines[-1] + suffix
    return lines


PRIMITIVES = ("len", "abs", "float", "int", "round", "min", "max", "list", "tuple", "deepcopy", "sum", "bool", "sorted", "reduce", "__range_last__",
              "all", "any")


# ----------------------------------------------------------------------------------------------- modules
class ModTrans(object):
    def __init__(self, world, mname, mspec, tree):
        self.world, self.name, self.spec = world, mname, mspec
        self.pymodule = mspec.get("pymodule", mname)
        self.funcs = {}
        self.defs = {}
        for n in tree.body:
            if isinstance(n, ast.FunctionDef):
                if n.name in self.defs:
                    raise Untranslatable("function %s defined twice" % n.name)
                self.defs[n.name] = n
        # classes: their methods are addressed as Class.method
        self.classes = {}
        for n in tree.body:
            if isinstance(n, ast.ClassDef):
                if n.name in self.classes or n.name in self.defs:
                    raise Untranslatable("class %s defined twice" % n.name)
                self.classes[n.name] = n
                for st in n.body:
                    if isinstance(st, ast.FunctionDef):
                        key = "%s.%s" % (n.name, st.name)
                        if key in self.defs and not any(isinstance(d, ast.Attribute) and d.attr in ("setter", "deleter")
                                                        for d in st.decorator_list):
                            raise Untranslatable("method %s defined twice" % key)
                        self.defs[key] = st
        # names imported from other translated modules:  from .linalg import linspace / from . import linalg
        self.imported_funcs, self.imported_mods = {}, {}
        self.plain_imports = set()
        for n in tree.body:
            if isinstance(n, ast.Import):
                for a in n.names:
                    if a.asname is None:
                        self.plain_imports.add(a.name)
        for n in tree.body:
            if isinstance(n, ast.ImportFrom) and n.level == 1:
                for a in n.names:
                    if n.module is None:
                        self.imported_mods[a.asname or a.name] = a.name
                    else:
                        self.imported_funcs[a.asname or a.name] = (n.module, a.name)

    def lookup_function(self, name):
        if name in self.funcs:
            return self.funcs[name]
        if name in self.defs:
            # a function of the same Python file that an earlier spec module (another generated file) translated
            return self.world.lookup(self.pymodule, name, qualified=True, before=self.name)
        if name in self.imported_funcs:
            mod, fn = self.imported_funcs[name]
            return self.world.lookup(mod, fn, qualified=True)
        return None

    def plain_class(self, cname, node):
        """the ClassDef of a class whose body is only a docstring and methods (no class attributes, no nested classes), with
        exactly one base class given by name, no keywords (metaclass=...) and only identity decorators (@utl.export)"""
        c = self.classes.get(cname)
        if c is None:
            fail(node, "class %s is not defined in this module" % cname)
        for st in c.body:
            if not (isinstance(st, ast.FunctionDef) or is_docstring(st) or isinstance(st, ast.Pass)):
                fail(node, "class %s has something else than methods in its body" % cname)
        if c.keywords or len(c.bases) != 1 or not isinstance(c.bases[0], ast.Name):
            fail(node, "class %s: exactly one base class, given by name, is understood" % cname)
        for d in c.decorator_list:
            name = d.attr if isinstance(d, ast.Attribute) and isinstance(d.value, ast.Name) else d.id if isinstance(d, ast.Name) else None
            if name != "export":
                fail(node, "class %s has a decorator that is not understood" % cname)
        return c

    def super_owner(self, cname, meth, node):
        """the class whose definition of `meth` super(cname, self).meth refers to: the nearest proper ancestor that defines it"""
        c = self.plain_class(cname, node)
        for _ in range(len(self.classes) + 1):
            base = c.bases[0].id
            if base not in self.classes:
                fail(node, "the base class %s is not defined in this module" % base)
            if any(isinstance(st, ast.FunctionDef) and st.name == meth for st in self.classes[base].body):
                return base
            c = self.plain_class(base, node)
        fail(node, "cyclic class hierarchy")

    def lookup_module_function(self, mod, fn):
        if mod in self.imported_mods:
            return self.world.lookup(self.imported_mods[mod], fn, qualified=True)
        return None


class World(object):
    def __init__(self, order=()):
        self.mods = {}
        self.order = list(order)

    def lookup(self, mod, fn, qualified, before=None):
        """the translated function `fn` of the PYTHON module `mod` (one Python file may be split over several spec
        modules = generated files; they are searched in SPEC order, up to `before`)"""
        for key in self.order:
            if key == before:
                break
            m = self.mods.get(key)
            if m is None or m.pymodule != mod or fn not in m.funcs:
                continue
            info = dict(m.funcs[fn])
            if qualified:
                info["coqname"] = "%s.%s" % (m.spec["coq_module"], info["coqname"])
                if "variants" in info:
                    info["variants"] = dict((k, dict(v, coqname="%s.%s" % (m.spec["coq_module"], v["coqname"])))
                                            for k, v in info["variants"].items())
                if "tvariants" in info:
                    info["tvariants"] = [dict(v, coqname="%s.%s" % (m.spec["coq_module"], v["coqname"]))
                                         for v in info["tvariants"]]
            return info
        return None


HEADER = """(* GENERATED by harness/pytrans.py from %s - do not edit.
   Regenerate with  python harness/pytrans.py --repo /repo --write ; compare with --check. *)
From Coq Require Import List ZArith Bool.
From NV Require Import Scalar.Ops Gen.Prelude%s.
Import ListNotations.
Local Open Scope Z_scope.
"""


def translate_blocks(repo_root, spec):
    """-> {spec module: (coq module, python module, header, [(function, text or None, error or None)])}"""
    world = World(spec["order"])
    out = {}
    for mname in spec["order"]:
        mspec = spec["modules"][mname]
        path = os.path.join(repo_root, mspec["file"])
        blocks = []
        try:
            with open(path) as fh:
                tree = ast.parse(fh.read())
            mt = ModTrans(world, mname, mspec, tree)
            err = None
        except (OSError, SyntaxError, Untranslatable) as e:
            mt, err = None, "%s: %s" % (type(e).__name__, e)
        if mt is not None:
            world.mods[mname] = mt
        for fspec in mspec["functions"]:
            fname = fspec["name"]
            if mt is None:
                blocks.append((fname, None, err)); continue
            if fname not in mt.defs:
                blocks.append((fname, None, "function not found in %s" % mspec["file"])); continue
            try:
                if fspec.get("static"):
                    text, info = translate_variants(mt, fspec, mt.defs[fname])
                else:
                    text, info = FunTrans(mt, fspec, mt.defs[fname]).translate()
                    # "type_variants": the same Python function at other argument types (Python is untyped; each
                    # variant is its own generated function <name>__<suffix>, chosen at a call site by the argument types)
                    tv = []
                    for var in fspec.get("type_variants", []):
                        sub = dict(fspec, name=fspec["name"] + "__" + var["suffix"])
                        sub["params"] = dict(fspec["params"], **var.get("params", {}))
                        sub["returns"] = var.get("returns", fspec["returns"])
                        sub.pop("type_variants")
                        vtext, vinfo = FunTrans(mt, sub, mt.defs[fname]).translate()
                        text += "\n" + vtext
                        tv.append(vinfo)
                    if tv:
                        info["tvariants"] = tv
                    # "none_variants": the function called with None for some parameters (their default), as a further
                    # generated function <name>__<suffix> without those parameters
                    for var in fspec.get("none_variants", []):
                        sub = dict(fspec, name=fspec["name"] + "__" + var["suffix"], none_params=list(var["none"]))
                        sub["params"] = dict((k, v) for k, v in fspec["params"].items())
                        sub.pop("none_variants"); sub.pop("type_variants", None)
                        vtext, vinfo = FunTrans(mt, sub, mt.defs[fname]).translate()
                        text += "\n" + vtext
                mt.funcs[fname] = info
                blocks.append((fname, text, None))
            except Untranslatable as e:
                blocks.append((fname, None, str(e)))
            except RecursionError:
                blocks.append((fname, None, "recursion limit"))
        deps = "".join(" Gen.%s" % r for r in mspec.get("requires", []))
        deps += "".join(" Gen.%s" % spec["modules"][d]["coq_module"] for d in mspec.get("imports", []))
        out[mname] = (mspec["coq_module"], mspec.get("pymodule", mname), HEADER % (mspec["file"], deps) + records(mspec), blocks)
    return out


def records(mspec):
    """the dict types of SPEC ("dicts": name -> {key: type}) as Coq records (text that depends on SPEC only)"""
    out = []
    kinds = [(d, f, "dict type", "key") for d, f in mspec.get("dicts", {}).items()] + \
            [(d, f, "object type", "attribute the translated functions read or assign") for d, f in mspec.get("objects", {}).items()]
    for dname, fields, what, per in kinds:
        for k in fields:
            if not re.match(r"^[A-Za-z_][A-Za-z0-9_]*$", k):
                raise Untranslatable("dict key %r is not an identifier" % k)
        out.append("\n(* the %s `%s` of SPEC: a record with one field per %s *)" % (what, dname, per))
        out.append("Record %s (T : Type) : Type := mk_%s {" % (dname, dname))
        out.append(";\n".join("  %s_%s : %s" % (dname, k, coq_type(parse_type(t))) for k, t in fields.items()))
        out.append("}.")
        out.append("Arguments mk_%s {T}." % dname)
        out.append(" ".join("Arguments %s_%s {T}." % (dname, k) for k in fields))
    return "\n".join(out) + ("\n" if out else "")


def translate_variants(mt, fspec, fdef):
    """a function with "static" parameters (bool flags that change the SHAPE of the result, e.g. matrix_pivot's `sign`) is
    emitted once per value of the flags, as <name>__<flag>_<value>; a call site selects the variant by its literal argument"""
    import itertools
    statics = sorted(fspec["static"])
    texts, variants, master = [], {}, None
    for vals in itertools.product(*[fspec["static"][n] for n in statics]):
        suffix = "".join("__%s_%s" % (n, str(v).lower()) for n, v in zip(statics, vals))
        key = ",".join(repr(v) for v in vals)
        sub = dict(fspec, name=fspec["name"] + suffix, static_vals=dict(zip(statics, vals)))
        sub["returns"] = fspec["returns"][key] if isinstance(fspec["returns"], dict) else fspec["returns"]
        text, info = FunTrans(mt, sub, fdef).translate()
        texts.append(text); variants[tuple(vals)] = info; master = info
    info = dict(master)
    info.update({"static": statics, "variants": variants, "coqname": fspec["name"]})
    return "\n".join(texts), info


def render(mname, header, blocks):
    parts = [header]
    for fname, text, err in blocks:
        if text is None:
            raise Untranslatable("%s.%s: %s" % (mname, fname, err))
        parts.append("(* BEGIN %s.%s *)\n%s\n(* END %s.%s *)\n" % (mname, fname, text, mname, fname))
    return "\n".join(parts)


def translate(repo_root, spec=None):
    spec = spec or SPEC
    res = {}
    for mname, (coqmod, pymod, header, blocks) in translate_blocks(repo_root, spec).items():
        res[coqmod] = render(pymod, header, blocks)
    return res


def split_blocks(text):
    """{module.function: block text} of a generated file"""
    out, cur, buf = {}, None, []
    for line in text.splitlines():
        st = line.strip()
        if st.startswith("(* BEGIN ") and st.endswith(" *)"):
            cur, buf = st[len("(* BEGIN "):-3], []
        elif st.startswith("(* END ") and st.endswith(" *)"):
            if cur is not None:
                out[cur] = "\n".join(buf)
            cur = None
        elif cur is not None:
            buf.append(line.rstrip())
    return out


def check(repo_root, spec=None, gen_dir=GEN_DIR, out=sys.stdout):
    spec = spec or SPEC
    ok = True
    for _, (coqmod, mname, header, blocks) in translate_blocks(repo_root, spec).items():
        path = os.path.join(gen_dir, coqmod + ".v")
        try:
            with open(path) as fh:
                committed = split_blocks(fh.read())
        except OSError:
            committed = {}
        for fname, text, err in blocks:
            key = "%s.%s" % (mname, fname)
            if text is None:
                out.write("UNTRANSLATABLE %s: %s\n" % (key, err)); ok = False
            elif committed.get(key) == "\n".join(l.rstrip() for l in text.splitlines()):
                out.write("SAME %s\n" % key)
            else:
                out.write("DIFF %s\n" % key); ok = False
    return ok



# ----------------------------------------------------------------------------------------------- the spec (trusted)
FN_SPAN = "fn(int,list[float],int,float)->int"
MAT = "list[list[float]]"
# SplineGeometry.data as the evaluators read it (abstract.py); insertion order = field order of the record
GEOMDATA = {"rational": "bool", "dimension": "int", "pdimension": "int", "sample_size": "list[int]", "precision": "int",
            "degree": "list[int]", "knotvector": "list[list[float]]", "size": "list[int]", "control_points": MAT}
SPEC = {
    # One Python file may be split over several spec modules (= generated files): the files of the first round
    # (LinalgInternal, Linalg, Knotvector, Helpers) are never regenerated with a different text, so that everything
    # compiled against them stays valid; later additions live in their own generated files ("pymodule" = the Python module
    # the functions are reported under by --check).
    "order": ["_linalg", "linalg", "knotvector", "helpers", "linalg/geom", "_voxelize", "utilities", "linalg/mat", "helpers/b", "fitting",
              "helpers/c", "evaluators", "compatibility", "_operations", "utilities/b", "fitting/b", "linalg/b", "linalg/c", "_voxelize/b", "fitting/c"],
    "modules": {
        "_linalg": {"file": "geomdl/_linalg.py", "coq_module": "LinalgInternal", "imports": [], "functions": [
            {"name": "doolittle", "params": {"matrix_a": MAT}, "returns": "tuple[%s,%s]" % (MAT, MAT)},
        ]},
        "linalg": {"file": "geomdl/linalg.py", "coq_module": "Linalg", "imports": ["_linalg"], "functions": [
            {"name": "vector_cross", "params": {"vector1": "list[float]", "vector2": "list[float]"}, "returns": "list[float]"},
            {"name": "vector_dot", "params": {"vector1": "list[float]", "vector2": "list[float]"}, "returns": "float"},
            {"name": "vector_multiply", "params": {"vector_in": "list[float]", "scalar": "float"}, "returns": "list[float]"},
            {"name": "vector_sum", "params": {"vector1": "list[float]", "vector2": "list[float]", "coeff": "float"},
             "returns": "list[float]"},
            # alias_ok: m_t.append(temp) stores the list object `temp`; temp is rebound to a new list at the start of the
            # next iteration and the stored object is never updated again
            {"name": "matrix_transpose", "params": {"m": MAT}, "returns": MAT, "alias_ok": True},
            {"name": "matrix_multiply", "params": {"mat1": MAT, "mat2": MAT}, "returns": MAT},
            {"name": "lu_decomposition", "params": {"matrix_a": MAT}, "returns": "tuple[%s,%s]" % (MAT, MAT)},
            # checked_div: the model represents the ZeroDivisionError of these two functions (a zero pivot) as Crash
            {"name": "forward_substitution", "params": {"matrix_l": MAT, "matrix_b": "list[float]"},
             "returns": "list[float]", "checked_div": True},
            {"name": "backward_substitution", "params": {"matrix_u": MAT, "matrix_y": "list[float]"},
             "returns": "list[float]", "checked_div": True},
            {"name": "lu_solve", "params": {"matrix_a": MAT, "b": MAT}, "returns": MAT},
            {"name": "linspace", "params": {"start": "float", "stop": "float", "num": "int", "decimals": "int"},
             "returns": "list[float]"},
        ]},
        "knotvector": {"file": "geomdl/knotvector.py", "coq_module": "Knotvector", "imports": ["linalg"], "functions": [
            {"name": "generate", "params": {"degree": "int", "num_ctrlpts": "int"}, "kwargs": {"clamped": "bool"},
             "returns": "list[float]"},
            {"name": "normalize", "params": {"knot_vector": "list[float]", "decimals": "int"}, "returns": "list[float]"},
            {"name": "check", "params": {"degree": "int", "knot_vector": "list[float]", "num_ctrlpts": "int"},
             "returns": "bool"},
        ]},
        "helpers": {"file": "geomdl/helpers.py", "coq_module": "Helpers", "imports": ["linalg"], "functions": [
            # tol only enters  int(round((low + high) / 2 + tol)) : an exact rational
            {"name": "find_span_binsearch",
             "params": {"degree": "int", "knot_vector": "list[float]", "num_ctrlpts": "int", "knot": "float"},
             "kwargs": {"tol": "ratio"}, "returns": "int", "fuel": ["len(knot_vector) + 2"]},
            {"name": "find_span_linear",
             "params": {"degree": "int", "knot_vector": "list[float]", "num_ctrlpts": "int", "knot": "float"},
             "returns": "int", "fuel": ["num_ctrlpts + 1"]},
            {"name": "find_spans",
             "params": {"degree": "int", "knot_vector": "list[float]", "num_ctrlpts": "int", "knots": "list[float]",
                        "func": FN_SPAN}, "returns": "list[int]"},
            {"name": "find_multiplicity", "params": {"knot": "float", "knot_vector": "list[float]"},
             "kwargs": {"tol": "float"}, "returns": "int"},
            {"name": "basis_function",
             "params": {"degree": "int", "knot_vector": "list[float]", "span": "int", "knot": "float"},
             "returns": "list[float]"},
            {"name": "basis_function_one",
             "params": {"degree": "int", "knot_vector": "list[float]", "span": "int", "knot": "float"},
             "returns": "float"},
            {"name": "basis_functions",
             "params": {"degree": "int", "knot_vector": "list[float]", "spans": "list[int]", "knots": "list[float]"},
             "returns": "list[list[float]]"},
            {"name": "basis_function_ders",
             "params": {"degree": "int", "knot_vector": "list[float]", "span": "int", "knot": "float", "order": "int"},
             "returns": "list[list[float]]"},
            {"name": "basis_function_ders_one",
             "params": {"degree": "int", "knot_vector": "list[float]", "span": "int", "knot": "float", "order": "int"},
             "returns": "list[float]"},
            {"name": "knot_insertion_alpha",
             "params": {"u": "float", "knotvector": "list[float]", "span": "int", "idx": "int", "leg": "int"},
             "returns": "float"},
            # control points are lists of floats (a point, weighted or not); alias_ok: the only in-place updates are
            # temp[i][:] = ..., and every element of temp is a deepcopy, so no updated object has a second name
            {"name": "knot_insertion",
             "params": {"degree": "int", "knotvector": "list[float]", "ctrlpts": "list[list[float]]", "u": "float"},
             "kwargs": {"num": "int", "s": "int", "span": "int"}, "returns": "list[list[float]]", "alias_ok": True},
            {"name": "knot_insertion_kv",
             "params": {"knotvector": "list[float]", "u": "float", "span": "int", "r": "int"},
             "returns": "list[float]"},
            {"name": "knot_removal_kv", "params": {"knotvector": "list[float]", "span": "int", "r": "int"},
             "returns": "list[float]"},
            # alias_ok: pts_red[0] = ctrlpts[0] etc. store points under a second name, but no point is ever updated in
            # place (pts_red[i] = [...] replaces whole points)
            {"name": "degree_reduction", "params": {"degree": "int", "ctrlpts": MAT}, "kwargs": {"check_num": "bool"},
             "returns": MAT, "alias_ok": True},
        ]},
        # ---- second round -------------------------------------------------------------------------------------------
        "linalg/geom": {"file": "geomdl/linalg.py", "pymodule": "linalg", "coq_module": "LinalgGeom",
                        "requires": ["PreludeExt"], "imports": ["linalg"], "functions": [
            {"name": "is_left", "params": {"point0": "list[float]", "point1": "list[float]", "point2": "list[float]"},
             "returns": "float"},
            {"name": "wn_poly", "params": {"point": "list[float]", "vertices": MAT}, "returns": "bool"},
            # alias_ok: hull.append(r) stores the point r under a second name, but no point is ever updated in place (only
            # the list `hull` grows and shrinks).  keep_left updates its argument `hull` in place and returns it: "owned"
            # (it is only used as reduce(keep_left, ..., []), checked by the translator).  sorted() -> py_sorted_pts.
            {"name": "convex_hull", "params": {"points": MAT}, "returns": MAT, "alias_ok": True,
             "locals": {"cmp": {"params": {"a": "float", "b": "float"}, "returns": "int"},
                        "turn": {"params": {"p": "list[float]", "q": "list[float]", "r": "list[float]"}, "returns": "int"},
                        "keep_left": {"params": {"hull": MAT, "r": "list[float]"}, "returns": MAT, "owned": ["hull"],
                                      "fuel": ["len(hull) + 1"]}}},
        ]},
        "linalg/mat": {"file": "geomdl/linalg.py", "pymodule": "linalg", "coq_module": "LinalgMat",
                       "requires": ["PreludeExt"], "imports": ["linalg"], "functions": [
            # @lru_cache: the UNDECORATED function is translated (memoisation of a pure function; matrix_pivot works on a
            # deepcopy of the result, so the cached object is never updated)
            {"name": "matrix_identity", "params": {"n": "int"}, "returns": MAT},
            # static: `sign` changes the arity of the result: one generated function per value
            {"name": "matrix_pivot", "params": {"m": MAT}, "static": {"sign": [False, True]},
             "returns": {"False": "tuple[%s,%s]" % (MAT, MAT), "True": "tuple[%s,%s,float]" % (MAT, MAT)}},
            {"name": "matrix_inverse", "params": {"m": MAT}, "returns": MAT},
            {"name": "matrix_determinant", "params": {"m": MAT}, "returns": "float"},
            {"name": "lu_factor", "params": {"matrix_a": MAT, "b": MAT}, "returns": MAT},
            # @lru_cache: the undecorated function; math.factorial -> zfact_chk, float(int / int) -> oratio
            {"name": "binomial_coefficient", "params": {"k": "int", "i": "int"}, "returns": "float"},
        ]},
        "helpers/b": {"file": "geomdl/helpers.py", "pymodule": "helpers", "coq_module": "HelpersB",
                      "requires": ["PreludeExt"], "imports": ["linalg", "linalg/mat", "helpers"], "functions": [
            {"name": "degree_elevation", "params": {"degree": "int", "ctrlpts": MAT},
             "kwargs": {"num": "int", "check_num": "bool"}, "returns": MAT},
            # the result is filled with None placeholders (row k keeps k of them): its slots have type optfloat = option T
            # type_variants: surface_deriv_cpts also calls it on points taken from its own table (None-or-float slots)
            {"name": "curve_deriv_cpts",
             "params": {"dim": "int", "degree": "int", "kv": "list[float]", "cpts": MAT, "rs": "list[int]", "deriv_order": "int"},
             "returns": "list[list[list[optfloat]]]",
             "type_variants": [{"suffix": "opt", "params": {"cpts": "list[list[optfloat]]"}}]},
            # @lru_cache: the undecorated functions
            {"name": "knot_removal_alpha_i",
             "params": {"u": "float", "degree": "int", "knotvector": "list[float]", "num": "int", "idx": "int"}, "returns": "float"},
            {"name": "knot_removal_alpha_j",
             "params": {"u": "float", "degree": "int", "knotvector": "list[float]", "num": "int", "idx": "int"}, "returns": "float"},
            # control points = lists of floats (the is_volume branches are dead for these types: decided by constant
            # propagation of the flag).  alias_ok: points are stored under second names (temp[0] = ctrlpts_new[first - 1],
            # ctrlpts_new[j] = ctrlpts_new[k]) but never updated in place in the non-volume branches.
            # abstract_calls: linalg.point_distance (square root) is the parameter `dist`.
            # fuel: each pass of `while j - i > t` lowers j - i by 2.
            {"name": "knot_removal",
             "params": {"degree": "int", "knotvector": "list[float]", "ctrlpts": MAT, "u": "float"},
             "kwargs": {"tol": "float", "num": "int", "s": "int", "span": "int"}, "returns": MAT, "alias_ok": True,
             "fuel": ["abs(j - i) + 1", "abs(j - i) + 1"],
             "abstract_calls": {"linalg.point_distance": {"param": "dist", "type": "fn(list[float],list[float])->float"}}},
            # control points = lists of floats.  alias_ok: points are stored under second names (new_ctrlpts[j] = ctrlpts[j]) and
            # knot_list = rknots renames a list that is not touched again; no point is updated in place in the float branches.
            # loop_var_after_loop: rknots.append(knot_list[i + 1]) reads the variable of the bisection loop after the loop.
            {"name": "knot_refinement",
             "params": {"degree": "int", "knotvector": "list[float]", "ctrlpts": MAT},
             "kwargs": {"tol": "float", "check_num": "bool", "knot_list": "list[float]", "add_knot_list": "list[float]",
                        "density": "int"},
             "returns": "tuple[%s,list[float]]" % MAT, "alias_ok": True, "loop_var_after_loop": "checked",
             "fuel": ["j + 2", "abs(i) + 1"]},
            # alias_ok: PKL[k][0][i][j] = PKu[k][i] stores points of the fresh tables PKu / PKuv, which are never updated
            # afterwards; the points of PKL are only replaced as a whole
            {"name": "surface_deriv_cpts",
             "params": {"dim": "int", "degree": "list[int]", "kv": "list[list[float]]", "cpts": MAT, "cpsize": "list[int]",
                        "rs": "list[int]", "ss": "list[int]", "deriv_order": "int"},
             "returns": "list[list[list[list[list[optfloat]]]]]", "alias_ok": True},
        ]},
        "fitting": {"file": "geomdl/fitting.py", "coq_module": "Fitting", "requires": ["PreludeExt"],
                    "imports": ["linalg"], "functions": [
            {"name": "compute_knot_vector", "params": {"degree": "int", "num_points": "int", "params": "list[float]"},
             "returns": "list[float]"},
            # d = float(num_dpts) / float(num_cpts - degree) is carried as the exact rational (int(j * d), alpha = j * d - i)
            {"name": "compute_knot_vector2",
             "params": {"degree": "int", "num_dpts": "int", "num_cpts": "int", "params": "list[float]"},
             "returns": "list[float]", "exact_int_quotients": True},
            # abstract_calls: linalg.point_distance needs a square root; it is left uninterpreted (the parameter `dist`
            # of the generated function).  static: only centripetal = False (the other branch takes math.sqrt).
            # checked_div: d = 0 (all points equal) raises ZeroDivisionError <-> the model's Crash.
            {"name": "compute_params_curve", "params": {"points": MAT}, "static": {"centripetal": [False]},
             "returns": "list[float]", "checked_div": True,
             "abstract_calls": {"linalg.point_distance": {"param": "dist", "type": "fn(list[float],list[float])->float"}}},
        ]},
        # ---- third round: geomdl/evaluators.py -------------------------------------------------------------------------
        "helpers/c": {"file": "geomdl/helpers.py", "pymodule": "helpers", "coq_module": "HelpersC",
                      "requires": ["PreludeExt"], "imports": ["linalg", "helpers"], "functions": [
            # N[j][i] is None above the diagonal (j > i): slots of type optfloat
            {"name": "basis_function_all",
             "params": {"degree": "int", "knot_vector": "list[float]", "span": "int", "knot": "float"},
             "returns": "list[list[optfloat]]"},
        ]},
        # Methods are named Class.method (generated: Class_method).  `self` is only used for self._span_func, which becomes the
        # parameter self__span_func; super(C, self).m(...) is the call of the translated method of the base class.
        # datadict = SplineGeometry.data (abstract.py: Curve.data / Surface.data / Volume.data): a dict with a fixed key set,
        # rendered as the record geomdata (tuples of the caller are lists; the keys type / delta / trims are never read).
        # alias_ok (all methods): knotvector = datadict['knotvector'][0] etc. give second names to parts of the argument, which
        # the translator checks are never updated in place (readonly); eval_points.append(crvpt) stores the list object crvpt,
        # which is rebound to a new list ([0.0 for ...]) before the next in-place update crvpt[:] = ...; the same for spt, cpt
        # and CK[k][:] = ... / SKL[k][l][:] = ... (replace the contents of a row nobody else holds).
        "evaluators": {"file": "geomdl/evaluators.py", "coq_module": "Evaluators", "requires": ["PreludeExt"],
                       "imports": ["linalg", "linalg/mat", "helpers", "helpers/b", "helpers/c"],
                       "dicts": {"geomdata": GEOMDATA}, "functions": [
            {"name": "CurveEvaluator.evaluate", "params": {"datadict": "dict:geomdata"},
             "kwargs": {"start": "float", "stop": "float"}, "self_attrs": {"_span_func": FN_SPAN}, "returns": MAT, "alias_ok": True},
            {"name": "CurveEvaluatorRational.evaluate", "params": {"datadict": "dict:geomdata"},
             "kwargs": {"start": "float", "stop": "float"}, "self_attrs": {"_span_func": FN_SPAN}, "returns": MAT, "alias_ok": True},
            {"name": "SurfaceEvaluator.evaluate", "params": {"datadict": "dict:geomdata"},
             "kwargs": {"start": "list[float]", "stop": "list[float]"}, "self_attrs": {"_span_func": FN_SPAN}, "returns": MAT,
             "alias_ok": True},
            {"name": "SurfaceEvaluatorRational.evaluate", "params": {"datadict": "dict:geomdata"},
             "kwargs": {"start": "list[float]", "stop": "list[float]"}, "self_attrs": {"_span_func": FN_SPAN}, "returns": MAT,
             "alias_ok": True},
            {"name": "VolumeEvaluator.evaluate", "params": {"datadict": "dict:geomdata"},
             "kwargs": {"start": "list[float]", "stop": "list[float]"}, "self_attrs": {"_span_func": FN_SPAN}, "returns": MAT,
             "alias_ok": True},
            {"name": "VolumeEvaluatorRational.evaluate", "params": {"datadict": "dict:geomdata"},
             "kwargs": {"start": "list[float]", "stop": "list[float]"}, "self_attrs": {"_span_func": FN_SPAN}, "returns": MAT,
             "alias_ok": True},
            # derivatives: parpos is the parameter (curves) / the pair of parameters (surfaces); **kwargs is never read
            {"name": "CurveEvaluator.derivatives", "params": {"datadict": "dict:geomdata", "parpos": "float", "deriv_order": "int"},
             "self_attrs": {"_span_func": FN_SPAN}, "returns": MAT, "alias_ok": True},
            {"name": "CurveEvaluatorRational.derivatives",
             "params": {"datadict": "dict:geomdata", "parpos": "float", "deriv_order": "int"},
             "self_attrs": {"_span_func": FN_SPAN}, "returns": MAT, "alias_ok": True},
            {"name": "CurveEvaluator2.derivatives", "params": {"datadict": "dict:geomdata", "parpos": "float", "deriv_order": "int"},
             "self_attrs": {"_span_func": FN_SPAN}, "returns": MAT, "alias_ok": True},
            {"name": "SurfaceEvaluator.derivatives",
             "params": {"datadict": "dict:geomdata", "parpos": "list[float]", "deriv_order": "int"},
             "self_attrs": {"_span_func": FN_SPAN}, "returns": "list[%s]" % MAT, "alias_ok": True},
            {"name": "SurfaceEvaluatorRational.derivatives",
             "params": {"datadict": "dict:geomdata", "parpos": "list[float]", "deriv_order": "int"},
             "self_attrs": {"_span_func": FN_SPAN}, "returns": "list[%s]" % MAT, "alias_ok": True},
            {"name": "SurfaceEvaluator2.derivatives",
             "params": {"datadict": "dict:geomdata", "parpos": "list[float]", "deriv_order": "int"},
             "self_attrs": {"_span_func": FN_SPAN}, "returns": "list[%s]" % MAT, "alias_ok": True},
        ]},
        # ---- fourth round: geomdl/compatibility.py (C09 weights views, C13 layout) ------------------------------------------
        # control points = lists of floats.  alias_ok (all): new_ctrlpts.append(temp) stores the list object `temp`, which is
        # rebound to a new list at the start of the next iteration (temp[-1] = ... happens before the append, on an object
        # nobody else holds); weights.append(ptw[-1]) stores a float.
        # checked_div: a zero weight raises ZeroDivisionError <-> the model's Crash (Weights.separate_res / generate_ctrlpts_weights).
        "compatibility": {"file": "geomdl/compatibility.py", "coq_module": "Compatibility", "requires": ["PreludeExt"],
                          "imports": [], "functions": [
            {"name": "flip_ctrlpts_u", "params": {"ctrlpts": MAT, "size_u": "int", "size_v": "int"}, "returns": MAT, "alias_ok": True},
            {"name": "flip_ctrlpts", "params": {"ctrlpts": MAT, "size_u": "int", "size_v": "int"}, "returns": MAT, "alias_ok": True},
            {"name": "flip_ctrlpts2d", "params": {"ctrlpts2d": "list[%s]" % MAT, "size_u": "int", "size_v": "int"},
             "returns": "list[%s]" % MAT},
            {"name": "generate_ctrlptsw", "params": {"ctrlpts": MAT}, "returns": MAT, "alias_ok": True},
            {"name": "generate_ctrlptsw2d", "params": {"ctrlpts2d": "list[%s]" % MAT}, "returns": "list[%s]" % MAT, "alias_ok": True},
            {"name": "generate_ctrlpts_weights", "params": {"ctrlpts": MAT}, "returns": MAT, "alias_ok": True, "checked_div": True},
            {"name": "generate_ctrlpts2d_weights", "params": {"ctrlpts2d": "list[%s]" % MAT}, "returns": "list[%s]" % MAT,
             "alias_ok": True, "checked_div": True},
            # none_variants: weights=None (the default) is its own generated function combine_ctrlpts_weights__weights_none
            # without that parameter (`weights is None` is then true until weights is assigned)
            {"name": "combine_ctrlpts_weights", "params": {"ctrlpts": MAT, "weights": "list[float]"}, "returns": MAT, "alias_ok": True,
             "none_variants": [{"suffix": "weights_none", "none": ["weights"]}]},
            # the result [ctrlpts, weights] is a two-element list of different types: a pair here
            {"name": "separate_ctrlpts_weights", "params": {"ctrlptsw": MAT}, "returns": "tuple[%s,list[float]]" % MAT,
             "alias_ok": True, "checked_div": True},
        ]},
        # ---- fourth round, stage 2: geomdl/_operations.py (C20), utilities.check_params
        # "objects": curve / surf are geomdl objects of which only the listed attributes are read; they are records here.
        # Trusted reading: an attribute read has no effect and returns the value of the field (the tie theorems relate the fields to
        # the model's arguments: ctrlpts2d is the [u][v] view of the flat control point list).
        # alias_ok: curve_ctrlpts[i] = curve.ctrlpts[idx + i] etc. store points of the argument under second names; no point is
        # updated in place (only the slots of the fresh result lists are replaced); surf_ctrlpts[k] = temp stores the list temp,
        # which is rebound to a new list at the start of the next iteration.
        "_operations": {"file": "geomdl/_operations.py", "coq_module": "OperationsInternal", "requires": ["PreludeExt"],
                        "imports": ["linalg", "helpers"],
                        "objects": {"curveobj": {"degree": "int", "knotvector": "list[float]", "ctrlpts": MAT},
                                    "surfobj": {"degree_u": "int", "degree_v": "int", "knotvector_u": "list[float]",
                                                "knotvector_v": "list[float]", "ctrlpts_size_u": "int", "ctrlpts_size_v": "int",
                                                "ctrlpts2d": "list[%s]" % MAT}},
                        "functions": [
            {"name": "find_ctrlpts_curve", "params": {"t": "float", "curve": "obj:curveobj"}, "kwargs": {"find_span_func": FN_SPAN},
             "returns": MAT, "alias_ok": True},
            {"name": "find_ctrlpts_surface", "params": {"t_u": "float", "t_v": "float", "surf": "obj:surfobj"},
             "kwargs": {"find_span_func": FN_SPAN}, "returns": "list[%s]" % MAT, "alias_ok": True},
        ]},
        # ---- fourth round, stage 3: geomdl/fitting.py, second part (C11)
        "fitting/b": {"file": "geomdl/fitting.py", "pymodule": "fitting", "coq_module": "FittingB", "requires": ["PreludeExt", "PreludeExt2"],
                      "imports": ["linalg", "helpers", "fitting"],
                      "objects": {"curvedata": {"degree": "int", "ctrlpts": MAT, "knotvector": "list[float]"},
                                  "surfdata": {"degree_u": "int", "degree_v": "int", "ctrlpts_size_u": "int", "ctrlpts_size_v": "int",
                                               "ctrlpts": MAT, "knotvector_u": "list[float]", "knotvector_v": "list[float]"}},
                      "functions": [
            # matrix_a[i][span-degree:span+1] = basis_function(...): a slice assignment (zslice_set); `points` only gives the size
            {"name": "_build_coeff_matrix",
             "params": {"degree": "int", "knotvector": "list[float]", "params": "list[float]", "points": MAT}, "returns": MAT},
            # static_kwargs: the specialisation to centripetal = False (the keyword's default; the other value needs math.sqrt).
            # abstract_calls: linalg.point_distance, the uninterpreted callee of compute_params_curve, is the parameter `dist`.
            # constructs: curve = BSpline.Curve(); curve.degree = ..; curve.ctrlpts = ..; curve.knotvector = ..; return curve  is the record
            # curvedata of the values assigned (TRUSTED READING: the new object stores them; the validation / normalisation the setters of
            # BSpline.Curve perform is not part of the translation).
            {"name": "interpolate_curve", "params": {"points": MAT, "degree": "int"}, "static_kwargs": {"centripetal": False},
             "returns": "obj:curvedata", "constructs": {"BSpline.Curve": "curvedata"},
             "abstract_calls": {"linalg.point_distance": {"param": "dist", "type": "fn(list[float],list[float])->float"}}},
            # static / abstract_calls as compute_params_curve, which it calls for every row and column of the data.
            # alias_ok: pts_u = [points[...] for ...] gives points of the argument second names; no point is ever updated in place
            # (the only in-place updates are uk[u] = float, vl[v] = float on fresh lists of floats and the += of fresh lists)
            {"name": "compute_params_surface", "params": {"points": MAT, "size_u": "int", "size_v": "int"}, "static": {"centripetal": [False]},
             "returns": "tuple[list[float],list[float]]", "alias_ok": True,
             "abstract_calls": {"linalg.point_distance": {"param": "dist", "type": "fn(list[float],list[float])->float"}}},
            {"name": "interpolate_surface",
             "params": {"points": MAT, "size_u": "int", "size_v": "int", "degree_u": "int", "degree_v": "int"},
             "static_kwargs": {"centripetal": False}, "returns": "obj:surfdata", "constructs": {"BSpline.Surface": "surfdata"}, "alias_ok": True,
             "abstract_calls": {"linalg.point_distance": {"param": "dist", "type": "fn(list[float],list[float])->float"}}},
        ]},
        # least-squares approximation (in a file of its own: FittingB.v is compiled against by GenTieFitB / GenTieFitSurf).
        # ctrlpts_size has a computed default (num_dpts - 1): the keyword must be given.  alias_ok: matrix_n.append(m_temp) / pt0 = points[0] ...
        # store lists under second names; m_temp is rebound in the next pass, points of the argument are never updated (ctrlpts[0] = list(..)
        # is a copy; ctrlpts[j][i] = ... updates rows of the fresh zero matrix or those copies).
        "fitting/c": {"file": "geomdl/fitting.py", "pymodule": "fitting", "coq_module": "FittingC", "requires": ["PreludeExt", "PreludeExt2"],
                      "imports": ["linalg", "helpers", "fitting", "fitting/b"],
                      "objects": {"curvedata2": {"degree": "int", "ctrlpts": MAT, "knotvector": "list[float]"}}, "functions": [
            {"name": "approximate_curve", "params": {"points": MAT, "degree": "int"}, "kwargs": {"ctrlpts_size": "int"},
             "static_kwargs": {"centripetal": False}, "returns": "obj:curvedata2", "constructs": {"BSpline.Curve": "curvedata2"}, "alias_ok": True,
             "abstract_calls": {"linalg.point_distance": {"param": "dist", "type": "fn(list[float],list[float])->float"}}},
        ]},
        # ---- fourth round, stage 4: geomdl/linalg.py leftovers (C16)
        "linalg/b": {"file": "geomdl/linalg.py", "pymodule": "linalg", "coq_module": "LinalgB", "requires": ["PreludeExt", "PreludeExt2"],
                     "imports": ["linalg"], "functions": [
            # static: normalize = False only (True calls vector_normalize: a square root)
            {"name": "vector_generate", "params": {"start_pt": "list[float]", "end_pt": "list[float]"}, "static": {"normalize": [False]},
             "returns": "list[float]"},
            {"name": "point_translate", "params": {"point_in": "list[float]", "vector_in": "list[float]"}, "returns": "list[float]"},
            {"name": "point_mid", "params": {"pt1": "list[float]", "pt2": "list[float]"}, "returns": "list[float]"},
            # abstract_calls: math.sqrt is not a field operation; it is the uninterpreted parameter py_sqrt of the generated functions
            # (the tie theorems hold for every such function; vector_normalize's needs 0 < sqrt x <-> 0 < x at the squared magnitude)
            {"name": "vector_magnitude", "params": {"vector_in": "list[float]"}, "returns": "float", "abstract_calls": {"math.sqrt": {"param": "py_sqrt", "type": "fn(float)->float"}}},
            {"name": "point_distance", "params": {"pt1": "list[float]", "pt2": "list[float]"}, "returns": "float", "abstract_calls": {"math.sqrt": {"param": "py_sqrt", "type": "fn(float)->float"}}},
            {"name": "vector_normalize", "params": {"vector_in": "list[float]", "decimals": "int"}, "returns": "list[float]", "abstract_calls": {"math.sqrt": {"param": "py_sqrt", "type": "fn(float)->float"}}},
            {"name": "vector_is_zero", "params": {"vector_in": "list[float]", "tol": "float"}, "returns": "bool"},
            # vararg: vector_mean(*args) - the tuple of the vectors is the one list parameter args
            {"name": "vector_mean", "params": {"args": MAT}, "vararg": "args", "returns": "list[float]"},
            {"name": "matrix_scalar", "params": {"m": MAT, "sc": "float"}, "returns": MAT},
        ]},
        # ---- fourth round, stage 5: linalg.frange and _voxelize.generate_voxel_grid (C20)
        # generator: frange yields its values; the generated function returns the list of them (what list(frange(..)) is).
        # fuel_params: the number of passes of `while x + epsilon < stop` is not bounded by an int expression of the source; the generated
        # function takes the bound as the extra parameter py_fuel (GErr OutOfFuel when it is exceeded), like the model's `fuel`.
        "linalg/c": {"file": "geomdl/linalg.py", "pymodule": "linalg", "coq_module": "LinalgC", "requires": ["PreludeExt", "PreludeExt2"],
                     "imports": ["linalg"], "functions": [
            {"name": "frange", "params": {"start": "float", "stop": "float", "step": "float"}, "returns": "list[float]",
             "generator": True, "fuel_params": ["py_fuel"], "fuel": ["py_fuel"]},
        ]},
        # alias_ok: voxel_grid.append([bbmin, bbmax]) stores the lists bbmin / bbmax, which are rebound to new lists in the next iteration
        # and never updated in place.  fuel_params: passed on to linalg.frange.
        "_voxelize/b": {"file": "geomdl/_voxelize.py", "pymodule": "_voxelize", "coq_module": "VoxelizeB", "requires": ["PreludeExt", "PreludeExt2"],
                        "imports": ["linalg", "linalg/c"], "functions": [
            {"name": "generate_voxel_grid", "params": {"bbox": MAT, "szval": "list[int]", "use_cubes": "bool"},
             "returns": "list[%s]" % MAT, "alias_ok": True, "fuel_params": ["py_fuel"]},
        ]},
        "utilities/b": {"file": "geomdl/utilities.py", "pymodule": "utilities", "coq_module": "UtilitiesB", "requires": ["PreludeExt"],
                        "imports": [], "functions": [
            # the parameters may be None (a direction that is not given): slots of type optfloat
            {"name": "check_params", "params": {"params": "list[optfloat]"}, "returns": "bool"},
        ]},
        "utilities": {"file": "geomdl/utilities.py", "coq_module": "Utilities", "requires": ["PreludeExt"],
                      "imports": [], "functions": [
            # infinity_params: bbmin / bbmax start at float('inf') / float('-inf')
            {"name": "evaluate_bounding_box", "params": {"ctrlpts": MAT}, "returns": "tuple[list[float],list[float]]",
             "infinity_params": True},
        ]},
        "_voxelize": {"file": "geomdl/_voxelize.py", "coq_module": "Voxelize", "requires": ["PreludeExt"],
                      "imports": ["linalg"], "functions": [
            {"name": "is_point_inside_voxel", "params": {"bbox": MAT, "ptsarr": MAT}, "kwargs": {"tol": "float"},
             "returns": "int"},
            {"name": "find_inouts_st", "params": {"voxel_grid": "list[%s]" % MAT, "datapts": MAT},
             "kwargs": {"tol": "float"}, "returns": "list[int]"},
        ]},
    },
}


def main(argv=None):
    ap = argparse.ArgumentParser(description=__doc__.split("\n")[0])
    ap.add_argument("--repo", default="/repo")
    ap.add_argument("--write", action="store_true")
    ap.add_argument("--check", action="store_true")
    ap.add_argument("--out", default=GEN_DIR)
    a = ap.parse_args(argv)
    if a.write:
        for coqmod, text in translate(a.repo).items():
            os.makedirs(a.out, exist_ok=True)
            path = os.path.join(a.out, coqmod + ".v")
            try:
                with open(path) as fh:
                    same = fh.read() == text
            except OSError:
                same = False
            if same:        # an unchanged file keeps its time stamp (the .vo files that depend on it stay valid)
                print("unchanged %s" % path)
                continue
            with open(path, "w") as fh:
                fh.write(text)
            print("wrote %s" % path)
        return 0
    if a.check:
        return 0 if check(a.repo, gen_dir=a.out) else 1
    ap.print_help()
    return 2


if __name__ == "__main__":
    sys.exit(main())
