"""Shared structured generators: knot vectors, parameters, control nets, weights; exact oracles."""
from fractions import Fraction as F


def interior_pattern(rng, p, nint, maxmult=None):
    """list of multiplicities (each 1..p) for nint distinct interior knots"""
    mm = maxmult or p
    out = []
    for _ in range(nint):
        r = rng.random()
        out.append(1 if r < 0.55 else rng.randint(1, max(1, mm)))
    return out


def knotvector(rng, p, kind=None, nint=None, grid=16):
    """Returns (U as list of floats exactly representable, kind). Domain [U[p], U[-p-1]].
    kinds: uniform (clamped, simple interior), mult (clamped, repeated interior), unclamped, affine (non-normalised)."""
    kind = kind or rng.choice(["uniform", "mult", "mult", "unclamped", "affine"])
    if nint is None:
        nint = rng.choice([0, 1, 2, 3, 4, 5])
    if kind == "unclamped":
        # strictly increasing or with a few repeats, no clamping
        m = 2 * (p + 1) + nint
        vals = sorted(rng.sample(range(0, 4 * m), m))
        if rng.random() < 0.3 and m > 2 * p + 3:
            j = rng.randint(p + 1, m - p - 2)
            vals[j] = vals[j - 1]
        vals = sorted(vals)
        U = [v / 8.0 for v in vals]
        return U, kind
    distinct = sorted(rng.sample(range(1, grid), min(nint, grid - 1)))
    mults = [1] * len(distinct) if kind == "uniform" else interior_pattern(rng, p, len(distinct))
    interior = []
    for d, m in zip(distinct, mults):
        interior += [d / float(grid)] * m
    U = [0.0] * (p + 1) + interior + [1.0] * (p + 1)
    if kind == "affine":
        a = rng.choice([2.0, 3.0, 0.5, 4.0, 1.5, 1.0, 1.0])
        b = rng.choice([-1.0, 0.25, 2.0, 0.0, -3.5, -0.5, 1.0])
        if a == 1.0 and b == 0.0:
            b = 2.0
        U = [a * k + b for k in U]
    return U, kind


def param(rng, U, p, cls=None):
    """parameter in the domain [U[p], U[n]] where n = len(U)-p-1; classes: interior, knot, start, end, random"""
    n = len(U) - p - 1
    lo, hi = U[p], U[n]
    cls = cls or rng.choice(["interior", "interior", "knot", "start", "end", "third"])
    if cls == "start":
        return lo, cls
    if cls == "end":
        return hi, cls
    if cls == "knot":
        ks = [k for k in U[p:n + 1] if lo < k < hi]
        if ks:
            return rng.choice(ks), cls
        cls = "interior"
    if cls == "third":
        # non-dyadic data
        t = rng.choice([1 / 3.0, 0.1, 0.7, 2 / 3.0, 0.3, 0.9])
        return lo + (hi - lo) * t, cls
    # dyadic interior point strictly between distinct knots
    ds = sorted(set(U[p:n + 1]))
    i = rng.randrange(len(ds) - 1)
    t = rng.choice([0.5, 0.25, 0.75, 0.125, 0.875])
    return ds[i] + (ds[i + 1] - ds[i]) * t, "interior"


def points(rng, n, dim, grid=8, lim=16):
    return [[rng.randint(-lim * grid, lim * grid) / float(grid) for _ in range(dim)] for _ in range(n)]


def weights(rng, n):
    return [rng.choice([0.125, 0.25, 0.5, 1.0, 1.0, 2.0, 3.0, 4.0, 0.75, 1.5]) for _ in range(n)]


# ------------------------------------------------------------------ exact oracles (property statements)
def cdb(U, p, i, u):
    """Cox-de Boor N_{i,p}(u) in exact arithmetic, half-open intervals, 0/0 = 0."""
    if p == 0:
        return F(1) if U[i] <= u < U[i + 1] else F(0)
    a = F(0)
    d1 = U[i + p] - U[i]
    if d1 != 0:
        a += (u - U[i]) / d1 * cdb(U, p - 1, i, u)
    d2 = U[i + p + 1] - U[i + 1]
    if d2 != 0:
        a += (U[i + p + 1] - u) / d2 * cdb(U, p - 1, i + 1, u)
    return a


def cdb_der(U, p, i, u, k):
    """k-th derivative by Eq. 2.9 (right-continuous)"""
    if k == 0:
        return cdb(U, p, i, u)
    if p == 0:
        return F(0)
    a = F(0)
    d1 = U[i + p] - U[i]
    if d1 != 0:
        a += cdb_der(U, p - 1, i, u, k - 1) / d1
    d2 = U[i + p + 1] - U[i + 1]
    if d2 != 0:
        a -= cdb_der(U, p - 1, i + 1, u, k - 1) / d2
    return p * a


def exact_span(U, p, n, u):
    """the unique span k in [p, n-1] with U[k] <= u < U[k+1] (last non-empty one at the domain end); n = number of ctrlpts"""
    if u >= U[n]:
        k = n - 1
        while k > p and U[k] == U[k + 1]:
            k -= 1
        return k
    for k in range(p, n):
        if U[k] <= u < U[k + 1]:
            return k
    return None


def fr(xs):
    if isinstance(xs, (list, tuple)):
        return [fr(x) for x in xs]
    return F(xs)


def eval_curve_exact(p, U, P, u, rational=False):
    """P: control points (homogeneous-weighted [xw..., w] when rational=True). u Fraction. Uses the last span at the end."""
    U = fr(U)
    n = len(P)
    u = F(u)
    k = exact_span(U, p, n, u)
    if u >= U[n]:
        # right end: the limit from the left of the last non-empty span = last control point for clamped; general: evaluate with closed interval
        Ns = basis_closed(U, p, k, u)
    else:
        Ns = [cdb(U, p, k - p + j, u) for j in range(p + 1)]
    dim = len(P[0])
    pt = [sum(Ns[j] * F(P[k - p + j][c]) for j in range(p + 1)) for c in range(dim)]
    if rational:
        return [x / pt[-1] for x in pt[:-1]]
    return pt


def basis_closed(U, p, k, u):
    """basis functions on span k evaluated at u = U[k+1] (closed at the right end): A2.2 in exact arithmetic"""
    N = [F(1)] + [F(0)] * p
    left = [F(0)] * (p + 1)
    right = [F(0)] * (p + 1)
    for j in range(1, p + 1):
        left[j] = u - U[k + 1 - j]
        right[j] = U[k + j] - u
        saved = F(0)
        for r in range(j):
            temp = N[r] / (right[r + 1] + left[j - r])
            N[r] = saved + right[r + 1] * temp
            saved = left[j - r] * temp
        N[j] = saved
    return N


def close(a, b, tol=1e-9):
    a, b = F(a), F(b)
    return abs(a - b) <= F(tol) * max(1, abs(a), abs(b))


def closel(a, b, tol=1e-9):
    if isinstance(a, (list, tuple)):
        return isinstance(b, (list, tuple)) and len(a) == len(b) and all(closel(x, y, tol) for x, y in zip(a, b))
    return close(a, b, tol)
