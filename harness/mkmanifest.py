"""Regenerates /verif/MANIFEST.json from the property modules under harness/props."""
import os, sys, json, importlib
VERIF = os.path.dirname(os.path.dirname(os.path.abspath(__file__)))
sys.path.insert(0, "/repo"); sys.path.insert(0, os.path.join(VERIF, "harness"))
props = [json.loads(l) for l in open(os.path.join(VERIF, "properties.jsonl"))]
checks, na = [], []
NA_REASON = {}
for p in props:
    pid = p["id"]
    if os.path.exists(os.path.join(VERIF, "harness", "props", pid + ".py")) and os.path.exists(os.path.join(VERIF, "coq", "Props", pid + ".v")):
        m = importlib.import_module("props." + pid)
        tr = getattr(m, "TRANSLATED", None)
        tr_note = ("" if not tr else "  Translator tie (second tie, regenerated and compared on every run: harness/pytrans.py -> coq/Gen/*.v; model = translation "
                   "proved for all well-formed inputs in Proofs/GenTie*.v; trusted: the translator and Gen/Prelude.v) covers: " + ", ".join(tr) + ".")
        checks.append({
            "property_id": pid,
            "quick_cmd": "./check %s --tier quick" % pid,
            "thorough_cmd": "./check %s --tier thorough" % pid,
            "evidence_file": "evidence/%s.json" % pid,
            "replay_cmd_template": "./check %s --replay {path}" % pid,
            "engine": "coq-model+py-correspondence",
            "level_claimed": {"category": "proof", "text": getattr(m, "LEVEL_TEXT", "Coq theorems about the Gallina model of the anchored code (coq/Props/%s.v), model tied to /repo by a correspondence check evaluated inside Coq on every run" % pid), "design_ref": "DESIGN.md section 8, " + pid},
            "level_note": getattr(m, "LEVEL_NOTE", "Trusted: Coq 8.16.1 kernel incl. vm_compute; standard-library axioms of Reals (sig_forall_dec, sig_not_dec, functional_extensionality_dep) as printed by Print Assumptions; Paramcoq; the hand-written model's fidelity is sampled by the correspondence check (1e-9 tolerance), floating-point rounding is modelled as exact") + tr_note,
            "technique": getattr(m, "TECHNIQUE", "machine-checked proof in Coq over a hand-written Gallina model + model/implementation correspondence check evaluated by coqc (vm_compute)") + (" + Python-to-Gallina translator with proved model = translation theorems for the numerical core" if tr else ""),
        })
    else:
        na.append({"property_id": pid, "reason": NA_REASON.get(pid, "check not built yet in this round (planned, see DESIGN.md section 8); nothing is claimed for it")})
man = {
    "version": 1,
    "setup_cmd": "./setup.sh",
    "hooks": {"guard": "GEOMDL_VERIF", "enable": "no hooks are needed: all observed state is reachable through the public Python API", "baseline_off_cmd": "cd /repo && /venv/bin/python -m pytest -ra -q -p no:cacheprovider --timeout=900 --continue-on-collection-errors", "source_commits": [], "add_only": True},
    "engines": [
        {"name": "coq-model", "path": "coq/", "serves_properties": [c["property_id"] for c in checks], "kind_free_text": "Coq 8.16 development: Gallina model (Model/), proofs (Proofs/, Transfer/), property theorems (Props/)"},
        {"name": "py-correspondence", "path": "harness/", "serves_properties": [c["property_id"] for c in checks], "kind_free_text": "Python harness: generators, implementation runner, Gallina rendering, coqc evaluation of the model against the implementation's outputs, exact Fraction oracles for failing-input search"},
    ],
    "checks": checks,
    "not_applicable": na,
    "notes": "Every check = (1) Coq build + Print Assumptions of the property theorems, (2) correspondence of the Gallina model with /repo's current tree, (3) exact-oracle search for a failing input, (4) known findings, (5) for the numerical core: regeneration of the Python-to-Gallina translation of the current source and comparison with the committed translation the tie theorems are about (a changed translation triggers the search and a NOTE; VERIF_STRICT_TIE=1 makes it a violation). See DESIGN.md sections 0 and 12.",
}
json.dump(man, open(os.path.join(VERIF, "MANIFEST.json"), "w"), indent=1)
print("checks:", [c["property_id"] for c in checks], "n/a:", len(na))
