"""Automated mutation run (gap finder, not a check): small syntactic mutants of the anchored geomdl files, each applied in a scratch
worktree of /repo; a mutant that survives the library's own test-suite is given to every check whose anchored files contain the
mutated file (quick tier, correspondence + oracles only).  Survivors of the checks are either equivalent mutants or gaps of the
generators - they are listed for review in work/mutants/results.jsonl.
usage: mutate.py [--files a.py,b.py] [--per-file N] [--workers W] [--seed S]"""
import ast, os, sys, json, random, subprocess, argparse, shutil, time
from concurrent.futures import ThreadPoolExecutor

VERIF = os.path.dirname(os.path.dirname(os.path.abspath(__file__)))
OUT = os.path.join(VERIF, "work", "mutants")
CMP = {ast.Lt: ast.LtE, ast.LtE: ast.Lt, ast.Gt: ast.GtE, ast.GtE: ast.Gt, ast.Eq: ast.NotEq, ast.NotEq: ast.Eq}
BIN = {ast.Add: ast.Sub, ast.Sub: ast.Add, ast.Mult: ast.Div, ast.Div: ast.Mult}


class Sites(ast.NodeVisitor):
    """enumerate mutation sites as (kind, lineno, col, extra)"""
    def __init__(self):
        self.sites = []
        self.skip = 0

    def visit_FunctionDef(self, node):
        if node.name in ("__str__", "__repr__", "render", "__init__") and False:
            return
        self.generic_visit(node)

    def visit_Raise(self, node):      # never mutate inside raise statements (messages)
        return

    def visit_Compare(self, node):
        for k, op in enumerate(node.ops):
            if type(op) in CMP:
                self.sites.append(("cmp", node.lineno, node.col_offset, k))
        self.generic_visit(node)

    def visit_BinOp(self, node):
        strs = [x for x in (node.left, node.right) if isinstance(x, ast.Constant) and isinstance(x.value, str)]
        if type(node.op) in BIN and not strs:
            self.sites.append(("bin", node.lineno, node.col_offset, None))
        self.generic_visit(node)

    def visit_BoolOp(self, node):
        self.sites.append(("bool", node.lineno, node.col_offset, None))
        self.generic_visit(node)

    def visit_Constant(self, node):
        if isinstance(node.value, int) and not isinstance(node.value, bool) and 0 <= node.value <= 3:
            self.sites.append(("int+1", node.lineno, node.col_offset, None))
            if node.value > 0:
                self.sites.append(("int-1", node.lineno, node.col_offset, None))

    def visit_Expr(self, node):
        if isinstance(node.value, ast.Call):
            self.sites.append(("dropcall", node.lineno, node.col_offset, None))
        elif isinstance(node.value, ast.Constant):
            return      # docstring
        self.generic_visit(node)

    def visit_UnaryOp(self, node):
        if isinstance(node.op, ast.Not):
            self.sites.append(("not", node.lineno, node.col_offset, None))
        self.generic_visit(node)


class Apply(ast.NodeTransformer):
    def __init__(self, site):
        self.kind, self.line, self.col, self.extra = site
        self.done = False

    def _here(self, node):
        return (not self.done) and getattr(node, "lineno", None) == self.line and getattr(node, "col_offset", None) == self.col

    def visit_Compare(self, node):
        if self.kind == "cmp" and self._here(node):
            node.ops[self.extra] = CMP[type(node.ops[self.extra])]()
            self.done = True
            return node
        return self.generic_visit(node)

    def visit_BinOp(self, node):
        if self.kind == "bin" and self._here(node):
            node.op = BIN[type(node.op)]()
            self.done = True
            return node
        return self.generic_visit(node)

    def visit_BoolOp(self, node):
        if self.kind == "bool" and self._here(node):
            node.op = ast.Or() if isinstance(node.op, ast.And) else ast.And()
            self.done = True
            return node
        return self.generic_visit(node)

    def visit_Constant(self, node):
        if self.kind in ("int+1", "int-1") and self._here(node) and isinstance(node.value, int) and not isinstance(node.value, bool):
            self.done = True
            return ast.copy_location(ast.Constant(node.value + (1 if self.kind == "int+1" else -1)), node)
        return node

    def visit_Expr(self, node):
        if self.kind == "dropcall" and self._here(node):
            self.done = True
            return ast.copy_location(ast.Pass(), node)
        return self.generic_visit(node)

    def visit_UnaryOp(self, node):
        if self.kind == "not" and self._here(node):
            self.done = True
            return node.operand
        return self.generic_visit(node)


def sh(cmd, cwd=None, env=None, timeout=1800):
    e = dict(os.environ)
    e.update(env or {})
    try:
        p = subprocess.run(cmd, shell=True, cwd=cwd, env=e, stdout=subprocess.PIPE, stderr=subprocess.STDOUT, timeout=timeout)
        return p.returncode, p.stdout.decode("utf-8", "replace")
    except subprocess.TimeoutExpired:
        return 124, "timeout"


def main():
    ap = argparse.ArgumentParser()
    ap.add_argument("--files", default="")
    ap.add_argument("--per-file", type=int, default=12)
    ap.add_argument("--workers", type=int, default=5)
    ap.add_argument("--seed", type=int, default=1)
    a = ap.parse_args()
    props = [json.loads(l) for l in open(os.path.join(VERIF, "properties.jsonl"))]
    anchored = {}
    for p in props:
        for f in p["anchors"]["files"]:
            anchored.setdefault(f, []).append(p["id"])
    files = [f for f in a.files.split(",") if f] or sorted(anchored)
    rng = random.Random(a.seed)
    jobs = []
    for f in files:
        src = open(os.path.join("/repo", f)).read()
        v = Sites()
        v.visit(ast.parse(src))
        sites = sorted(set(v.sites))
        rng.shuffle(sites)
        for s in sites[:a.per_file]:
            jobs.append((f, s))
    os.makedirs(OUT, exist_ok=True)
    res_path = os.path.join(OUT, "results.jsonl")
    print("%d mutants over %d files" % (len(jobs), len(files)))

    def worker(idx_job):
        idx, (f, site) = idx_job
        wt = "/tmp/wt-mut-%d-%d" % (os.getpid(), idx)
        sh("git -C /repo worktree add --detach -q %s HEAD" % wt)
        rec = {"file": f, "site": list(site)}
        try:
            src = open(os.path.join(wt, f)).read()
            tree = ast.parse(src)
            ap_ = Apply(site)
            tree = ap_.visit(tree)
            if not ap_.done:
                rec["status"] = "not-applied"
                return rec
            ast.fix_missing_locations(tree)
            new = ast.unparse(tree)
            rec["line"] = src.splitlines()[site[1] - 1].strip()[:160]
            open(os.path.join(wt, f), "w").write(new)
            env = {"PYTHONPATH": wt, "PYTHONDONTWRITEBYTECODE": "1"}
            rc, out = sh("/venv/bin/python -B -c 'import geomdl, geomdl.%s'" % os.path.basename(f)[:-3], cwd=wt, env=env, timeout=120)
            if rc != 0:
                rec["status"] = "import-fails"
                return rec
            rc, out = sh("/venv/bin/python -B -m pytest -q -x -p no:cacheprovider --timeout=300 tests --ignore=tests/test_visualization.py -q", cwd=wt, env=env, timeout=900)
            if rc != 0:
                rec["status"] = "killed-by-tests"
                return rec
            rec["status"] = "survived-all-checks"
            rec["checks"] = {}
            for pid in anchored.get(f, []):
                t0 = time.time()
                rc, out = sh("./check %s --tier quick --no-proof" % pid, cwd=VERIF, env={"VERIF_REPO": wt, "VERIF_JOBS": "3"}, timeout=1500)
                det = (rc != 0)
                rec["checks"][pid] = {"detected": det, "wall": round(time.time() - t0, 1)}
                if det:
                    rec["status"] = "killed-by-check"
                    rec["killer"] = pid
                    break
            return rec
        finally:
            sh("git -C /repo worktree remove --force %s" % wt)

    with ThreadPoolExecutor(max_workers=a.workers) as ex, open(res_path, "a") as fh:
        for rec in ex.map(worker, list(enumerate(jobs))):
            fh.write(json.dumps(rec) + "\n")
            fh.flush()
            print(rec["status"], rec["file"], rec.get("site"), rec.get("killer", ""), flush=True)
    return 0


if __name__ == "__main__":
    sys.exit(main())
