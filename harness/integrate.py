import re, sys
def add_import_line(s, line):
    i=s.index("Import ListNotations.")
    return s[:i]+line.rstrip()+"\n"+s[i:]
def ensure_print(txt):
    out=[];name=None;lines=txt.splitlines()
    for i,line in enumerate(lines):
        m=re.match(r"\s*Theorem\s+(\w+)",line)
        if m: name=m.group(1)
        out.append(line)
        if re.search(r"Qed\.\s*$",line) and name:
            nxt=lines[i+1] if i+1<len(lines) else ""
            if "Print Assumptions" not in nxt: out.append("Print Assumptions %s."%name)
            name=None
    return "\n".join(out)+"\n"
def integrate(props, imports, header, body):
    s=open(props).read()
    s=add_import_line(s, imports)
    s=s.rstrip()+"\n\n"+header+"\n"+ensure_print(body)
    open(props,'w').write(s)
