import re, sys
def add_import_line(s, line):
    i=s.index("Import ListNotations.")
    return s[:i]+line.rstrip()+"\n"+s[i:]
def ensure_print(txt):
    out=[];name=None;lines=txt.splitlines()
    for i,line in enumerate(lines):
        m=re.match(r"\s*Theorem\s+(\w+)",line)
        if m: name=m.group(1)
        out.append(line)
        if re.search(r"Qed\.\s*$",line) and name:
            nxt=lines[i+1] if i+1<len(lines) else ""
            if "Print Assumptions" not in nxt: out.append("Print Assumptions %s."%name)
            name=None
    return "\n".join(out)+"\n"
def integrate(props, imports, header, body):
    s=open(props).read()
    s=add_import_line(s, imports)
    s=s.rstrip()+"\n\n"+header+"\n"+ensure_print(body)
    open(props,'w').write(s)


TIE_MARK = "(* ====================== TRANSLATOR TIE"


def integrate_block(props, imports, header, body):
    """append a block of theorems (imports + header comment + body) to a Props file; if the file ends with the translator-tie block
    (whose imports shadow model names), insert before it"""
    s = open(props).read()
    block = "\n" + header.rstrip() + "\n" + imports.rstrip() + "\n" + ensure_print(body)
    if TIE_MARK in s:
        i = s.index(TIE_MARK)
        s = s[:i].rstrip() + "\n" + block + "\n\n" + s[i:]
    else:
        s = s.rstrip() + "\n" + block
    open(props, "w").write(s)


def integrate_gentie(snippet="coq/Proofs/GenTie.props-snippet"):
    """(re)place the translator-tie block at the END of every Props file the snippet has a section for.  The snippet is ONE
    cumulative file (later sections rely on the Require lines of earlier ones, and unqualified names resolve against what has
    been imported so far), so the block written for a Props file replays, before each of its sections, every Require statement
    the snippet has executed up to that point."""
    t = open(snippet).read()
    i = t.index("From Coq Require Import")
    j = t.index("Import ListNotations.")
    req = t[i:j].rstrip()
    heads = [(m.start(), m.end(), m.group(1)) for m in re.finditer(r"\(\* ================= for Props/(C\d\d)\.v[^\n]*\n", t)]
    secs = []          # (pid, start of header, start of body, end)
    for k, (a, b, pid) in enumerate(heads):
        end = heads[k + 1][0] if k + 1 < len(heads) else len(t)
        body = t.index("*)", b) + 2
        if k == 0:
            body = t.index("Local Open Scope nat_scope.", b) + len("Local Open Scope nat_scope.")
        secs.append((pid, a, body, end))
    REQ = r"^From (?:NV|Coq) Require Import .*?\.(?=\s)"
    order = []
    for pid, _, _, _ in secs:
        if pid not in order:
            order.append(pid)
    for pid in order:
        last = secs[0][2]
        txt = ""
        for spid, a, body, end in secs:
            if spid != pid:
                continue
            txt += "\n".join(re.findall(REQ, t[last:body], re.S | re.M)) + "\n" + t[body:end]
            last = end
        p = "coq/Props/%s.v" % pid
        s = open(p).read()
        if TIE_MARK in s:
            s = s[:s.index(TIE_MARK)].rstrip() + "\n"
        hdr = ("\n" + TIE_MARK + " (Proofs/GenTie*.v) ======================\n"
               "   coq/Gen/*.v is the Gallina rendering of the Python source produced by harness/pytrans.py; every run of ./check regenerates it\n"
               "   from /repo and compares it function by function with the committed text (evidence: translator_tie).  The theorems below say\n"
               "   that the hand-written model (the subject of the theorems above) computes, for ALL inputs satisfying the stated\n"
               "   well-formedness, exactly what the translated source computes.  This block stays LAST in the file: its imports shadow\n"
               "   model names. *)\n")
        s = s.rstrip() + "\n" + hdr + req + "\nLocal Open Scope nat_scope.\n" + ensure_print(txt)
        open(p, "w").write(s)
        print("gentie ->", p)


if __name__ == "__main__":
    import sys
    if sys.argv[1:] == ["gentie"]:
        integrate_gentie()
