import re, sys
def add_import_line(s, line):
    i=s.index("Import ListNotations.")
    return s[:i]+line.rstrip()+"\n"+s[i:]
def ensure_print(txt):
    out=[];name=None;lines=txt.splitlines()
    for i,line in enumerate(lines):
        m=re.match(r"\s*Theorem\s+(\w+)",line)
        if m: name=m.group(1)
        out.append(line)
        if re.search(r"Qed\.\s*$",line) and name:
            nxt=lines[i+1] if i+1<len(lines) else ""
            if "Print Assumptions" not in nxt: out.append("Print Assumptions %s."%name)
            name=None
    return "\n".join(out)+"\n"
def integrate(props, imports, header, body):
    s=open(props).read()
    s=add_import_line(s, imports)
    s=s.rstrip()+"\n\n"+header+"\n"+ensure_print(body)
    open(props,'w').write(s)


TIE_MARK = "(* ====================== TRANSLATOR TIE"


def integrate_block(props, imports, header, body):
    """append a block of theorems (imports + header comment + body) to a Props file; if the file ends with the translator-tie block
    (whose imports shadow model names), insert before it"""
    s = open(props).read()
    block = "\n" + header.rstrip() + "\n" + imports.rstrip() + "\n" + ensure_print(body)
    if TIE_MARK in s:
        i = s.index(TIE_MARK)
        s = s[:i].rstrip() + "\n" + block + "\n\n" + s[i:]
    else:
        s = s.rstrip() + "\n" + block
    open(props, "w").write(s)


def integrate_gentie(snippet="coq/Proofs/GenTie.props-snippet"):
    """(re)place the translator-tie block at the END of every Props file the snippet has a section for"""
    t = open(snippet).read()
    i = t.index("From Coq Require Import")
    j = t.index("Import ListNotations.")
    req = t[i:j].rstrip()
    parts = re.split(r"\(\* ================= for Props/(C\d\d)\.v[^\n]*\n", t)
    # parts = [pre, id1, text1, id2, text2, ...]; text1 starts inside the comment of its header
    for k in range(1, len(parts), 2):
        pid, txt = parts[k], parts[k + 1]
        txt = txt[txt.index("*)") + 2:]            # drop the rest of the section's header comment
        if k == 1:
            txt = txt[txt.index("Local Open Scope nat_scope.") + len("Local Open Scope nat_scope."):]
        p = "coq/Props/%s.v" % pid
        s = open(p).read()
        if TIE_MARK in s:
            s = s[:s.index(TIE_MARK)].rstrip() + "\n"
        hdr = ("\n" + TIE_MARK + " (Proofs/GenTie*.v) ======================\n"
               "   coq/Gen/*.v is the Gallina rendering of the Python source produced by harness/pytrans.py; every run of ./check regenerates it\n"
               "   from /repo and compares it function by function with the committed text (evidence: translator_tie).  The theorems below say\n"
               "   that the hand-written model (the subject of the theorems above) computes, for ALL inputs satisfying the stated\n"
               "   well-formedness, exactly what the translated source computes.  This block stays LAST in the file: its imports shadow\n"
               "   model names. *)\n")
        s = s.rstrip() + "\n" + hdr + req + "\nLocal Open Scope nat_scope.\n" + ensure_print(txt)
        open(p, "w").write(s)
        print("gentie ->", p)


if __name__ == "__main__":
    import sys
    if sys.argv[1:] == ["gentie"]:
        integrate_gentie()
