"""Check runner: proofs (Coq build + Print Assumptions), correspondence (model evaluated by coqc
against the implementation's outputs), oracle search for a failing input, known findings, evidence."""
import os, sys, re, json, time, random, hashlib, subprocess, importlib, shutil, signal, traceback, fcntl

VERIF = os.path.dirname(os.path.dirname(os.path.abspath(__file__)))
COQ = os.path.join(VERIF, "coq")
REPO = os.environ.get("VERIF_REPO", "/repo")
# experiments against a scratch tree (VERIF_REPO set) must not overwrite the committed evidence
EVDIR = os.path.join(VERIF, "evidence") if os.path.realpath(REPO) == "/repo" else os.path.join(VERIF, "work", "alt-evidence")
sys.path.insert(0, REPO)
sys.path.insert(0, os.path.join(VERIF, "harness"))
os.environ.setdefault("PYTHONHASHSEED", "0")

JOBS = int(os.environ.get("VERIF_JOBS", os.cpu_count() or 4))

ALLOWED_AXIOMS = {
    # Coq standard library axioms (Reals, functional extensionality, classical logic)
    "ClassicalDedekindReals.sig_forall_dec", "ClassicalDedekindReals.sig_not_dec",
    "FunctionalExtensionality.functional_extensionality_dep",
    "Classical_Prop.classic", "ProofIrrelevance.proof_irrelevance",
    "Eqdep.Eq_rect_eq.eq_rect_eq", "JMeq.JMeq_eq",
    "ClassicalEpsilon.constructive_indefinite_description",
    "IndefiniteDescription.constructive_indefinite_description",
    "PropExtensionality.propositional_extensionality",
}
FORBIDDEN = re.compile(r"\b(Admitted|admit|Axiom|Axioms|Parameter|Parameters|Conjecture|Hypothesis|Hypotheses|Variable|Variables|"
                       r"Admit Obligations|bypass_check|Unset Guard Checking|Unset Positivity Checking|"
                       r"Unset Universe Checking|type-in-type|impredicative-set|native_compute)\b")


class Family(object):
    """One correspondence family: generator, implementation runner, Gallina check, oracle."""
    name = "family"
    imports = ()          # Coq modules (under NV.) the rendered checks need
    count = {"quick": 100, "thorough": 1000}
    has_oracle = False
    timeout = 20

    def gen(self, rng, n):          # -> list of JSON-able cases
        raise NotImplementedError

    def impl(self, case):           # -> JSON-able outcome {'ok':..}|{'rej':..}|{'crash':..}
        raise NotImplementedError

    def coq(self, case, out):       # -> Gallina bool expression (True = model agrees) or None to skip
        return None

    def oracle(self, case, out):    # -> None if the property holds on this case, else a message
        return None

    def nontrivial(self, case, out):
        return "ok" in out

    def stratum(self, case, out):
        return "ok" if "ok" in out else ("rej" if "rej" in out else "crash")


class Timeout(Exception):
    pass


def _alarm(signum, frame):
    raise Timeout()


def call(fn, *a, **kw):
    """Run an implementation call and classify its outcome."""
    from geomdl.exceptions import GeomdlException
    try:
        return {"ok": fn(*a, **kw)}
    except Timeout:
        raise
    except (GeomdlException, ValueError) as e:
        return {"rej": "%s: %s" % (type(e).__name__, str(e)[:120])}
    except Exception as e:
        return {"crash": "%s: %s" % (type(e).__name__, str(e)[:120])}


def run_impl(fam, case):
    signal.signal(signal.SIGALRM, _alarm)
    signal.alarm(fam.timeout)
    try:
        return fam.impl(case)
    except Timeout:
        return {"crash": "Timeout"}
    except Exception as e:
        return {"crash": "harness:%s: %s" % (type(e).__name__, str(e)[:200])}
    finally:
        signal.alarm(0)


# ---------------------------------------------------------------- Coq side
def sh(cmd, timeout, cwd=None):
    p = subprocess.run(cmd, shell=True, cwd=cwd, stdout=subprocess.PIPE, stderr=subprocess.STDOUT, timeout=timeout)
    return p.returncode, p.stdout.decode("utf-8", "replace")


def coq_sources():
    out = []
    for d, _, fs in os.walk(COQ):
        for f in fs:
            if f.endswith(".v"):
                out.append(os.path.relpath(os.path.join(d, f), COQ))
    return sorted(out)


def forbidden_scan(files=None):
    bad = []
    for f in (files if files is not None else coq_sources()):
        txt = open(os.path.join(COQ, f)).read()
        txt = re.sub(r"\(\*.*?\*\)", "", txt, flags=re.S)
        for m in FORBIDDEN.finditer(txt):
            w = m.group(1)
            if w in ("Variable", "Variables", "Hypothesis", "Hypotheses"):
                # allowed only inside a Section: approximate by requiring an enclosing Section..End pair
                pre = txt[:m.start()]
                if len(re.findall(r"^\s*Section\s+\w+", pre, flags=re.M)) > len(re.findall(r"^\s*End\s+\w+", pre, flags=re.M)):
                    continue
            bad.append("%s: %s" % (f, w))
    return bad


COQC = "timeout 3000 coqc -Q . NV -w -notation-overridden,-deprecated-hint-without-locality,-deprecated-instance-without-locality "


def coq_deps(rel):
    """NV-internal dependencies of a source file (relative paths), from its Require lines."""
    txt = re.sub(r"\(\*.*?\*\)", "", open(os.path.join(COQ, rel)).read(), flags=re.S)
    deps = []
    for m in re.finditer(r"From\s+NV\s+Require\s+(?:Import\s+|Export\s+)?(.*?)\.(?=\s)", txt, flags=re.S):
        for mod in m.group(1).split():
            f = mod.replace(".", "/") + ".v"
            if os.path.exists(os.path.join(COQ, f)):
                deps.append(f)
    for m in re.finditer(r"(?<!NV\s)Require\s+(?:Import\s+|Export\s+)?((?:NV\.[\w.]+\s*)+)\.(?=\s)", txt):
        for mod in m.group(1).split():
            f = mod[3:].replace(".", "/") + ".v"
            if os.path.exists(os.path.join(COQ, f)):
                deps.append(f)
    return deps


def ensure_built(rel, log, seen=None):
    """Compile rel (and, first, everything it depends on) if its .vo is missing or stale. Returns newest mtime or None on error."""
    seen = {} if seen is None else seen
    if rel in seen:
        return seen[rel]
    seen[rel] = None
    newest = os.path.getmtime(os.path.join(COQ, rel))
    for d in coq_deps(rel):
        t = ensure_built(d, log, seen)
        if t is None:
            return None
        newest = max(newest, t)
    vo = os.path.join(COQ, rel + "o")
    if not os.path.exists(vo) or os.path.getmtime(vo) < newest:
        rc, out = sh(COQC + rel, 3100, COQ)
        if rc != 0 or not os.path.exists(vo):
            log.append("coqc %s failed:\n%s" % (rel, out[-1500:]))
            return None
    seen[rel] = os.path.getmtime(vo)
    return seen[rel]


def build_coq(log, prop):
    """Build (full .vo compilation) Props/<prop>.v and its dependency closure, under a lock."""
    lock = open(os.path.join(COQ, ".lock"), "w")
    fcntl.flock(lock, fcntl.LOCK_EX)
    try:
        rel = "Props/%s.v" % prop
        if not os.path.exists(os.path.join(COQ, rel)):
            log.append("missing " + rel)
            return False
        seen = {}
        ok = ensure_built(rel, log, seen) is not None
        build_coq.closure = sorted(seen.keys())
        return ok
    finally:
        fcntl.flock(lock, fcntl.LOCK_UN)
        lock.close()


def check_props(prop, log):
    """Re-compile Props/<prop>.v (cheap: only 'exact lemma') and read its Print Assumptions output."""
    f = os.path.join(COQ, "Props", prop + ".v")
    res = {"file": "coq/Props/%s.v" % prop, "theorems": [], "axioms": [], "ok": False, "errors": []}
    if not os.path.exists(f):
        res["errors"].append("missing Props file")
        return res
    src = re.sub(r"\(\*.*?\*\)", "", open(f).read(), flags=re.S)
    thms = re.findall(r"^\s*(?:Theorem|Corollary)\s+(\w+)", src, flags=re.M)
    printed = re.findall(r"Print Assumptions\s+(\w+)", src)
    res["theorems"] = thms
    for t in thms:
        if t not in printed:
            res["errors"].append("theorem %s has no Print Assumptions" % t)
    cmd = "timeout 1200 coqc -Q . NV -w -notation-overridden,-deprecated-hint-without-locality Props/%s.v" % prop
    res["checker_cmd"] = "cd coq && make && " + cmd
    if os.environ.get("VERIF_TIER_NOW") == "thorough" or os.environ.get("VERIF_RECOMPILE_PROPS"):
        # thorough tier: compile the theorem file once more from scratch and read the Print Assumptions it contains
        rc, out = sh(cmd, 1260, COQ)
        res["props_compiled"] = "recompiled in this run"
    else:
        # quick tier: build_coq has just brought Props/<prop>.vo up to date with its whole dependency closure (compiled by coqc in
        # this run if any source was newer); load that .vo and print the assumptions of every theorem by its qualified name
        pa = os.path.join(COQ, "PA_%s_%d.v" % (prop, os.getpid()))
        with open(pa, "w") as fh:
            fh.write("From NV Require Props.%s.\n" % prop + "".join("Print Assumptions NV.Props.%s.%s.\n" % (prop, t) for t in thms))
        try:
            rc, out = sh("timeout 600 coqc -Q . NV -w none %s" % os.path.basename(pa), 660, COQ)
        finally:
            for ext in (".v", ".vo", ".vok", ".vos", ".glob"):
                try:
                    os.remove(pa[:-2] + ext)
                except OSError:
                    pass
            try:
                os.remove(os.path.join(COQ, "." + os.path.basename(pa)[:-2] + ".aux"))
            except OSError:
                pass
        res["props_compiled"] = "Props/%s.vo brought up to date by coqc against its dependency closure in this run or an earlier one (mtime check), assumptions printed from the loaded .vo" % prop
    if rc != 0:
        res["errors"].append("coqc failed: " + out[-1500:])
        return res
    axioms = set()
    for line in out.splitlines():
        m = re.match(r"^([A-Za-z_][\w.']*)\s*(?::|$)", line)
        if m and m.group(1) != "Axioms":
            axioms.add(m.group(1))
    res["axioms"] = sorted(axioms)
    for a in axioms:
        if a not in ALLOWED_AXIOMS:
            res["errors"].append("axiom outside allow-list: " + a)
    res["closed"] = out.count("Closed under the global context")
    res["ok"] = not res["errors"]
    return res


HEADER = """From Coq Require Import List QArith ZArith Bool.
From NV Require Import Scalar.Ops Model.Common Run.Harness%s.
Import ListNotations.
Set Printing Width 1000000. Set Printing Depth 1000000.
"""


def coq_eval(work, exprs, imports, shard=None, show=False):
    """exprs: list of Gallina bool terms. Returns (list of bad indices, error text or None)."""
    os.makedirs(work, exist_ok=True)
    if shard is None:
        shard = min(250, max(10, -(-len(exprs) // JOBS)))
    imp = "".join(" " + i for i in sorted(set(imports)))
    files = []
    nsh = -(-len(exprs) // shard)
    for k in range(nsh):
        name = "cases_%d" % k
        with open(os.path.join(work, name + ".v"), "w") as fh:
            fh.write(HEADER % imp)
            fh.write("Definition checks : list bool := [\n")
            fh.write(";\n".join(exprs[k::nsh]))
            fh.write("\n].\nEval vm_compute in bad_idx checks.\n")
        files.append((k, name))
    procs = []
    bad, err = [], None
    maxp = JOBS
    pending = list(files)
    running = []
    results = {}
    while pending or running:
        while pending and len(running) < maxp:
            k, name = pending.pop(0)
            p = subprocess.Popen("ulimit -s unlimited 2>/dev/null; timeout 900 coqc -Q %s NV -w none %s.v" % (COQ, name), shell=True, cwd=work,
                                 stdout=subprocess.PIPE, stderr=subprocess.STDOUT)
            running.append((k, name, p))
        k, name, p = running.pop(0)
        out = p.communicate()[0].decode("utf-8", "replace")
        results[k] = (p.returncode, out)
    for k, name in files:
        rc, out = results[k]
        m = re.search(r"=\s*\[(.*?)\]\s*:\s*list nat", out, flags=re.S)
        if rc != 0 or not m:
            err = (err or "") + "shard %s: rc=%s %s\n" % (name, rc, out[-2000:])
            continue
        body = m.group(1).strip()
        if body:
            bad += [k + nsh * int(x.replace("%nat", "").strip()) for x in body.split(";")]
    return bad, err


def coq_show(work, expr, imports):
    os.makedirs(work, exist_ok=True)
    imp = "".join(" " + i for i in sorted(set(imports)))
    with open(os.path.join(work, "show.v"), "w") as fh:
        fh.write(HEADER % imp)
        fh.write("Eval vm_compute in (%s).\n" % expr)
    rc, out = sh("timeout 300 coqc -Q %s NV -w none show.v" % COQ, 330, work)
    return out[-3000:]



# ---------------------------------------------------------------- measured tie: line coverage of the anchored files
class Coverage(object):
    """Line coverage of geomdl source files while the implementation side of the correspondence runs (thorough tier)."""
    def __init__(self, root):
        self.root = os.path.join(os.path.realpath(root), "geomdl")
        self.hits = set()
        self._files = {}

    def _local(self, frame, event, arg):
        if event == "line":
            self.hits.add((frame.f_code.co_filename, frame.f_lineno))
        return self._local

    def _global(self, frame, event, arg):
        if event != "call":
            return None
        fn = frame.f_code.co_filename
        hit = self._files.get(fn)
        if hit is None:
            hit = self._files[fn] = os.path.realpath(fn).startswith(self.root)
        return self._local if hit else None

    def start(self):
        sys.settrace(self._global)

    def stop(self):
        sys.settrace(None)

    def report(self, files):
        out = {}
        for rel in files:
            path = os.path.join(os.path.dirname(self.root), rel)
            if not os.path.exists(path):
                continue
            try:
                code = compile(open(path).read(), path, "exec")
            except Exception:
                continue
            funcs = []

            def walk(co, qual):
                lines = set(l for _, _, l in co.co_lines() if l is not None)
                for c in co.co_consts:
                    if hasattr(c, "co_code"):
                        sub = walk(c, (qual + "." if qual else "") + c.co_name)
                        lines -= sub
                if qual:
                    funcs.append((qual, lines))
                return set(l for _, _, l in co.co_lines() if l is not None)
            walk(code, "")
            hit_lines = set(l for f, l in self.hits if os.path.realpath(f) == os.path.realpath(path))
            total = sum(len(ls) for _, ls in funcs)
            hit = sum(len(ls & hit_lines) for _, ls in funcs)
            never = sorted(q for q, ls in funcs if ls and not (ls & hit_lines) and not q.split(".")[-1].startswith("<"))
            out[rel] = {"function_lines_executed": hit, "function_lines_total": total,
                        "functions_never_executed": never[:60], "functions_never_executed_count": len(never)}
        return out

# ---------------------------------------------------------------- known findings
def load_known(prop):
    out = []
    paths = [os.path.join(VERIF, "known_findings.json")]
    d = os.path.join(VERIF, "known_findings.d")
    if os.path.isdir(d):
        paths += [os.path.join(d, f) for f in sorted(os.listdir(d)) if f.endswith(".json")]
    for p in paths:
        if os.path.exists(p):
            out += [f for f in json.load(open(p)).get("findings", []) if f["property"] == prop]
    return out


def match_known(known, famname, case, out):
    for f in known:
        if f.get("family") not in (None, famname):
            continue
        try:
            if eval(f["match"], {"__builtins__": {"len": len, "abs": abs, "min": min, "max": max, "any": any, "all": all, "str": str, "int": int, "isinstance": isinstance, "list": list, "dict": dict, "set": set, "sum": sum}}, {"case": case, "out": out}):
                return f
        except Exception:
            continue
    return None


# ---------------------------------------------------------------- main
def translator_tie(mod, log):
    """Second tie (translator): regenerate the Gallina rendering of the Python functions this property's model rests on
    (harness/pytrans.py, from REPO's current source) and compare it, function by function, with the committed coq/Gen/*.v that the
    tie theorems (Proofs/GenTie*.v, restated in Props/Cxx.v) are about.  Returns None when the property has no translated functions."""
    fns = getattr(mod, "TRANSLATED", None)
    if not fns:
        return None
    rc, out = sh("/venv/bin/python -B %s --repo %s --check" % (os.path.join(VERIF, "harness", "pytrans.py"), REPO), 300, VERIF)
    status = {}
    for line in out.splitlines():
        m = re.match(r"^(SAME|DIFF|UNTRANSLATABLE) (\S+?)(?::\s*(.*))?$", line.strip())
        if m:
            status[m.group(2)] = m.group(1) + ((": " + m.group(3)) if m.group(3) else "")
    res = dict((f, status.get(f, "MISSING")) for f in fns)
    if rc != 0 and all(v == "SAME" for v in res.values()) and not status:
        res = dict((f, "TRANSLATOR-FAILED: " + out.strip()[-300:]) for f in fns)
    return {"functions": res, "all_same": all(v == "SAME" for v in res.values()),
            "changed": sorted(f for f, v in res.items() if v != "SAME")}


def anchor_files(prop):
    for l in open(os.path.join(VERIF, "properties.jsonl")):
        p = json.loads(l)
        if p["id"] == prop:
            return p["anchors"]["files"]
    return []


def case_hash(obj):
    return hashlib.sha1(json.dumps(obj, sort_keys=True, default=str).encode()).hexdigest()[:12]


def write_replay(prop, payload):
    d = os.path.join(EVDIR, "replay")
    os.makedirs(d, exist_ok=True)
    path = os.path.join(d, "%s-%s.json" % (prop, case_hash(payload)))
    json.dump(payload, open(path, "w"), indent=1, sort_keys=True, default=str)
    return os.path.relpath(path, VERIF)


def load_module(prop):
    return importlib.import_module("props." + prop)


def main(argv):
    import argparse
    ap = argparse.ArgumentParser()
    ap.add_argument("prop")
    ap.add_argument("--tier", default=os.environ.get("VERIF_TIER", "quick"))
    ap.add_argument("--replay")
    ap.add_argument("--no-proof", action="store_true", help="debug: skip the Coq build")
    ap.add_argument("--family", help="debug: only this family")
    a = ap.parse_args(argv)
    prop, tier = a.prop, a.tier
    global EVDIR
    if a.no_proof or a.family:
        EVDIR = os.path.join(VERIF, "work", "alt-evidence")   # debug runs never touch the committed evidence
    seed = int(os.environ.get("VERIF_SEED", "20260928"))
    t0 = time.time()
    mod = load_module(prop)
    fams = [f for f in mod.families() if not a.family or f.name == a.family]
    by_name = dict((f.name, f) for f in fams)
    work = os.path.join(VERIF, "work", "%s-%d" % (prop, os.getpid()))

    if a.replay:
        return replay(prop, a.replay, by_name, work)

    os.environ["VERIF_TIER_NOW"] = tier
    log = []
    violations = []   # (payload, found_input: bool)
    known_lines = []
    known = load_known(prop)

    # 1. proofs
    proof = {"ok": True, "theorems": [], "axioms": [], "errors": [], "checker_cmd": "skipped"}
    if not a.no_proof:
        built = build_coq(log, prop)
        bad_tokens = forbidden_scan(getattr(build_coq, 'closure', None))
        proof = check_props(prop, log) if built else {"ok": False, "theorems": [], "axioms": [], "errors": ["coq build failed: " + "\n".join(log)[-1500:]], "checker_cmd": "make"}
        if bad_tokens:
            proof["ok"] = False
            proof["errors"].append("forbidden tokens: " + ", ".join(bad_tokens))

    tie = None if a.no_proof else translator_tie(mod, log)
    tie_broken = bool(tie) and not tie["all_same"]

    # 2. correspondence cases
    records = []   # (fam, case, out)
    corpus_dir = os.path.join(VERIF, "corpus", prop)
    if os.path.isdir(corpus_dir):
        for fn in sorted(os.listdir(corpus_dir)):
            try:
                c = json.load(open(os.path.join(corpus_dir, fn)))
                if c["family"] in by_name:
                    records.append([by_name[c["family"]], c["case"], None])
            except Exception as e:
                log.append("corpus %s: %s" % (fn, e))
    ncorpus = len(records)
    for fam in fams:
        rng = random.Random("%d/%s/%s" % (seed, prop, fam.name))
        n = fam.count.get(tier, fam.count["quick"])
        for case in fam.gen(rng, n):
            records.append([fam, case, None])
    t_a = time.time()
    cov = Coverage(REPO) if (tier == "thorough" or os.environ.get("VERIF_COVERAGE")) else None
    if cov:
        cov.start()
    try:
        for r in records:
            r[2] = run_impl(r[0], r[1])
    finally:
        if cov:
            cov.stop()
    t_b = time.time()

    exprs, idx = [], []
    imports = set()
    harness_errors = []
    for i, (fam, case, out) in enumerate(records):
        try:
            e = fam.coq(case, out)
        except Exception as ex:
            harness_errors.append("render %s: %s" % (fam.name, traceback.format_exc()[-400:]))
            e = None
        if e is not None:
            exprs.append(e)
            idx.append(i)
            imports.update(fam.imports)
    # the modules the generated case files import must be up to date too (they need not be in the closure of Props/Cxx.v)
    if exprs:
        lock = open(os.path.join(COQ, ".lock"), "w")
        fcntl.flock(lock, fcntl.LOCK_EX)
        try:
            seen = {}
            for mod_ in sorted(set(imports) | {"Run.Harness"}):
                if ensure_built(mod_.replace(".", "/") + ".v", log, seen) is None:
                    harness_errors.append("cannot build %s: %s" % (mod_, "\n".join(log)[-800:]))
        finally:
            fcntl.flock(lock, fcntl.LOCK_UN)
            lock.close()
    bad, cerr = coq_eval(work, exprs, imports) if exprs else ([], None)
    if cerr:
        harness_errors.append(cerr)
    disagreements = [idx[b] for b in bad]
    t_c = time.time()

    # 3. property oracle on the implementation's outputs
    oracle_fail = []
    for i, (fam, case, out) in enumerate(records):
        if fam.has_oracle:
            try:
                msg = fam.oracle(case, out)
            except Exception as ex:
                msg = None
                harness_errors.append("oracle %s: %s" % (fam.name, traceback.format_exc()[-400:]))
            if msg:
                oracle_fail.append((i, msg))

    t_d = time.time()
    # 4. classify
    seen_known = {}
    reported = set()
    for i, msg in oracle_fail:
        fam, case, out = records[i]
        kf = match_known(known, fam.name, case, out)
        if kf:
            seen_known.setdefault(kf["id"], (kf, case, msg))
            continue
        key = (fam.name, msg.split(":")[0])
        if key in reported and len(violations) >= 5:
            continue
        reported.add(key)
        violations.append(({"property": prop, "kind": "failing-input", "family": fam.name, "case": case,
                            "observed": out, "oracle": msg, "seed": seed}, True))
    unexplained = []
    for i in disagreements:
        fam, case, out = records[i]
        if any(i == j for j, _ in oracle_fail):
            continue
        kf = match_known(known, fam.name, case, out)
        if kf:
            seen_known.setdefault(kf["id"], (kf, case, "model/implementation disagreement in known class"))
            continue
        unexplained.append(i)
    # a changed translation (the source of a translated function changed) does not by itself say the property fails: the
    # correspondence above still ties the model to the code; it triggers the search for a failing input
    need_search = bool(unexplained) or not proof["ok"] or tie_broken or bool(os.environ.get("VERIF_FORCE_SEARCH"))   # (soak runs)
    searched = 0
    if need_search and not any(v[1] for v in violations):
        # look for a concrete failing input of the property itself with the exact oracles
        budget = 4 if tier == "quick" else 10
        found = None
        for rnd in range(budget):
            for fam in fams:
                if not fam.has_oracle:
                    continue
                rng = random.Random("search/%d/%d/%s" % (seed, rnd, fam.name))
                for case in fam.gen(rng, fam.count.get(tier, 100)):
                    out = run_impl(fam, case)
                    searched += 1
                    msg = fam.oracle(case, out)
                    if msg and not match_known(known, fam.name, case, out):
                        found = (fam, case, out, msg)
                        break
                if found:
                    break
            if found:
                break
        if found:
            fam, case, out, msg = found
            violations.append(({"property": prop, "kind": "failing-input", "family": fam.name, "case": case,
                                "observed": out, "oracle": msg, "seed": seed, "found_by": "search"}, True))
    if not any(v[1] for v in violations):
        for i in unexplained[:3]:
            fam, case, out = records[i]
            shown = None
            if hasattr(fam, "coq_show"):
                try:
                    shown = coq_show(work, fam.coq_show(case, out), fam.imports)
                except Exception:
                    shown = None
            violations.append(({"property": prop, "kind": "unchecked", "correspondence": "%s/%s" % (prop, fam.name),
                                "case": case, "observed": out, "model": shown, "seed": seed,
                                "note": "model and implementation disagree; no input on which the property itself fails was found (searched %d extra cases)" % searched}, False))
        if not proof["ok"]:
            violations.append(({"property": prop, "kind": "unchecked", "theorem_file": "coq/Props/%s.v" % prop,
                                "errors": proof["errors"], "seed": seed,
                                "note": "proof obligations no longer check; no failing input found (searched %d extra cases)" % searched}, False))
    if harness_errors:
        violations.append(({"property": prop, "kind": "unchecked", "harness_errors": harness_errors[:5], "seed": seed}, False))
    if tie_broken and not violations and os.environ.get("VERIF_STRICT_TIE"):
        # strict reading: a tie theorem that no longer applies is reported even though the correspondence still holds
        violations.append(({"property": prop, "kind": "unchecked", "translator_tie": tie["changed"], "seed": seed,
                            "theorems": "coq/Proofs/GenTie*.v (model = translation) for " + ", ".join(tie["changed"]),
                            "note": "the source of these functions differs from the committed translation coq/Gen/*.v, so their tie theorems no longer "
                                    "apply; correspondence and oracles found no failing input (searched %d extra cases)" % searched}, False))

    # known findings: replay each listed witness
    for kf in known:
        fam = by_name.get(kf.get("family"))
        line = "KNOWN-FINDING: property=%s %s: %s" % (prop, kf["id"], kf["what"])
        if fam is not None and "witness" in kf:
            out = run_impl(fam, kf["witness"])
            msg = fam.oracle(kf["witness"], out) if fam.has_oracle else None
            if not msg:
                line += " (witness no longer reproduces)"
        known_lines.append(line)

    # 5. evidence
    nontriv = set()
    strata = {}
    for fam, case, out in records:
        st = fam.name + "/" + fam.stratum(case, out)
        strata[st] = strata.get(st, 0) + 1
        try:
            if fam.nontrivial(case, out):
                nontriv.add(fam.name + case_hash(case))
        except Exception:
            pass
    samples = []
    seenf = set()
    for fam, case, out in records:
        if fam.name not in seenf:
            seenf.add(fam.name)
            samples.append({"family": fam.name, "case": case, "impl_outcome": trunc(out)})
    nthm = len(proof.get("theorems", []))
    ev = {
        "property_id": prop, "tier": tier, "seed": seed, "level": "proof",
        "coverage": {
            "obligations": max(nthm, 1), "discharged": nthm if proof["ok"] else 0,
            "checker_cmd": proof.get("checker_cmd", ""),
            "trusted_base": trusted_base(proof),
            "theorems": proof.get("theorems", []), "axioms_reported_by_Print_Assumptions": proof.get("axioms", []),
            "proof_errors": proof.get("errors", []), "props_compiled": proof.get("props_compiled", ""),
            "evaluations": len(records), "model_evaluations_in_coq": len(exprs),
            "distinct_nontrivial": len(nontriv),
            "rule": getattr(mod, "RULE", "cases are drawn from structured generators (one PRNG seeded by VERIF_SEED); non-trivial = implementation returned a value (not an error) ; distinct by case hash"),
            "samples": samples[:12], "strata": strata, "corpus_cases": ncorpus,
            "disagreements": len(disagreements), "oracle_failures": len(oracle_fail), "oracle_checked": sum(1 for r in records if r[0].has_oracle),
            "known_findings_seen": sorted(seen_known.keys()), "search_cases": searched,
            "theorem_notes": getattr(mod, "THEOREM_NOTES", ""),
            "translator_tie": (tie if tie else "no function of this property is covered by the translator (tie by correspondence only)"),
            "anchored_code_tied_by_this_run": (cov.report(anchor_files(prop)) if cov else "measured in the thorough tier (line coverage of the anchored files while the implementation side of the correspondence runs)"),
        },
        "assumptions": getattr(mod, "ASSUMPTIONS", []),
        "wall_s": round(time.time() - t0, 2),
        "violations": len(violations),
    }
    os.makedirs(EVDIR, exist_ok=True)
    json.dump(ev, open(os.path.join(EVDIR, prop + ".json"), "w"), indent=1, sort_keys=True, default=str)
    shutil.rmtree(work, ignore_errors=True)

    for l in known_lines:
        print(l)
    if tie_broken:
        print("NOTE: translator tie not re-established for %s (their source differs from the committed translation coq/Gen/*.v); "
              "searched %d extra cases for a failing input; the model stays tied to the code by the correspondence check" % (", ".join(tie["changed"]), searched))
    print("%s tier=%s theorems=%d proof_ok=%s cases=%d coq_checked=%d disagreements=%d oracle_failures=%d nontrivial=%d wall=%.1fs (impl %.1f coq %.1f oracle %.1f)" % (
        prop, tier, nthm, proof["ok"], len(records), len(exprs), len(disagreements), len(oracle_fail), len(nontriv), time.time() - t0, t_b - t_a, t_c - t_b, t_d - t_c))
    if violations:
        for payload, found in violations[:6]:
            path = write_replay(prop, payload)
            print("VIOLATION property=%s replay=%s%s" % (prop, path, "" if found else " no-failing-input-found"))
        return 1
    return 0


def trunc(o, n=600):
    s = json.dumps(o, default=str)
    return o if len(s) <= n else s[:n] + "..."


def trusted_base(proof):
    return [
        "Coq 8.16.1 kernel (coqc, full .vo build; vm_compute used for model evaluation and finite-domain theorems; no native_compute)",
        "axioms reported by Print Assumptions: " + (", ".join(proof.get("axioms", [])) or "none (closed under the global context)"),
        "Paramcoq plugin (generated parametricity terms are re-checked by the kernel)",
        "hand-written Gallina model under coq/Model, tied to /repo by the sampled correspondence check of this run (tolerance 1e-9 for floats)",
        "Python harness (generators, canonicalisation, exact Fraction oracles) and /venv/bin/python",
        "IEEE-754 rounding, math.sqrt/sin/cos, str(float) round trips: modelled as exact, not verified",
    ]


def replay(prop, path, by_name, work):
    payload = json.load(open(path if os.path.isabs(path) else os.path.join(VERIF, path)))
    print(json.dumps({k: payload[k] for k in payload if k not in ("observed",)}, indent=1, default=str)[:3000])
    famname = payload.get("family") or payload.get("correspondence", "/").split("/")[-1]
    fam = by_name.get(famname)
    if fam is None or "case" not in payload:
        print("nothing executable to replay (unchecked obligation)")
        return 1
    out = run_impl(fam, payload["case"])
    print("implementation now:", trunc(out, 2000))
    rc = 0
    if fam.has_oracle:
        msg = fam.oracle(payload["case"], out)
        print("oracle:", msg or "property holds on this input")
        rc = 1 if msg else 0
    e = fam.coq(payload["case"], out)
    if e is not None:
        bad, err = coq_eval(work, [e], fam.imports)
        print("model agrees with implementation:", not bad and not err)
        if bad or err:
            rc = 1
            if hasattr(fam, "coq_show"):
                print("model value:", coq_show(work, fam.coq_show(payload["case"], out), fam.imports))
    shutil.rmtree(work, ignore_errors=True)
    if rc:
        print("VIOLATION property=%s replay=%s" % (prop, path))
    return rc


if __name__ == "__main__":
    sys.exit(main(sys.argv[1:]))
