"""Builders for geomdl objects from JSON-able case dicts + exact tensor-product evaluation oracles."""
from fractions import Fraction as F
import gencommon as gc


def weighted(P, W):
    """homogeneous control points [x*w, ..., w]"""
    return [[c * w for c in p] + [w] for p, w in zip(P, W)]


def make_curve(c):
    from geomdl import BSpline, NURBS
    kw = {} if c.get("normalize", True) else {"normalize_kv": False}
    if c.get("precision"):
        kw["precision"] = c["precision"]
    if c.get("rational"):
        o = NURBS.Curve(**kw)
        o.degree = c["p"]
        o.ctrlptsw = weighted(c["P"], c["W"])
    else:
        o = BSpline.Curve(**kw)
        o.degree = c["p"]
        o.ctrlpts = [list(p) for p in c["P"]]
    o.knotvector = list(c["U"])
    return o


def make_surface(c):
    from geomdl import BSpline, NURBS
    kw = {} if c.get("normalize", True) else {"normalize_kv": False}
    if c.get("rational"):
        o = NURBS.Surface(**kw)
        o.degree_u, o.degree_v = c["pu"], c["pv"]
        o.set_ctrlpts(weighted(c["P"], c["W"]), c["su"], c["sv"])
    else:
        o = BSpline.Surface(**kw)
        o.degree_u, o.degree_v = c["pu"], c["pv"]
        o.set_ctrlpts([list(p) for p in c["P"]], c["su"], c["sv"])
    o.knotvector_u = list(c["Uu"])
    o.knotvector_v = list(c["Uv"])
    return o


def make_volume(c):
    from geomdl import BSpline, NURBS
    kw = {} if c.get("normalize", True) else {"normalize_kv": False}
    if c.get("rational"):
        o = NURBS.Volume(**kw)
        o.degree_u, o.degree_v, o.degree_w = c["pu"], c["pv"], c["pw"]
        o.set_ctrlpts(weighted(c["P"], c["W"]), c["su"], c["sv"], c["sw"])
    else:
        o = BSpline.Volume(**kw)
        o.degree_u, o.degree_v, o.degree_w = c["pu"], c["pv"], c["pw"]
        o.set_ctrlpts([list(p) for p in c["P"]], c["su"], c["sv"], c["sw"])
    o.knotvector_u = list(c["Uu"])
    o.knotvector_v = list(c["Uv"])
    o.knotvector_w = list(c["Uw"])
    return o


# ---------------------------------------------------------------- exact definition-level evaluation
def basis_row(U, p, n, u):
    """all n basis function values N_{i,p}(u), i < n, by the Cox-de Boor definition; at the right domain end the
    limit from the left (value of the last non-empty span's polynomials)."""
    U = gc.fr(U)
    u = F(u)
    if u >= U[n]:
        k = gc.exact_span(U, p, n, u)
        Ns = gc.basis_closed(U, p, k, u)
        row = [F(0)] * n
        for j in range(p + 1):
            row[k - p + j] = Ns[j]
        return row
    return [gc.cdb(U, p, i, u) for i in range(n)]


def curve_def(c, U, u):
    """definition-level point: sum over ALL i of N_i(u) P_i (/ weight function)"""
    n = len(c["P"])
    row = basis_row(U, c["p"], n, u)
    dim = len(c["P"][0])
    if c.get("rational"):
        den = sum(row[i] * F(c["W"][i]) for i in range(n))
        return [sum(row[i] * F(c["W"][i]) * F(c["P"][i][d]) for i in range(n)) / den for d in range(dim)]
    return [sum(row[i] * F(c["P"][i][d]) for i in range(n)) for d in range(dim)]


def surface_def(c, Uu, Uv, u, v):
    su, sv = c["su"], c["sv"]
    ru = basis_row(Uu, c["pu"], su, u)
    rv = basis_row(Uv, c["pv"], sv, v)
    dim = len(c["P"][0])
    W = c["W"] if c.get("rational") else [1] * (su * sv)
    num = [F(0)] * dim
    den = F(0)
    for i in range(su):
        if ru[i] == 0:
            continue
        for j in range(sv):
            b = ru[i] * rv[j]
            if b == 0:
                continue
            w = F(W[j + sv * i])
            den += b * w
            for d in range(dim):
                num[d] += b * w * F(c["P"][j + sv * i][d])
    return [x / den for x in num]


def volume_def(c, Uu, Uv, Uw, u, v, w):
    su, sv, sw = c["su"], c["sv"], c["sw"]
    ru = basis_row(Uu, c["pu"], su, u)
    rv = basis_row(Uv, c["pv"], sv, v)
    rw = basis_row(Uw, c["pw"], sw, w)
    dim = len(c["P"][0])
    W = c["W"] if c.get("rational") else [1] * (su * sv * sw)
    num = [F(0)] * dim
    den = F(0)
    for k in range(sw):
        if rw[k] == 0:
            continue
        for i in range(su):
            if ru[i] == 0:
                continue
            for j in range(sv):
                b = ru[i] * rv[j] * rw[k]
                if b == 0:
                    continue
                idx = j + sv * (i + su * k)
                wt = F(W[idx])
                den += b * wt
                for d in range(dim):
                    num[d] += b * wt * F(c["P"][idx][d])
    return [x / den for x in num]
