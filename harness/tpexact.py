"""Exact (Fraction) tensor-product B-spline / NURBS evaluation, shape generators and builders shared by the
C10 / C17 / C18 checks.  A shape is a JSON-able dict:
  {"kind": "curve"|"surface"|"volume", "rational": bool, "dim": d, "degree": [p..], "size": [n..],
   "kv": [[..]..], "ctrlpts": [[..]..] (unweighted, flat; v fastest, then u, then w), "weights": [..]|None, "kvkind": [...]}
All numbers are floats that are exactly representable (dyadic), so Fraction(x) is the value geomdl works with."""
from fractions import Fraction as F
import math
import gencommon as gc
import gal as G

PD = {"curve": 1, "surface": 2, "volume": 3}


# ------------------------------------------------------------------ generation
def kv01(rng, p, kind=None, nint=None, grid=16):
    """knot vector inside [0,1] with dyadic entries (knotvector.normalize is then the identity)"""
    kind = kind or rng.choice(["uniform", "mult", "mult", "uniform", "unclamped"])
    if kind == "unclamped":
        if nint is None:
            nint = rng.choice([0, 1, 2, 3])
        m = 2 * (p + 1) + nint
        vals = sorted(rng.sample(range(1, 64), m - 2))
        vals = [0] + vals + [64]
        if rng.random() < 0.3 and m > 2 * p + 3:
            j = rng.randint(p + 1, m - p - 2)
            vals[j] = vals[j - 1]
            vals = sorted(vals)
        return [v / 64.0 for v in vals], kind
    U, kind = gc.knotvector(rng, p, kind=kind, nint=nint, grid=grid)
    return U, kind


def random_shape(rng, kind=None, rational=None, dim=None, maxdeg=None, kvkinds=None, lim=8):
    kind = kind or rng.choice(["curve", "curve", "surface", "surface", "volume"])
    pd = PD[kind]
    rational = rng.random() < 0.45 if rational is None else rational
    dim = dim or (rng.choice([2, 3, 3]) if kind == "curve" else 3)
    maxdeg = maxdeg or {1: 5, 2: 3, 3: 2}[pd]
    degree, kvs, sizes, kk = [], [], [], []
    for _ in range(pd):
        p = rng.randint(1, maxdeg)
        nint = rng.choice([0, 1, 2, 3]) if pd < 3 else rng.choice([0, 1, 2])
        U, k = kv01(rng, p, kind=(rng.choice(kvkinds) if kvkinds else None), nint=nint)
        degree.append(p)
        kvs.append(U)
        sizes.append(len(U) - p - 1)
        kk.append(k)
    n = 1
    for s in sizes:
        n *= s
    P = gc.points(rng, n, dim, grid=8, lim=lim)
    W = gc.weights(rng, n) if rational else None
    return {"kind": kind, "rational": rational, "dim": dim, "degree": degree, "size": sizes, "kv": kvs,
            "ctrlpts": P, "weights": W, "kvkind": kk}


def domain(shape):
    return [(U[p], U[len(U) - p - 1]) for U, p in zip(shape["kv"], shape["degree"])]


def random_params(rng, shape, cls=None):
    out, classes = [], []
    for U, p in zip(shape["kv"], shape["degree"]):
        u, c = gc.param(rng, U, p, cls)
        out.append(u)
        classes.append(c)
    return out, classes


def corner_params(shape, which):
    """which: tuple of 0/1 per direction (0 = domain start, 1 = domain end)"""
    return [d[w] for d, w in zip(domain(shape), which)]


def is_clamped(shape):
    for U, p in zip(shape["kv"], shape["degree"]):
        n = len(U) - p - 1
        if not (all(U[i] == U[p] for i in range(1, p + 1)) and U[p] < U[p + 1] and all(U[n + i] == U[n] for i in range(0, p)) and U[n - 1] < U[n]):
            return False
    return True


# ------------------------------------------------------------------ geomdl objects
def weighted(shape):
    """homogeneous control points [x*w.., w] (exact on the dyadic grids used)"""
    if not shape["rational"]:
        return [list(pt) for pt in shape["ctrlpts"]]
    return [[float(F(c) * F(w)) for c in pt] + [float(w)] for pt, w in zip(shape["ctrlpts"], shape["weights"])]


def build(shape, **kwargs):
    from geomdl import BSpline, NURBS
    mod = NURBS if shape["rational"] else BSpline
    kind = shape["kind"]
    Pw = weighted(shape)
    if kind == "curve":
        o = mod.Curve(**kwargs)
        o.degree = shape["degree"][0]
        o.set_ctrlpts(Pw)
        o.knotvector = list(shape["kv"][0])
    elif kind == "surface":
        o = mod.Surface(**kwargs)
        o.degree_u, o.degree_v = shape["degree"]
        o.set_ctrlpts(Pw, *shape["size"])
        o.knotvector_u = list(shape["kv"][0])
        o.knotvector_v = list(shape["kv"][1])
    else:
        o = mod.Volume(**kwargs)
        o.degree_u, o.degree_v, o.degree_w = shape["degree"]
        o.set_ctrlpts(Pw, *shape["size"])
        o.knotvector_u = list(shape["kv"][0])
        o.knotvector_v = list(shape["kv"][1])
        o.knotvector_w = list(shape["kv"][2])
    return o


def obj_kvs(o):
    pd = o.pdimension
    if pd == 1:
        return [list(o.knotvector)]
    if pd == 2:
        return [list(o.knotvector_u), list(o.knotvector_v)]
    return [list(o.knotvector_u), list(o.knotvector_v), list(o.knotvector_w)]


def kv_unchanged(o, shape):
    return obj_kvs(o) == [list(U) for U in shape["kv"]]


def eval_single(o, params):
    return list(o.evaluate_single(params[0] if o.pdimension == 1 else list(params)))


# ------------------------------------------------------------------ exact evaluation (the definition)
def basis_exact(U, p, n, u):
    """(span, [N_{span-p..span}](u)) exact; the last non-empty span is closed at the right end of the domain"""
    U = [F(k) for k in U]
    u = F(u)
    k = gc.exact_span(U, p, n, u)
    if k is None:
        raise ValueError("parameter outside the domain")
    if u >= U[n]:
        return k, gc.basis_closed(U, p, k, u)
    return k, [gc.cdb(U, p, k - p + j, u) for j in range(p + 1)]


def flat_index(shape, idx):
    s = shape["size"]
    if len(s) == 1:
        return idx[0]
    if len(s) == 2:
        return idx[1] + s[1] * idx[0]
    return idx[1] + s[1] * (idx[0] + s[0] * idx[2])


def active_indices(shape, params):
    """list of (flat index, coefficient) of the (p+1)(q+1)(r+1) active control points with the tensor-product basis values"""
    per = []
    for U, p, n, u in zip(shape["kv"], shape["degree"], shape["size"], params):
        k, Ns = basis_exact(U, p, n, u)
        per.append([(k - p + j, Ns[j]) for j in range(p + 1)])
    out = [((), F(1))]
    for lst in per:
        out = [(idx + (i,), c * ci) for idx, c in out for i, ci in lst]
    return [(flat_index(shape, idx), c) for idx, c in out]


def eval_exact(shape, params, ctrlpts=None, weights=None):
    """exact point of the shape (projected for rational shapes) from unweighted control points and weights"""
    P = ctrlpts if ctrlpts is not None else shape["ctrlpts"]
    W = weights if weights is not None else shape["weights"]
    act = active_indices(shape, params)
    dim = len(P[0])
    if shape["rational"]:
        den = sum(c * F(W[i]) for i, c in act)
        return [sum(c * F(W[i]) * F(P[i][a]) for i, c in act) / den for a in range(dim)]
    return [sum(c * F(P[i][a]) for i, c in act) for a in range(dim)]


def fr_point(pt):
    return [F(x) for x in pt]


def close_pt(a, b, tol=1e-9):
    return len(a) == len(b) and all(gc.close(x, y, tol) for x, y in zip(a, b))


# ------------------------------------------------------------------ Gallina rendering
def coq_shape_lets(shape, P=None, W=None, name=""):
    """let-bindings for the shape data; returns (prefix string, dict of names)"""
    P = P if P is not None else shape["ctrlpts"]
    W = W if W is not None else shape["weights"]
    s = "let P%s := %s in " % (name, G.qll(P))
    if shape["rational"]:
        s += "let W%s := %s in let Pw%s := hom_combine Qops P%s W%s in " % (name, G.ql(W), name, name, name)
    for i, U in enumerate(shape["kv"]):
        s += "let U%d%s := %s in " % (i, name, G.ql(U))
    return s


def coq_point(shape, params, name=""):
    """model term for the evaluated point (uses the names bound by coq_shape_lets)"""
    dim = shape["dim"] + (1 if shape["rational"] else 0)
    pts = ("Pw" if shape["rational"] else "P") + name
    deg = " ".join(G.n(p) for p in shape["degree"])
    kvs = " ".join("U%d%s" % (i, name) for i in range(len(shape["kv"])))
    prm = " ".join(G.Q(u) for u in params)
    if shape["kind"] == "curve":
        t = "curve_point Qops %s %s %s %s %s" % (G.n(dim), deg, kvs, pts, prm)
    elif shape["kind"] == "surface":
        t = "surface_point Qops %s %s %s %s %s %s" % (G.n(dim), deg, kvs, " ".join(G.n(s) for s in shape["size"]), pts, prm)
    else:
        t = "volume_point Qops %s %s %s %s %s %s" % (G.n(dim), deg, kvs, " ".join(G.n(s) for s in shape["size"]), pts, prm)
    if shape["rational"]:
        t = "project Qops (%s)" % t
    return "(" + t + ")"


# ------------------------------------------------------------------ exact square roots (bounds)
def sqrt_bounds(x, digits=40):
    """(lo, hi) Fractions with lo <= sqrt(x) <= hi, hi - lo <= 10^-digits"""
    x = F(x)
    if x < 0:
        raise ValueError("negative")
    s = 10 ** digits
    n = (x.numerator * s * s) // x.denominator
    r = math.isqrt(n)
    return F(r, s), F(r + 1, s)


def dist_bounds(a, b):
    return sqrt_bounds(sum((F(x) - F(y)) ** 2 for x, y in zip(a, b)))
