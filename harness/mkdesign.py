"""Regenerates the generated sections of DESIGN.md (per-property status, fixes/known findings, seeded changes)."""
import os, re, json, sys, importlib, subprocess
V = os.path.dirname(os.path.dirname(os.path.abspath(__file__)))
sys.path.insert(0, "/repo"); sys.path.insert(0, os.path.join(V, "harness"))

def section_status():
    out = ["| property | theorems in coq/Props | correspondence families | quick-tier evidence (last run) |", "|---|---|---|---|"]
    detail = []
    for l in open(os.path.join(V, "properties.jsonl")):
        p = json.loads(l); pid = p["id"]
        src = open(os.path.join(V, "coq", "Props", pid + ".v")).read()
        src_nc = re.sub(r"\(\*.*?\*\)", "", src, flags=re.S)
        thms = re.findall(r"^\s*Theorem\s+(\w+)", src_nc, flags=re.M)
        defs = re.findall(r"^\s*Definition\s+(\w+_full)\b", src_nc, flags=re.M)
        m = importlib.import_module("props." + pid)
        fams = [f.name for f in m.families()]
        ev = {}
        try:
            ev = json.load(open(os.path.join(V, "evidence", pid + ".json")))["coverage"]
        except Exception:
            pass
        out.append("| %s %s | %d | %s | %s cases, %s model evaluations in Coq, %s disagreements |" % (pid, p["title"], len(thms), ", ".join(fams),
                   ev.get("evaluations", "?"), ev.get("model_evaluations_in_coq", "?"), ev.get("disagreements", "?")))
        proved_full = [d for d in defs if any(t for t in thms if d[:-5] in t)]
        detail.append("**%s** - %s\n\n%s\n\n*Theorems:* %s%s\n" % (pid, p["title"], getattr(m, "LEVEL_TEXT", ""), ", ".join("`%s`" % t for t in thms),
                      ("\n\n*Full statements kept as Definitions:* " + ", ".join("`%s`" % d for d in defs)) if defs else ""))
    return "\n".join(out) + "\n\n" + "\n".join(detail)

def section_findings():
    d = json.load(open(os.path.join(V, "known_findings.json")))
    out = ["Repairs committed to /repo (each an unguarded `fix:` commit; the unedited test-suite passes after every one; the diffs are kept under `fixes/`):", "",
           "| property | repo commit | defect (found by the check's exact oracle on the pinned tree) |", "|---|---|---|"]
    for f in d.get("fixed", []):
        out.append("| %s | %s | %s |" % (f["property"], f["commit"], f["entry"].split(f["commit"], 1)[1].strip().replace("|", "/")))
    out += ["", "Known findings (genuine defects without a small safe repair; the check prints `KNOWN-FINDING:` and exits 0 for exactly this input class):", "",
            "| property | id | what fails |", "|---|---|---|"]
    fs = list(d.get("findings", []))
    kd = os.path.join(V, "known_findings.d")
    if os.path.isdir(kd):
        for fn in sorted(os.listdir(kd)):
            if fn.endswith(".json"):
                fs += json.load(open(os.path.join(kd, fn))).get("findings", [])
    for f in fs:
        out.append("| %s | %s | %s |" % (f["property"], f["id"], f["what"].replace("|", "/")))
    return "\n".join(out)

def section_seeds():
    return subprocess.check_output([sys.executable, os.path.join(V, "harness", "seedtable.py")]).decode()

def section_benign():
    rows = []
    bd = os.path.join(V, "seeded", "benign")
    for d in sorted(os.listdir(bd)) if os.path.isdir(bd) else []:
        mp = os.path.join(bd, d, "meta.json")
        if not os.path.exists(mp):
            continue
        m = json.load(open(mp))
        cr = m.get("check_result", {})
        rows.append("| %s | %s | %s | %s | %s |" % (d, m.get("property"), (m.get("summary") or "").replace("|", "/").replace("\n", " ")[:200],
                                                  " ".join(cr.get("checks_run", [])), "silent" if not cr.get("alarms") else "ALARM: " + " ".join(cr["alarms"])))
    return "| change | written for | what it changes | checks run (anchored files touched) | result |\n|---|---|---|---|---|\n" + "\n".join(rows)

def main():
    p = os.path.join(V, "DESIGN.md")
    s = open(p).read()
    for name, fn in (("status", section_status), ("findings", section_findings), ("seeds", section_seeds), ("benign", section_benign)):
        a = "<!-- BEGIN GENERATED: %s -->" % name
        b = "<!-- END GENERATED: %s -->" % name
        if a in s:
            i = s.index(a) + len(a); j = s.index(b)
            s = s[:i] + "\n" + fn().rstrip() + "\n" + s[j:]
    open(p, "w").write(s)

if __name__ == "__main__":
    main()
