"""Worker of the C17 check: runs a batch of queries against geomdl in THIS process, whose environment (GEOMDL_CACHE_SIZE)
was chosen by the parent.  Reads {"cases": [...]} from stdin, writes {"import_error": str|None, "results": [...]} to stdout.
The package is imported here, inside the fresh process, so that the import-time configuration is exercised."""
import sys, os, json, copy

sys.path.insert(0, os.path.dirname(os.path.abspath(__file__)))


def run_case(c):
    from geomdl import helpers, linalg, operations
    import tpexact as T
    out = {}
    out["binomial"] = [linalg.binomial_coefficient(k, i) for k, i in c.get("binomial", [])]
    out["identity"] = [copy.deepcopy(linalg.matrix_identity(n)) for n in c.get("identity", [])]
    out["alpha"] = [helpers.knot_insertion_alpha(a[0], tuple(a[1]), a[2], a[3], a[4]) for a in c.get("alpha", [])]
    out["rem_i"] = [helpers.knot_removal_alpha_i(a[0], a[1], tuple(a[2]), a[3], a[4]) for a in c.get("rem_i", [])]
    out["rem_j"] = [helpers.knot_removal_alpha_j(a[0], a[1], tuple(a[2]), a[3], a[4]) for a in c.get("rem_j", [])]
    s = c.get("shape")
    if s is not None:
        o = T.build(s)
        out["kv_ok"] = T.kv_unchanged(o, s)
        out["pts"] = [T.eval_single(o, p) for p in c["params"]]
        if s["kind"] == "curve":
            out["ders"] = [[list(d) for d in o.derivatives(p[0], order=c["order"])] for p in c["params"]]
        elif s["kind"] == "surface":
            out["ders"] = [[[list(d) for d in row] for row in o.derivatives(p[0], p[1], order=c["order"])] for p in c["params"]]
        ins = c.get("insert")
        if ins is not None:
            o2 = operations.insert_knot(o, ins["params"], ins["num"])
            out["insert"] = {"ctrlpts": [list(p) for p in (o2.ctrlptsw if s["rational"] else o2.ctrlpts)], "kv": T.obj_kvs(o2),
                             "pts": [T.eval_single(o2, p) for p in c["params"]]}
    return out


def main():
    req = json.load(sys.stdin)
    res = {"import_error": None, "results": []}
    try:
        import geomdl.helpers, geomdl.linalg, geomdl.BSpline, geomdl.NURBS, geomdl.operations  # noqa: F401
    except Exception as e:
        res["import_error"] = "%s: %s" % (type(e).__name__, str(e)[:200])
        json.dump(res, sys.stdout)
        return
    from geomdl.exceptions import GeomdlException
    for c in req["cases"]:
        try:
            res["results"].append({"ok": run_case(c)})
        except (GeomdlException, ValueError) as e:
            res["results"].append({"rej": "%s: %s" % (type(e).__name__, str(e)[:160])})
        except Exception as e:
            res["results"].append({"crash": "%s: %s" % (type(e).__name__, str(e)[:160])})
    json.dump(res, sys.stdout)


if __name__ == "__main__":
    main()
