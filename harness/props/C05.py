"""C05 - knot refinement never changes the shape."""
from fractions import Fraction as F
from core import Family, call
import gal as G
import gencommon as gc
from props import shapes_A as S
from geomdl import helpers, operations
from geomdl.exceptions import GeomdlException

TOL8 = S.TOL8

RULE = ("structured generator: helpers.knot_refinement on curves (points and rows of points) with density 1..3, default / explicit knot_list, "
        "add_knot_list, degrees 1..5, interior multiplicities 1..p, affine knot vectors; operations.refine_knotvector on kind {curve, "
        "surface, volume} x rational {no, yes} x every direction subset x density 1..3 per direction x pairwise different sizes; malformed: "
        "density 0, wrong-length parameter list, a single listed knot, nothing to refine; non-trivial = the implementation refined at least "
        "one direction; distinct by case hash")
ASSUMPTIONS = ["floating point rounding below 1e-9 is not observable",
               "knot vectors are clamped with interior multiplicities <= degree",
               "listed knots and all bisection midpoints either coincide exactly with a knot or stay 1e-6 away from every knot",
               "explicit knot lists lie inside the knot-vector domain and contain at least two distinct values"]
THEOREM_NOTES = ("coq/Props/C05.v: [G] density_bisects_every_interval, density_list_length, untouched_directions_curve/surface/volume, "
                 "density0_rejected; [B, one inserted knot, all degrees] refine_one_knot_spec_X1, refine_preserves_curve_X1; "
                 "C05_refine_preserves_curve_full is stated as a Definition and NOT proved")
LEVEL_TEXT = ("Proof (Coq, reals) about the executable Gallina model of helpers.knot_refinement (A5.4 with density bisection, knot_list, "
              "add_knot_list) and operations.refine_knotvector, which describes the code WITH the repair fixes/C05-refinement-span-count.diff. "
              "General [G]: density d puts exactly the points l_i + j/2^d (l_{i+1}-l_i) between consecutive listed knots (every interval bisected "
              "d times) and the list has (n-1) 2^d + 1 entries; directions with density 0 keep knot vector and size, degrees never change, nothing "
              "selected = object unchanged (curves, surfaces, volumes, every parameter list); density 0 is rejected.  Round 2 (Proofs/Refine*.v), all "
              "[G]: for ANY sorted list X of new knots inside the half-open domain (any length, any multiplicities as long as no knot ends above "
              "the degree, tolerance separating distinct knots) A5.4 returns the sorted merge of U and X and control points defining exactly the "
              "same curve (loop invariant: each outer iteration is one Boehm insertion at the true span); the default list is, for each value of the "
              "d-fold bisection, degree minus current multiplicity copies, so afterwards every interior knot has multiplicity exactly the degree; "
              "knot_refinement / refine_knotvector are correct for curves, surfaces and volumes and any subset of directions (fibre-wise lift). The "
              "former one-knot theorems remain.  Outside the theorems: degree 0, helper-built lists on knot vectors not clamped at the end.")
LEVEL_NOTE = ("Trusted: Coq 8.16.1 kernel incl. vm_compute; standard-library axioms of Reals as printed by Print Assumptions; the hand-written "
              "model's fidelity is sampled by the correspondence check on every run (helper with default / explicit / additional knot lists, points "
              "and rows, density 1..3; refine_knotvector on curve/surface/volume x rational x all direction subsets; 1e-9 tolerance); the exact "
              "Fraction oracle checks the property statement (same points on a grid with all old and new knots, d-fold bisection, interior "
              "multiplicities = degree, untouched directions) on every case; floating-point rounding is modelled as exact.")
# functions of the numerical core this property rests on that are also tied by the translator (tie theorems: Proofs/GenTie*.v, restated in Props/)
TRANSLATED = ["helpers.find_span_linear", "helpers.find_spans", "helpers.find_multiplicity", "helpers.knot_insertion_alpha", "helpers.knot_refinement"]
TECHNIQUE = ("Coq proof (loop invariant of A5.4 over functional arrays: every outer iteration is a Boehm insertion; Boehm's identity; induction on the density; Paramcoq fibre lifts) on a "
             "Gallina model executed by vm_compute against geomdl outputs + exact Fraction before/after oracle")


def bisect_exact(vals, d):
    vals = sorted(set(vals))
    for _ in range(d):
        out = []
        for a, b in zip(vals, vals[1:]):
            out += [a, a + (b - a) / 2]
        out.append(vals[-1])
        vals = out
    return vals


def bisect_float(vals, d):
    vals = sorted(set(vals))
    for _ in range(d):
        out = []
        for a, b in zip(vals, vals[1:]):
            out += [a, a + ((b - a) / 2.0)]
        out.append(vals[-1])
        vals = out
    return vals


def safe_lists(kv, kl, d):
    """float and exact bisection take the same decisions: every value equals a knot exactly (in both) or is far from all knots"""
    fl = bisect_float(kl, d)
    ex = bisect_exact([F(x) for x in kl], d)
    if len(fl) != len(ex):
        return False
    for a, b in zip(fl, ex):
        near = [k for k in kv if abs(F(k) - b) < F(1, 10 ** 6)]
        if near and not (all(F(k) == b for k in near) and F(a) == b):
            return False
        if not near and abs(F(a) - b) > F(1, 10 ** 12):
            return False
    return True


def expected_X(kv, p, kl, d):
    """the knots the property says are inserted: p - multiplicity copies of every value of the d-fold bisection (exact)"""
    X = []
    for v in bisect_exact([F(x) for x in kl], d):
        s = sum(1 for k in kv if F(k) == v)
        X += [v] * max(0, p - s)
    return X


def new_size(kv, p, d, kl=None):
    kl = kv[p:len(kv) - p] if kl is None else kl
    return len(kv) - p - 1 + len(expected_X(kv, p, kl, d))


def check_dir(before_kv, after_kv, p, d):
    """selected direction with the default knot list: every interior interval bisected d times, interior multiplicities = degree"""
    n = len(before_kv) - p - 1
    dist = bisect_exact([F(k) for k in before_kv[p:n + 1]], d)
    lo, hi = dist[0], dist[-1]
    after = [F(k) for k in after_kv]
    if any(a > b for a, b in zip(after, after[1:])):
        return "the refined knot vector is not sorted: %s" % after_kv
    vals = sorted(set(after))
    if any(abs(a - b) > F(1, 10 ** 12) for a, b in zip(vals, dist)) or len(vals) != len(dist):
        return "distinct knots %s, expected the %d-fold bisection %s" % ([float(x) for x in vals], d, [float(x) for x in dist])
    for v in vals:
        m = sum(1 for k in after if k == v)
        want = p + 1 if v in (vals[0], vals[-1]) else p
        if m != want:
            return "knot %s has multiplicity %d after refinement, expected %d" % (float(v), m, want)
    return None


class Helper(Family):
    """helpers.knot_refinement (A5.4, density bisection, knot_list, add_knot_list)"""
    name = "helper"
    imports = ("Model.Basis", "Model.KnotIns", "Model.InsertKnot", "Model.KnotRefine", "Run.InsertKnotH")
    count = {"quick": 130, "thorough": 1500}
    has_oracle = True

    def gen(self, rng, n):
        out = []
        i = 0
        while len(out) < n:
            i += 1
            p = 1 + i % 5 if i < 30 else rng.randint(1, 5)
            nd = rng.random() < 0.15
            kv = S.clamped_kv(rng, p, rng.randint(0, 3), nondyadic=nd)
            if rng.random() < 0.25:
                a, b = rng.choice([2.0, 0.5, 4.0]), rng.choice([-1.0, 0.25, 3.0])
                kv = [a * k + b for k in kv]
            npts = len(kv) - p - 1
            lo, hi = kv[p], kv[npts]
            density = rng.choice([1, 1, 2, 2, 3])
            mode = rng.choice(["default", "default", "default", "list", "add", "list+add"])
            kl, add = None, []
            pool = sorted(set(kv[p:npts + 1]))
            extra = [lo + (hi - lo) * t for t in (0.5, 0.25, 0.75, 0.375, 0.0625, 0.9375, 0.3)]
            if "list" in mode:
                cand = sorted(set(pool + extra))
                kl = sorted(rng.sample(cand, rng.randint(2, min(4, len(cand)))))
                if rng.random() < 0.3:
                    kl = kl + [kl[0]]      # duplicates are removed by set()
                    rng.shuffle(kl)
            if "add" in mode:
                add = rng.sample(extra, rng.randint(1, 2))
            mal = "none"
            r = rng.random()
            check = True
            if r < 0.05:
                mal, density = "density0", 0
            elif r < 0.09:
                mal, kl, add = "single", [rng.choice(pool + extra)], []
            elif r < 0.12:
                # nothing to refine: two full-multiplicity values whose midpoint is a full-multiplicity knot
                mal = "nothing"
                kv = [lo] * (p + 1) + [lo + (hi - lo) / 2] * p + [hi] * (p + 1)
                npts = len(kv) - p - 1
                kl, add, density = [lo, hi], [], 1
            elif r < 0.15 and density == 1:
                check = False
            base = (kl if kl is not None else kv[p:len(kv) - p]) + add
            if mal in ("none",) and not safe_lists(kv, base, density):
                continue
            if mal == "none" and new_size(kv, p, density, base) > 70:
                continue
            rows = rng.random() < 0.25
            dim = rng.choice([1, 2, 3, 4])
            if rows:
                w = rng.randint(1, 3)
                P = [gc.points(rng, w, dim) for _ in range(npts)]
            else:
                P = gc.points(rng, npts, dim)
            out.append({"p": p, "U": kv, "P": P, "kl": kl, "add": add, "density": density, "rows": rows, "mode": mode, "mal": mal, "check": check})
        return out

    def impl(self, c):
        kw = {"density": c["density"]}
        if c["kl"] is not None:
            kw["knot_list"] = list(c["kl"])
        if c["add"]:
            kw["add_knot_list"] = list(c["add"])
        if not c["check"]:
            kw["check_num"] = False

        def f():
            Q, V = helpers.knot_refinement(c["p"], list(c["U"]), [list(map(list, pt)) if c["rows"] else list(pt) for pt in c["P"]], **kw)
            return {"Q": Q, "V": V}
        return call(f)

    def _model(self, c):
        kl = "None" if c["kl"] is None else "(Some %s)" % G.ql(c["kl"])
        add = G.ql(c["add"]) if c["add"] else "[]"
        if c["rows"]:
            return "(knot_refinement_g Qops (lerp_row Qops) [] %s %s %s %s %s %s %s %s)" % (
                G.Q(TOL8), G.b(c["check"]), G.n(c["p"]), G.ql(c["U"]), G.qlll(c["P"]), kl, add, G.n(c["density"]))
        return "(knot_refinement Qops %s %s %s %s %s %s %s %s)" % (
            G.Q(TOL8), G.b(c["check"]), G.n(c["p"]), G.ql(c["U"]), G.qll(c["P"]), kl, add, G.n(c["density"]))

    def coq(self, c, out):
        if c["rows"]:
            return "(cmp_refine_rows %s %s)" % (self._model(c), G.res(out, lambda o: "(%s, %s)" % (G.slll(o["Q"]), G.sl(o["V"]))))
        return "(cmp_refine %s %s)" % (self._model(c), G.res(out, lambda o: "(%s, %s)" % (G.sll(o["Q"]), G.sl(o["V"]))))

    def coq_show(self, c, out):
        return self._model(c)

    def oracle(self, c, out):
        if c["mal"] == "density0":
            return None if "rej" in out else "reject: density 0 accepted: %s" % (str(out)[:100],)
        if c["mal"] == "nothing":
            return None if "rej" in out else "reject: refinement with nothing to insert did not raise GeomdlException"
        if c["mal"] == "single":
            return None      # a single listed knot is outside the property's domain (the implementation crashes)
        if "ok" not in out:
            return "helper: knot refinement failed on a valid input: %s" % (out,)
        o = out["ok"]
        p, U, P = c["p"], c["U"], c["P"]
        Q, V = o["Q"], o["V"]
        base = (c["kl"] if c["kl"] is not None else U[p:len(U) - p]) + c["add"]
        X = expected_X(U, p, base, c["density"])
        expV = sorted([F(k) for k in U] + X)
        if len(V) != len(expV) or any(abs(F(a) - b) > F(1, 10 ** 12) for a, b in zip(V, expV)):
            return "helper-kv: refined knot vector %s, expected the sorted merge %s" % (V, [float(x) for x in expV])
        if len(Q) != len(P) + len(X):
            return "helper-size: %d control points, expected %d" % (len(Q), len(P) + len(X))
        if c["mode"] == "default":
            m = check_dir(U, V, p, c["density"])
            if m:
                return "helper-bisect: " + m
        if c["rows"]:
            if any(len(q) != len(P[0]) for q in Q):
                return "helper-rows: row lengths changed"
            cols = [([row[j] for row in P], [row[j] for row in Q]) for j in range(len(P[0]))]
        else:
            cols = [(P, Q)]
        for (A, B) in cols:
            if any(len(b) != len(A[0]) for b in B):
                return "helper-dim: point dimension changed"
            sa = {"pdim": 1, "rational": False, "deg": [p], "kv": [U], "size": [len(A)], "P": A}
            sb = {"pdim": 1, "rational": False, "deg": [p], "kv": [V], "size": [len(B)], "P": B}
            m = S.same_shape(sa, sb, limit=80)
            if m:
                return "helper-shape: " + m
        return None

    def nontrivial(self, c, out):
        return "ok" in out

    def stratum(self, c, out):
        return "p%d/d%d/%s/%s/%s" % (c["p"], c["density"], c["mode"], c["mal"], "rows" if c["rows"] else "pts")


class Op(Family):
    """operations.refine_knotvector on curves, surfaces and volumes"""
    name = "op"
    imports = ("Model.Basis", "Model.KnotIns", "Model.InsertKnot", "Model.KnotRefine", "Run.InsertKnotH")
    count = {"quick": 150, "thorough": 1500}
    has_oracle = True

    def gen(self, rng, n):
        out = []
        i = 0
        tries = 0
        while len(out) < n:
            tries += 1
            pd = [1, 2, 2, 3, 3][i % 5]
            rational = (i // 5) % 2 == 1
            sh = S.gen_shape(rng, pd, rational, maxdeg=4 if pd == 1 else 3, maxint=2, normalize=rng.random() < 0.75,
                             nondyadic=False, budget={1: 12, 2: 30, 3: 48}[pd])
            subsets = [[d for d in range(pd) if (m >> d) & 1] for m in range(0, 2 ** pd)]
            dirs = subsets[(i // 10) % len(subsets)] if i < 10 * len(subsets) else rng.choice(subsets)
            params = [0] * pd
            for d in dirs:
                params[d] = rng.choice([1, 1, 1, 2, 2, 3]) if pd < 3 else rng.choice([1, 1, 2])
            total = 1
            for d in range(pd):
                total *= new_size(sh["kv"][d], sh["deg"][d], params[d]) if params[d] else sh["size"][d]
            if total > {1: 80, 2: 260, 3: 420}[pd]:
                continue
            mal, check = "none", True
            r = rng.random()
            if r < 0.05:
                mal = "paramlen"
                params = params[:-1] if rng.random() < 0.5 else params + [1]
            elif r < 0.1:
                check = False
            i += 1
            out.append({"shape": sh, "params": params, "mal": mal, "check": check})
        return out

    def impl(self, c):
        obj = S.build(c["shape"])
        before = S.snapshot(obj)
        try:
            S.quiet(operations.refine_knotvector, obj, list(c["params"]), check_num=c["check"])
            raised = False
        except GeomdlException:
            raised = True
        except Exception as e:
            return {"crash": "%s: %s" % (type(e).__name__, str(e)[:120])}
        after = S.snapshot(obj)
        ev = []
        if not raised:
            from props.C04 import run_evals
            kvs, degs = before["kv"], before["deg"]
            prms = [[kv[p] + (kv[len(kv) - p - 1] - kv[p]) * t for kv, p in zip(kvs, degs)] for t in (0.3, 0.625)]
            ev = run_evals(obj, prms)
        return {"ok": {"raised": raised, "before": before, "after": after, "evals": ev}}

    def _model(self, c, o):
        fn = ["", "refine_curve", "refine_surf", "refine_vol"][o["before"]["pdim"]]
        return "(%s Qops %s %s %s %s)" % (fn, G.Q(TOL8), G.b(c["check"]), S.g_geom(o["before"]), G.nl(c["params"]))

    def coq(self, c, out):
        if "ok" not in out:
            return None
        o = out["ok"]
        return "(let r := %s in andb (Bool.eqb (snd r) %s) %s)" % (self._model(c, o), G.b(o["raised"]), S.g_cmp("(fst r)", o["after"]))

    def coq_show(self, c, out):
        return self._model(c, out["ok"])

    def oracle(self, c, out):
        if "ok" not in out:
            return "crash: refine_knotvector raised %s" % (out,)
        o = out["ok"]
        before, after = o["before"], o["after"]
        pd = before["pdim"]
        if c["mal"] == "paramlen":
            if not o["raised"]:
                return "reject: parameter list of the wrong length accepted"
            return None if after == before else "reject-unchanged: rejected call modified the object"
        if o["raised"]:
            return "accept: refinement %s was rejected" % (c["params"],)
        m = S.structure_ok(after)
        if m:
            return "structure: " + m
        if after["deg"] != before["deg"]:
            return "degree: degrees changed"
        for d in range(pd):
            if c["params"][d] > 0:
                m = check_dir(before["kv"][d], after["kv"][d], before["deg"][d], c["params"][d])
                if m:
                    return "bisect: direction %s: %s" % (S.DIRS[d], m)
            elif after["kv"][d] != before["kv"][d] or after["size"][d] != before["size"][d]:
                return "untouched: direction %s was not selected but changed" % S.DIRS[d]
        if not any(c["params"]) and after != before:
            return "untouched: nothing selected but the object changed"
        m = S.same_shape(before, after, limit=64)
        if m:
            return "shape: " + m
        from props.C04 import check_evals
        return check_evals(before, o["evals"])

    def nontrivial(self, c, out):
        return "ok" in out and out["ok"]["after"]["size"] != out["ok"]["before"]["size"]

    def stratum(self, c, out):
        sh = c["shape"]
        return "%s%s/%s/%s%s" % (["", "curve", "surface", "volume"][sh["pdim"]], "-rat" if sh["rational"] else "",
                                 "".join(str(x) for x in c["params"]), c["mal"], "" if c["check"] else "/nocheck")


def families():
    return [Helper(), Op()]
