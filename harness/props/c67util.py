"""Helpers shared by the C06 (knot removal) and C07 (split / decompose) checks: shape generators, construction
and snapshots of geomdl objects, exact tensor-product evaluation (fractions.Fraction) and Gallina rendering of
the geometry records of Model/InsertKnot.v / comparison tuples of Run/SplitH.v."""
import io, contextlib
from fractions import Fraction as F
import gal as G
import gencommon as gc
from geomdl import BSpline, NURBS

TOL8 = 10e-8            # helpers.find_multiplicity tolerance
TOLREM = 10e-4          # helpers.knot_removal tolerance (Eq. 5.30)
TOLREM2 = F(TOLREM) * F(TOLREM)
DIRS = "uvw"


# ------------------------------------------------------------------ generators
def clamped_kv(rng, p, nint, grid=16, maxmult=None, nondyadic=False):
    """clamped knot vector on [0,1] with nint distinct interior knots of multiplicity 1..maxmult (<= p)"""
    mm = p if maxmult is None else max(1, min(p, maxmult))
    if nondyadic:
        cand = [1 / 3.0, 0.1, 0.7, 2 / 3.0, 0.3, 0.9, 0.2, 0.6]
        distinct = sorted(rng.sample(cand, min(nint, len(cand))))
    else:
        distinct = [d / float(grid) for d in sorted(rng.sample(range(1, grid), min(nint, grid - 1)))]
    interior = []
    for d in distinct:
        m = 1 if rng.random() < 0.45 else rng.randint(1, mm)
        interior += [d] * m
    return [0.0] * (p + 1) + interior + [1.0] * (p + 1)


def gen_shape(rng, pdim, rational, maxdeg=None, maxint=None, normalize=True, nondyadic=False, degs=None, budget=None, maxmult=None):
    """random spline shape; sizes pairwise different per direction whenever possible.
    P: flat net (v fastest, then u, then w); weighted homogeneous points [x*w.., w] when rational."""
    budget = budget or {1: 40, 2: 64, 3: 100}[pdim]
    maxdeg = maxdeg or {1: 5, 2: 4, 3: 3}[pdim]
    maxint = maxint if maxint is not None else {1: 3, 2: 2, 3: 1}[pdim]
    for _ in range(300):
        deg = list(degs) if degs else [rng.randint(1, maxdeg) for _ in range(pdim)]
        kvs = [clamped_kv(rng, deg[d], rng.randint(0, maxint), maxmult=maxmult, nondyadic=nondyadic and rng.random() < 0.5)
               for d in range(pdim)]
        size = [len(kvs[d]) - deg[d] - 1 for d in range(pdim)]
        total = 1
        for s in size:
            total *= s
        if total > budget:
            continue
        if pdim > 1 and len(set(size)) < pdim and rng.random() < 0.9:
            continue
        break
    dim = rng.choice([2, 3]) if pdim == 1 else 3
    pts = gc.points(rng, total, dim)
    if rational:
        ws = gc.weights(rng, total)
        P = [[c * w for c in pt] + [w] for pt, w in zip(pts, ws)]
    else:
        P = pts
    if not normalize:
        a = rng.choice([2.0, 4.0, 0.5, 8.0])
        b = rng.choice([-1.0, 0.25, 2.0, -3.5])
        kvs = [[a * k + b for k in kv] for kv in kvs]
    return {"pdim": pdim, "rational": bool(rational), "deg": deg, "kv": kvs, "size": size, "P": P, "normalize": bool(normalize)}


def build(sh):
    """geomdl object for a shape dict / snapshot"""
    mod = NURBS if sh["rational"] else BSpline
    cls = [None, mod.Curve, mod.Surface, mod.Volume][sh["pdim"]]
    obj = cls(normalize_kv=sh.get("normalize", True))
    P = [list(map(float, pt)) for pt in sh["P"]]
    if sh["pdim"] == 1:
        obj.degree = sh["deg"][0]
        obj.set_ctrlpts(P)
        obj.knotvector = list(sh["kv"][0])
    elif sh["pdim"] == 2:
        obj.degree_u, obj.degree_v = sh["deg"]
        obj.set_ctrlpts(P, sh["size"][0], sh["size"][1])
        obj.knotvector_u = list(sh["kv"][0])
        obj.knotvector_v = list(sh["kv"][1])
    else:
        obj.degree_u, obj.degree_v, obj.degree_w = sh["deg"]
        obj.set_ctrlpts(P, sh["size"][0], sh["size"][1], sh["size"][2])
        obj.knotvector_u = list(sh["kv"][0])
        obj.knotvector_v = list(sh["kv"][1])
        obj.knotvector_w = list(sh["kv"][2])
    return obj


class StaleView(Exception):
    """the ctrlpts / weights views of a rational object disagree with its weighted control points"""


def snapshot(obj):
    """definition fields of a geomdl object as plain lists (weighted points when rational).  For rational objects the Cartesian
    ctrlpts and the weights views are read as well (a user's code does; this also fills their caches before an operation) and
    must be the separation of ctrlptsw - StaleView otherwise (seen by the oracles as a failed operation)."""
    pd = obj.pdimension
    rat = bool(obj.rational)
    P = obj.ctrlptsw if rat else obj.ctrlpts
    P = [[float(c) for c in pt] for pt in P]
    if rat:
        cp, w = obj.ctrlpts, obj.weights
        ok = len(cp) == len(P) and len(w) == len(P)
        for i in range(len(P)):
            if not ok:
                break
            wi = P[i][-1]
            ok = abs(w[i] - wi) <= 1e-9 * max(1.0, abs(wi)) and len(cp[i]) == len(P[i]) - 1 and all(
                abs(cp[i][d] * wi - P[i][d]) <= 1e-9 * max(1.0, abs(P[i][d])) for d in range(len(cp[i])))
        if not ok:
            raise StaleView("%d ctrlpts / %d weights for %d weighted control points, or values that are not their separation" % (len(cp), len(w), len(P)))
    if pd == 1:
        deg, kv, size = [obj.degree], [list(obj.knotvector)], [obj.ctrlpts_size]
    elif pd == 2:
        deg, kv, size = [obj.degree_u, obj.degree_v], [list(obj.knotvector_u), list(obj.knotvector_v)], [obj.ctrlpts_size_u, obj.ctrlpts_size_v]
    else:
        deg = [obj.degree_u, obj.degree_v, obj.degree_w]
        kv = [list(obj.knotvector_u), list(obj.knotvector_v), list(obj.knotvector_w)]
        size = [obj.ctrlpts_size_u, obj.ctrlpts_size_v, obj.ctrlpts_size_w]
    return {"pdim": pd, "rational": rat, "deg": [int(x) for x in deg], "kv": [[float(k) for k in v] for v in kv],
            "size": [int(s) for s in size], "P": P}


def quiet(fn, *a, **kw):
    """run fn with stdout swallowed (the object wrappers print caught GeomdlExceptions)"""
    with contextlib.redirect_stdout(io.StringIO()):
        return fn(*a, **kw)


def mult(kv, u, tol=1e-7):
    return sum(1 for k in kv if abs(k - u) <= tol)


def distinct_knots(kv, p):
    """distinct knot values of the domain [kv[p], kv[-p-1]] in order"""
    lo, hi = kv[p], kv[len(kv) - p - 1]
    out = []
    for k in kv:
        if lo <= k <= hi and (not out or k != out[-1]):
            out.append(k)
    return out


# ------------------------------------------------------------------ exact evaluation (property oracles)
def basis_exact(U, p, n, u):
    """(first index, [N_{first..first+p}(u)]) by the Cox-de Boor recursion; closed last span at the domain end"""
    k = gc.exact_span(U, p, n, u)
    if k is None:
        raise ValueError("parameter outside the domain")
    if u >= U[n]:
        return k - p, gc.basis_closed(U, p, k, u)
    return k - p, [gc.cdb(U, p, k - p + j, u) for j in range(p + 1)]


class Exact(object):
    """exact evaluator of a snapshot of any parametric dimension (tensor product of Cox-de Boor bases)"""

    def __init__(self, sn):
        self.sn = sn
        self.pd = sn["pdim"]
        self.U = [gc.fr(kv) for kv in sn["kv"]]
        self.P = [[F(c) for c in pt] for pt in sn["P"]]
        total = 1
        for d in range(self.pd):
            if len(self.U[d]) != sn["size"][d] + sn["deg"][d] + 1:
                raise ValueError("knot vector %s has the wrong length" % DIRS[d])
            total *= sn["size"][d]
        if total != len(self.P):
            raise ValueError("control net size mismatch")
        self.cache = [dict() for _ in range(self.pd)]

    def basis(self, d, u):
        c = self.cache[d]
        if u not in c:
            c[u] = basis_exact(self.U[d], self.sn["deg"][d], self.sn["size"][d], u)
        return c[u]

    def at(self, params):
        sn, pd = self.sn, self.pd
        bs = [self.basis(d, F(params[d])) for d in range(pd)]
        size = sn["size"]
        dim = len(self.P[0])
        acc = [F(0)] * dim
        idx = [[]]
        # iterate over the tensor-product window
        def rec(d, w, off):
            if d == pd:
                if w:
                    pt = self.P[off]
                    for c in range(dim):
                        acc[c] += w * pt[c]
                return
            i0, Ns = bs[d]
            stride = [size[1], 1, size[0] * size[1]][d] if pd >= 2 else 1
            for a, na in enumerate(Ns):
                if na:
                    rec(d + 1, w * na, off + stride * (i0 + a))
        rec(0, F(1), 0)
        if sn["rational"]:
            if acc[-1] == 0:
                raise ZeroDivisionError("zero weight")
            return [x / acc[-1] for x in acc[:-1]]
        return acc


def dir_values(kvs, p, lo=None, hi=None):
    """all distinct knots of the given knot vectors inside [lo, hi] and the midpoints between consecutive ones"""
    kv0 = kvs[0]
    lo = F(kv0[p]) if lo is None else F(lo)
    hi = F(kv0[len(kv0) - p - 1]) if hi is None else F(hi)
    ks = sorted(set([lo, hi] + [F(k) for kv in kvs for k in kv if lo <= F(k) <= hi]))
    out = []
    for a, b in zip(ks, ks[1:]):
        out += [a, (a + b) / 2, a + (b - a) / 3]
    out.append(ks[-1])
    return out


def grid(vals, limit=40):
    """parameter tuples: the full product when small, otherwise a covering sample (every value of every direction occurs)"""
    pd = len(vals)
    total = 1
    for v in vals:
        total *= len(v)
    if total <= limit:
        out = [[]]
        for v in vals:
            out = [o + [x] for o in out for x in v]
        return out
    m = max(len(v) for v in vals)
    out, seen = [], set()
    for t in range(max(limit, m)):
        r = t // m
        o = [vals[d][(t + r * (2 * d + 1)) % len(vals[d])] for d in range(pd)]
        if tuple(o) not in seen:
            seen.add(tuple(o))
            out.append(o)
    return out


def same_shape(before, after, limit=40, tol=1e-8):
    """None if the two snapshots evaluate to the same points on a grid containing all knots of both, else a message"""
    pd = before["pdim"]
    try:
        vals = [dir_values([before["kv"][d], after["kv"][d]], before["deg"][d]) for d in range(pd)]
        ea, eb = Exact(before), Exact(after)
        for prm in grid(vals, limit):
            a, b = ea.at(prm), eb.at(prm)
            if not gc.closel(a, b, tol):
                return "evaluated point changed at %s: before %s after %s" % (
                    [float(x) for x in prm], [float(x) for x in a], [float(x) for x in b])
    except (IndexError, ZeroDivisionError, ValueError, TypeError) as e:
        return "the shape after the operation cannot be evaluated (%s: %s)" % (type(e).__name__, e)
    return None


def piece_matches(orig, piece, ivals, limit=30, tol=1e-8):
    """piece (snapshot with normalised or arbitrary domain) must coincide with orig restricted to the box ivals
    = [(a_d, b_d)] under the affine map of the piece's domain onto the box.  None if it does, else a message."""
    pd = orig["pdim"]
    try:
        eo, ep = Exact(orig), Exact(piece)
        vals, doms = [], []
        for d in range(pd):
            kvp, p = piece["kv"][d], piece["deg"][d]
            lo, hi = F(kvp[p]), F(kvp[len(kvp) - p - 1])
            if not lo < hi:
                return "piece has an empty %s-domain" % DIRS[d]
            doms.append((lo, hi))
            vals.append(dir_values([kvp], p))
        for prm in grid(vals, limit):
            mapped = [F(ivals[d][0]) + (prm[d] - doms[d][0]) / (doms[d][1] - doms[d][0]) * (F(ivals[d][1]) - F(ivals[d][0])) for d in range(pd)]
            a, b = eo.at(mapped), ep.at(prm)
            if not gc.closel(a, b, tol):
                return "piece differs from the original at piece parameter %s (original parameter %s): original %s piece %s" % (
                    [float(x) for x in prm], [float(x) for x in mapped], [float(x) for x in a], [float(x) for x in b])
    except (IndexError, ZeroDivisionError, ValueError, TypeError) as e:
        return "a piece cannot be evaluated (%s: %s)" % (type(e).__name__, e)
    return None


def structure_ok(sn):
    """basic consistency of a snapshot: sizes, knot vector lengths, monotone knots"""
    total = 1
    for d in range(sn["pdim"]):
        total *= sn["size"][d]
        kv = sn["kv"][d]
        if len(kv) != sn["size"][d] + sn["deg"][d] + 1:
            return "knot vector %s has %d knots for degree %d and %d control points" % (DIRS[d], len(kv), sn["deg"][d], sn["size"][d])
        if any(a > b for a, b in zip(kv, kv[1:])):
            return "knot vector %s is not sorted: %s" % (DIRS[d], kv)
    if len(sn["P"]) != total:
        return "control net has %d points for sizes %s" % (len(sn["P"]), sn["size"])
    return None


# ------------------------------------------------------------------ Gallina rendering
def g_geom(sn):
    """record literal of Model/InsertKnot.v for a shape / snapshot (exact inputs)"""
    pd = sn["pdim"]
    if pd == 1:
        return "(mkC %s %s %s)" % (G.n(sn["deg"][0]), G.ql(sn["kv"][0]), G.qll(sn["P"]))
    if pd == 2:
        return "(mkS %s %s %s %s %s %s %s)" % (G.n(sn["deg"][0]), G.n(sn["deg"][1]), G.ql(sn["kv"][0]), G.ql(sn["kv"][1]),
                                               G.n(sn["size"][0]), G.n(sn["size"][1]), G.qll(sn["P"]))
    return "(mkV %s %s %s %s %s %s %s %s %s %s)" % (
        G.n(sn["deg"][0]), G.n(sn["deg"][1]), G.n(sn["deg"][2]), G.ql(sn["kv"][0]), G.ql(sn["kv"][1]), G.ql(sn["kv"][2]),
        G.n(sn["size"][0]), G.n(sn["size"][1]), G.n(sn["size"][2]), G.qll(sn["P"]))


def g_snap(sn):
    """comparison tuple snapC / snapS / snapV of Run/SplitH.v (implementation floats on the 1e-12 grid)"""
    pd = sn["pdim"]
    if pd == 1:
        return "(%s, %s, %s)" % (G.n(sn["deg"][0]), G.sl(sn["kv"][0]), G.sll(sn["P"]))
    if pd == 2:
        return "(%s, %s, %s, %s)" % (G.nl(sn["deg"] + sn["size"]), G.sl(sn["kv"][0]), G.sl(sn["kv"][1]), G.sll(sn["P"]))
    return "(%s, %s, %s, %s, %s)" % (G.nl(sn["deg"] + sn["size"]), G.sl(sn["kv"][0]), G.sl(sn["kv"][1]), G.sl(sn["kv"][2]), G.sll(sn["P"]))


def g_snaps(sns):
    return "[" + "; ".join(g_snap(s) for s in sns) + "]"


def g_cmp(model_term, sn):
    return "(%s %s %s)" % (["", "cmpC", "cmpS", "cmpV"][sn["pdim"]], model_term, g_snap(sn))


def g_optQ(x):
    return "None" if x is None else "(Some %s)" % G.Q(x)


def g_optQl(xs):
    return "[" + "; ".join(g_optQ(x) for x in xs) + "]"


def g_zl(xs):
    return "[" + "; ".join("(%d)" % int(x) for x in xs) + "]%Z"
