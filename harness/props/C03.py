"""C03 — basis functions and knot-span search satisfy their defining identities."""
from fractions import Fraction as F
from core import Family, call
import gal as G
import gencommon as gc
from geomdl import helpers, knotvector

TOL5 = 10e-6
TOL8 = 10e-8

RULE = ("structured generator over degree 1..7 x knot-vector kind {uniform, repeated interior knots, unclamped, affine image} x "
        "parameter class {span interior, on knot, domain start, domain end, non-dyadic}; knot generation over all (degree, count) "
        "pairs; malformed knot vectors for check(); non-trivial = implementation returned a value and the knot vector has at "
        "least one interior knot (basis/span families) ; distinct by case hash")
ASSUMPTIONS = ["floating point rounding below 1e-9 is not observable"]
THEOREM_NOTES = "see coq/Props/C03.v; [G] = all degrees / knot vectors"
LEVEL_TEXT = ("proof (Coq), general in degree, knot vector, multiplicities and parameter unless noted: partition of unity, non-negativity, strict "
              "positivity in the open span; A2.2 = Cox-de Boor recursion; A2.4 (single function) = Cox-de Boor recursion incl. the end convention; "
              "A2.5 = Eq. 2.9 derivative recursion; linear span search specification and uniqueness of the span; binary search = linear search for "
              "every parameter u >= U_p with fuel sufficiency; check() specification; normalize affine and monotone; generate produces valid clamped "
              "knot vectors for every (degree, count).  A2.3: ndu table specification, Eq. 2.10, rows = Eq. 2.9, rows agree with A2.5 and every "
              "derivative row sums to zero - for EVERY degree (round 2, Proofs/DersGeneral*.v; the degree <= 5/6 window theorems remain as cross-checks). "
              "Executed Q instance = image of the R instance by parametricity (transfer theorems).")
TRANSLATED = ["linalg.linspace", "knotvector.generate", "knotvector.normalize", "knotvector.check", "helpers.find_span_binsearch", "helpers.find_span_linear", "helpers.find_spans", "helpers.find_multiplicity", "helpers.basis_function", "helpers.basis_function_one", "helpers.basis_functions", "helpers.basis_function_ders", "helpers.basis_function_ders_one"]
TECHNIQUE = "Coq proof (induction over degree / list structure, field on symbolic knot windows + window locality) on a Gallina model + vm_compute correspondence with the implementation"


class Span(Family):
    name = "span"
    imports = ("Model.Basis",)
    count = {"quick": 250, "thorough": 3000}
    has_oracle = True

    def gen(self, rng, n):
        out = []
        for _ in range(n):
            p = rng.randint(1, 7)
            U, kind = gc.knotvector(rng, p)
            u, cls = gc.param(rng, U, p)
            if rng.random() < 0.12 and kind in ("uniform", "mult"):
                # parameters (and sometimes an interior knot) within 1e-5 of the domain end: the binary search's former
                # tolerance shortcut region
                eps = 2.0 ** -rng.choice([17, 18, 19, 20])  # > 1e-7, the multiplicity tolerance
                if rng.random() < 0.6 and len(U) > 2 * (p + 1):
                    U = U[:-(p + 2)] + [1.0 - eps] + U[-(p + 1):]
                u, cls = 1.0 - eps * rng.choice([0.5, 0.75, 1.0, 1.5]), "nearend"
            out.append({"p": p, "U": U, "u": u, "kind": kind, "cls": cls})
        return out

    def impl(self, c):
        p, U, u = c["p"], c["U"], c["u"]
        n = len(U) - p - 1
        return call(lambda: [helpers.find_span_linear(p, U, n, u), helpers.find_span_binsearch(p, U, n, u),
                             helpers.find_multiplicity(u, U), helpers.find_spans(p, U, n, [u, U[p]]),
                             helpers.find_spans(p, U, n, self.plist(c))])

    @staticmethod
    def plist(c):
        """a sorted parameter list as evaluate_list / evalpts hand it to find_spans: for every distinct knot span of the domain its
        midpoint followed by its right end knot (so each knot is preceded by a parameter of the span to its left), then u"""
        p, U = c["p"], c["U"]
        n = len(U) - p - 1
        ds = sorted(set(U[p:n + 1]))
        out = [ds[0]]
        for a, b in zip(ds, ds[1:]):
            out += [a + (b - a) * 0.5, b]
        return out + [c["u"]]

    def coq(self, c, out):
        if "ok" not in out:
            return None
        p, U, u = c["p"], c["U"], c["u"]
        n = len(U) - p - 1
        lin, bn, mult, spans, spl = out["ok"]
        pl = self.plist(c)
        if len(spl) != len(pl):
            return "false"
        lst = "(forallb (fun us => Nat.eqb (find_span_linear Qops %s %s %s (fst us)) (snd us)) %s)" % (
            G.n(p), G.ql(U), G.n(n), "[" + "; ".join("(%s, %s)" % (G.Q(x), G.n(k)) for x, k in zip(pl, spl)) + "]")
        rest = ("(andb (andb (Nat.eqb (find_span_linear Qops %s %s %s %s) %s) "
                "(opt_cmp Nat.eqb (find_span_binsearch Qops %s %s %s %s %s) (Some %s))) "
                "(andb (Nat.eqb (find_multiplicity Qops %s %s %s) %s) (Nat.eqb (find_span_linear Qops %s %s %s %s) %s)))") % (
            G.n(p), G.ql(U), G.n(n), G.Q(u), G.n(lin),
            G.Q(TOL5), G.n(p), G.ql(U), G.n(n), G.Q(u), G.n(bn),
            G.Q(TOL8), G.Q(u), G.ql(U), G.n(mult), G.n(p), G.ql(U), G.n(n), G.Q(U[p]), G.n(spans[1]))
        return "(andb " + lst + " " + rest + ")"

    def oracle(self, c, out):
        if "ok" not in out:
            return "span: search failed on a valid input: %s" % (out,)
        p, U, u = c["p"], gc.fr(c["U"]), F(c["u"])
        n = len(U) - p - 1
        lin, bn, mult, spans, spl = out["ok"]
        k = gc.exact_span(U, p, n, u)
        pl = self.plist(c)
        exp = [gc.exact_span(U, p, n, F(x)) for x in pl]
        if list(spl) != exp:
            return "find_spans-list: for the sorted parameters %s returned %s, the spans containing them are %s" % (pl, spl, exp)
        if lin != k:
            return "span-linear: returned %s, the non-empty half-open interval containing u is %s" % (lin, k)
        if bn != k:
            return "span-binary: returned %s, expected %s" % (bn, k)
        if mult != sum(1 for x in U if x == u):
            return "multiplicity: returned %s" % mult
        if spans[0] != k:
            return "find_spans: returned %s expected %s" % (spans[0], k)
        return None

    def nontrivial(self, c, out):
        return "ok" in out and len(c["U"]) > 2 * (c["p"] + 1)

    def stratum(self, c, out):
        return "%s/%s" % (c["kind"], c["cls"])


class Basis(Family):
    name = "basis"
    imports = ("Model.Basis",)
    count = {"quick": 220, "thorough": 2500}
    has_oracle = True

    def gen(self, rng, n):
        out = []
        for i in range(n):
            p = rng.randint(1, 7) if i % 5 else rng.randint(1, 4)
            U, kind = gc.knotvector(rng, p)
            u, cls = gc.param(rng, U, p)
            order = rng.randint(0, p)
            out.append({"p": p, "U": U, "u": u, "order": order, "kind": kind, "cls": cls})
        return out

    def _span(self, c):
        p, U = c["p"], c["U"]
        return gc.exact_span(gc.fr(U), p, len(U) - p - 1, F(c["u"]))

    def impl(self, c):
        p, U, u, order = c["p"], c["U"], c["u"], c["order"]
        span = self._span(c)

        def f():
            bf = helpers.basis_function(p, U, span, u)
            one = [helpers.basis_function_one(p, U, i, u) for i in range(0, len(U) - p - 1)]
            al = helpers.basis_function_all(p, U, span, u)
            al = [[al[j][i] for i in range(j, p + 1)] for j in range(p + 1)]
            ders = helpers.basis_function_ders(p, U, span, u, order)
            done = [helpers.basis_function_ders_one(p, U, i, u, order) for i in range(span - p, span + 1)]
            bfs = helpers.basis_functions(p, U, [span, span], [u, u])
            dersl = helpers.basis_functions_ders(p, U, [span, span], [u, u], order)
            return {"bf": bf, "one": one, "all": al, "ders": ders, "ders_one": done, "bfs": bfs, "dersl": dersl}
        return call(f)

    def coq(self, c, out):
        if "ok" not in out:
            return None
        p, U, u, order = c["p"], c["U"], c["u"], c["order"]
        span = self._span(c)
        o = out["ok"]
        a = (G.n(p), G.ql(U), G.n(span), G.Q(u))
        parts = [
            "closeL (basis_function Qops %s %s %s %s) %s" % (a + (G.sl(o["bf"]),)),
            "closeL (map (fun i => basis_function_one Qops %s %s i %s) (seq 0 %d)) %s" % (G.n(p), G.ql(U), G.Q(u), len(o["one"]), G.sl(o["one"])),
            "closeLL (basis_function_all Qops %s %s %s %s) %s" % (a + (G.sll(o["all"]),)),
            "closeLL (basis_function_ders Qops %s %s %s %s %s) %s" % (a + (G.n(order), G.sll(o["ders"]))),
            "closeLL (map (fun i => basis_function_ders_one Qops %s %s i %s %s) (seq %d %d)) %s" % (G.n(p), G.ql(U), G.Q(u), G.n(order), span - p, p + 1, G.sll(o["ders_one"])),
            "closeLL (basis_functions Qops %s %s [%d;%d]%%nat [%s;%s]) %s" % (G.n(p), G.ql(U), span, span, G.Q(u), G.Q(u), G.sll(o["bfs"])),
        ]
        e = parts[0]
        for q_ in parts[1:]:
            e = "andb (%s) (%s)" % (e, q_)
        return "(" + e + ")"

    def coq_show(self, c, out):
        p, U, u, order = c["p"], c["U"], c["u"], c["order"]
        span = self._span(c)
        return "(basis_function Qops %s %s %s %s, basis_function_ders Qops %s %s %s %s %s)" % (
            G.n(p), G.ql(U), G.n(span), G.Q(u), G.n(p), G.ql(U), G.n(span), G.Q(u), G.n(order))

    def oracle(self, c, out):
        if "ok" not in out:
            return "basis: evaluation failed on a valid input: %s" % (out,)
        p, order = c["p"], c["order"]
        U, u = gc.fr(c["U"]), F(c["u"])
        n = len(U) - p - 1
        span = self._span(c)
        o = out["ok"]
        at_end = u >= U[n]
        exp = gc.basis_closed(U, p, span, u) if at_end else [gc.cdb(U, p, span - p + j, u) for j in range(p + 1)]
        bf = o["bf"]
        if any(x < -1e-12 for x in bf):
            return "basis-nonneg: %s" % bf
        if not gc.close(sum(F(x) for x in bf), 1):
            return "basis-sum: basis functions sum to %r" % float(sum(bf))
        if not gc.closel(bf, exp):
            return "basis-cdb: basis_function differs from the Cox-de Boor recursion: %s vs %s" % (bf, [float(x) for x in exp])
        # single-function variant
        for i, v in enumerate(o["one"]):
            if u == U[-1]:
                e1 = F(1) if i == n - 1 else F(0)
            elif at_end:
                e1 = exp[i - (span - p)] if span - p <= i <= span else F(0)
            else:
                e1 = gc.cdb(U, p, i, u)
            if not gc.close(v, e1):
                return "basis-one: basis_function_one(i=%d) = %r, Cox-de Boor gives %r" % (i, v, float(e1))
        # all-degrees variant
        for j in range(p + 1):
            for ii, v in enumerate(o["all"][j]):
                i = j + ii
                e1 = (gc.basis_closed(U, i, span, u) if at_end else [gc.cdb(U, i, span - i + t, u) for t in range(i + 1)])[j]
                if not gc.close(v, e1):
                    return "basis-all: N[%d][%d] = %r expected %r" % (j, i, v, float(e1))
        ders = o["ders"]
        if not gc.closel(ders[0], exp):
            return "ders-row0: %s" % ders[0]
        for k in range(1, len(ders)):
            s = sum(F(x) for x in ders[k])
            scale = max([1] + [abs(F(x)) for x in ders[k]])
            if abs(s) > F(1, 10 ** 9) * scale:
                return "ders-sum: derivative row %d sums to %r" % (k, float(s))
            if not at_end:
                ek = [gc.cdb_der(U, p, span - p + j, u, k) for j in range(p + 1)]
                if not gc.closel(ders[k], ek, 1e-8):
                    return "ders-cdb: derivative row %d = %s, exact %s" % (k, ders[k], [float(x) for x in ek])
        for j, col in enumerate(o["ders_one"]):
            for k in range(len(col)):
                if k < len(ders) and not at_end:  # at the domain end the two variants take one-sided limits from different sides
                    if not gc.close(col[k], ders[k][j], 1e-8):
                        return "ders-one: basis_function_ders_one(i=%d)[%d] = %r but ders gives %r" % (span - p + j, k, col[k], ders[k][j])
        if o["bfs"] != [bf, bf]:
            return "basis_functions: list variant differs"
        if o["dersl"] != [ders, ders]:
            return "basis_functions_ders: list variant differs from basis_function_ders"
        return None

    def nontrivial(self, c, out):
        return "ok" in out and len(c["U"]) > 2 * (c["p"] + 1)

    def stratum(self, c, out):
        return "p%d/%s/%s" % (c["p"], c["kind"], c["cls"])


class KnotVec(Family):
    name = "knotvector"
    imports = ("Model.Knots",)
    count = {"quick": 260, "thorough": 1500}
    has_oracle = True

    def gen(self, rng, n):
        out = []
        # all (degree, count) pairs up to (7, 12) quick
        pairs = [(p, m, cl) for p in range(0, 8) for m in range(0, 13) for cl in (True, False)]
        rng.shuffle(pairs)
        for p, m, cl in pairs[: n // 2]:
            out.append({"op": "generate", "p": p, "n": m, "clamped": cl})
        # large counts: segment numbers for which a carelessly re-associated linspace step does not reach 1.0 exactly
        for seg in (49, 98, 103, 107, 161):
            p = rng.randint(1, 5)
            out.append({"op": "generate", "p": p, "n": seg + p, "clamped": True})
        while len(out) < n:
            p = rng.randint(1, 7)
            U, kind = gc.knotvector(rng, p)
            r = rng.random()
            if r < 0.25:
                out.append({"op": "normalize", "U": U})
            else:
                nn = len(U) - p - 1
                mal = "none"
                U2 = list(U)
                if r < 0.45:
                    mal = "length"
                    if rng.random() < 0.5:
                        U2 = U2[:-1]
                    else:
                        nn += rng.choice([-1, 1])
                elif r < 0.65:
                    mal = "order"
                    i = rng.randrange(len(U2) - 1)
                    j = rng.randrange(i + 1, len(U2))
                    if U2[i] != U2[j]:
                        U2[i], U2[j] = U2[j], U2[i]
                    else:
                        mal = "none"
                elif r < 0.7:
                    mal = "empty"
                    U2 = []
                elif r < 0.78:
                    # a decrease far below any round-off tolerance one might be tempted to grant (2^-24 .. 2^-40)
                    mal = "tiny-decrease"
                    i = rng.randrange(p + 1, len(U2) - p - 1) if len(U2) > 2 * p + 2 else rng.randrange(1, len(U2) - 1)
                    U2[i] = U2[i + 1] + 2.0 ** -rng.choice([24, 30, 40]) if i + 1 < len(U2) else U2[i]
                out.append({"op": "check", "p": p, "U": U2, "n": nn, "mal": mal})
        return out

    def impl(self, c):
        if c["op"] == "generate":
            return call(knotvector.generate, c["p"], c["n"], clamped=c["clamped"])
        if c["op"] == "normalize":
            return call(knotvector.normalize, c["U"])
        return call(knotvector.check, c["p"], c["U"], c["n"])

    def coq(self, c, out):
        if c["op"] == "generate":
            return "(res_cmp closeL (generate Qops %s %s %s %s) %s)" % (G.Q(TOL8), G.n(c["p"]), G.n(c["n"]), G.b(c["clamped"]), G.res(out, G.sl))
        if c["op"] == "normalize":
            return "(res_cmp closeL (normalize Qops %s) %s)" % (G.ql(c["U"]), G.res(out, G.sl))
        if c["n"] < 0:
            return None
        return "(res_cmp Bool.eqb (check Qops %s %s %s) %s)" % (G.n(c["p"]), G.ql(c["U"]), G.n(c["n"]), G.res(out, G.b))

    def oracle(self, c, out):
        if c["op"] == "generate":
            p, n = c["p"], c["n"]
            if p == 0 or n == 0:
                return None if "rej" in out else "generate: degree 0 / count 0 not rejected"
            if "ok" not in out:
                return "generate: failed for p=%d n=%d: %s" % (p, n, out)
            U = out["ok"]
            if n < p + 1:
                return None  # not a valid (degree, count) pair
            if len(U) != p + n + 1:
                return "generate-length: %d knots for p=%d n=%d" % (len(U), p, n)
            if any(a > b for a, b in zip(U, U[1:])):
                return "generate-order: not non-decreasing"
            if c["clamped"] and (U[:p + 1] != [0.0] * (p + 1) or U[-p - 1:] != [1.0] * (p + 1) or (n > p + 1 and not (0.0 < U[p + 1] and U[-p - 2] < 1.0))):
                return "generate-clamped: end multiplicities are not degree+1: %s" % U
            if not knotvector.check(p, U, n):
                return "generate-check: generated knot vector fails check()"
            if not c["clamped"]:
                m = p + n
                if not gc.closel(U, [F(i, m) for i in range(m + 1)]):
                    return "generate-unclamped: clamped=False must give the uniform knot vector i/%d without repeated end knots: %s" % (m, U)
            else:
                seg = n - p
                if not gc.closel(U[p:n + 1], [F(i, seg) for i in range(seg + 1)]):
                    return "generate-uniform: interior knots of the clamped vector are not equally spaced: %s" % (U,)
            return None
        if c["op"] == "normalize":
            if "ok" not in out:
                return "normalize: failed %s" % (out,)
            U, V = gc.fr(c["U"]), out["ok"]
            exp = [(k - U[0]) / (U[-1] - U[0]) for k in U]
            if not gc.closel(V, exp):
                return "normalize-affine: %s" % V
            if V[0] != 0.0 or V[-1] != 1.0 or any(a > b for a, b in zip(V, V[1:])):
                return "normalize-ends/order: %s" % V
            return None
        if c["mal"] == "empty":
            return None if "rej" in out else "check: empty knot vector accepted"
        if "ok" not in out:
            return "check: raised %s" % (out,)
        U = c["U"]
        exp = (len(U) == c["p"] + c["n"] + 1) and all(a <= b for a, b in zip(U, U[1:]))
        if bool(out["ok"]) != exp:
            return "check-spec: check() = %s for a knot vector that is %s" % (out["ok"], "valid" if exp else "invalid (%s)" % c["mal"])
        return None

    def nontrivial(self, c, out):
        return "ok" in out

    def stratum(self, c, out):
        return c["op"] + "/" + c.get("mal", "ok" if "ok" in out else "rej")


def families():
    return [Span(), Basis(), KnotVec()]
