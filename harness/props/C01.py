"""C01 — evaluated points equal the B-spline/NURBS definition (all entry points, grid shape and corners)."""
from fractions import Fraction as F
from core import Family, call
import gal as G
import gencommon as gc
import shapes as S

TOL8 = 10e-8
RULE = ("curves/surfaces/volumes x rational or not x degree 1..5 per direction x pairwise different sizes x knot kind "
        "{uniform, repeated interior knots, unclamped, non-normalised affine image} x parameter class {span interior, on knot, "
        "domain start, domain end, non-dyadic} x sample sizes 2..9 x point dimension 2..4; non-trivial = every entry point returned "
        "values and at least one direction has interior knots; distinct by case hash")
ASSUMPTIONS = ["floating point rounding below 1e-9 is not observable", "the '{:.18f}' text round trip of parameters is the identity (error <= 5e-19)"]
LEVEL_TEXT = ("Proof (Coq): for ALL degrees, sorted knot vectors with any multiplicities, control nets and parameters in a non-empty span the "
              "model's curve point (A3.1 with A2.2 basis functions and linear span search) equals the definition sum_i N_{i,p}(u) P_i over ALL "
              "control points with N the Cox-de Boor recursion [G]; rational points are the quotient with strictly positive denominator for "
              "positive weights [G]; sampled grid has the documented length, order and end parameters [G]; surfaces/volumes: tensor-product "
              "structure theorem (iterated curve sums with the flat index v + sv*(u + su*w)) [G]. The model is tied to geomdl (all entry points: "
              "evaluate_single, evaluate_list, evalpts, derivatives order 0; BSpline and NURBS; curve, surface, volume) by the correspondence check "
              "evaluated inside Coq on every run, and an exact Fraction oracle of the definition searches for failing inputs.")
# functions of the numerical core this property rests on that are also tied by the translator (tie theorems: Props/C03.v, Proofs/GenTie*.v)
TRANSLATED = ["helpers.find_span_linear", "helpers.find_spans", "helpers.basis_function", "helpers.basis_functions", "linalg.linspace", "evaluators.CurveEvaluator.evaluate", "evaluators.CurveEvaluatorRational.evaluate", "evaluators.SurfaceEvaluator.evaluate", "evaluators.SurfaceEvaluatorRational.evaluate", "evaluators.VolumeEvaluator.evaluate", "evaluators.VolumeEvaluatorRational.evaluate"]
TECHNIQUE = "Coq proof (induction over degree, Cox-de Boor recursion) on a Gallina model + vm_compute correspondence with the implementation"
THEOREM_NOTES = "coq/Props/C01.v"


def round_dec(x, d):
    """x (Fraction) rounded to d decimals, ties to even: the value of float('{:.df}'.format(x))"""
    y = x * 10 ** d
    k = y.numerator // y.denominator
    r = y - k
    if r > F(1, 2) or (r == F(1, 2) and k % 2 == 1):
        k += 1
    return F(k, 10 ** d)


def rounded_grid(kv, p, n, d):
    """the n sampled parameters of an object created with precision=d: the exact grid values rounded to d decimals"""
    lo, hi = F(kv[p]), F(kv[len(kv) - p - 1])
    return [round_dec(lo + (hi - lo) * F(i, n - 1), d) for i in range(n)]


def dims(rng):
    return rng.choice([2, 3, 3, 3, 4])


def kv_for(rng, p, size, kind):
    """knot vector with exactly `size` control points"""
    nint = size - (p + 1)
    if kind == "unclamped":
        m = size + p + 1
        vals = sorted(rng.sample(range(0, 4 * m), m))
        return [v / 8.0 for v in vals]
    # choose multiplicities summing to nint
    mults = []
    left = nint
    while left > 0:
        m = 1 if kind == "uniform" or rng.random() < 0.5 else rng.randint(1, min(p, left))
        mults.append(m)
        left -= m
    distinct = sorted(rng.sample(range(1, 32), len(mults)))
    interior = []
    for d, m in zip(distinct, mults):
        interior += [d / 32.0] * m
    U = [0.0] * (p + 1) + interior + [1.0] * (p + 1)
    if kind == "affine":
        a = rng.choice([2.0, 3.0, 0.5, 4.0, 1.5, 1.0])
        b = rng.choice([-1.0, 0.25, 2.0, -0.5, -3.5])
        U = [a * k + b for k in U]
    return U


def pick_kind(rng):
    return rng.choice(["uniform", "mult", "mult", "unclamped", "affine"])


def params(rng, U, p, k):
    out = []
    for _ in range(k):
        out.append(gc.param(rng, U, p)[0])
    return out


class CurveF(Family):
    name = "curve"
    imports = ("Model.Eval",)
    count = {"quick": 160, "thorough": 2000}
    has_oracle = True

    def gen(self, rng, n):
        out = []
        for _ in range(n):
            p = rng.randint(1, 5)
            size = p + 1 + rng.randint(0, 5)
            kind = pick_kind(rng)
            U = kv_for(rng, p, size, kind)
            dim = dims(rng)
            rat = rng.random() < 0.5
            c = {"p": p, "U": U, "P": gc.points(rng, size, dim), "rational": rat, "kind": kind,
                 "normalize": kind in ("uniform", "mult"), "us": params(rng, U, p, 4) + [U[p], U[size]],
                 "sample": rng.randint(2, 9), "sample2": rng.randint(2, 9)}
            if c["normalize"] and rng.random() < 0.3:
                c["precision"] = rng.choice([3, 4, 6])      # non-default number of decimals kept for sampled parameters / knots
                c["sample"], c["sample2"] = rng.choice([4, 7, 8, 10]), rng.choice([3, 4, 7, 10, 13])
            if rat:
                c["W"] = gc.weights(rng, size)
                c["P2"], c["W2"] = gc.points(rng, size, dim), gc.weights(rng, size)
            out.append(c)
        return out

    def impl(self, c):
        def f():
            o = S.make_curve(c)
            kv = list(o.knotvector)
            r = {"kv": kv, "single": [o.evaluate_single(u) for u in c["us"]], "list": o.evaluate_list(c["us"]),
                 "d0": [o.derivatives(u, 0)[0] for u in c["us"]]}
            if True:   # every knot range (the sample-size derivation was repaired in /repo 2a3e060)
                o.sample_size = c["sample"]
                r["evalpts"] = [list(x) for x in o.evalpts]
                r["sample_size"] = o.sample_size
                o.sample_size = c["sample2"]      # edit the density after a first evaluation, read the grid again
                r["evalpts2"] = [list(x) for x in o.evalpts]
            if c["rational"]:
                # redefine the shape through the unweighted-points and weights views after it has been evaluated
                o.ctrlpts = [list(p) for p in c["P"]]
                o.ctrlpts = [list(p) for p in c["P2"]]
                o.weights = list(c["W2"])
                r["single2"] = [o.evaluate_single(u) for u in c["us"]]
            return r
        return call(f)

    def _args(self, c, kv, second=False):
        P = (S.weighted(c["P2"], c["W2"]) if second else S.weighted(c["P"], c["W"])) if c["rational"] else c["P"]
        return "%s %s %s %s %s" % (G.b(c["rational"]), G.n(len(c["P"][0])), G.n(c["p"]), G.ql(kv), G.qll(P))

    def coq(self, c, out):
        if "ok" not in out:
            return None
        o = out["ok"]
        a = self._args(c, o["kv"])
        e = "andb (closeLL (map (obj_curve_point Qops %s) %s) %s) (closeLL (map (obj_curve_point Qops %s) %s) %s)" % (
            a, G.ql(c["us"]), G.sll(o["single"]), a, G.ql(c["us"]), G.sll(o["d0"]))
        if "evalpts" in o and c.get("precision"):
            for n_, key in ((c["sample"], "evalpts"), (c["sample2"], "evalpts2")):
                prm = rounded_grid(o["kv"], c["p"], n_, c["precision"])
                e = "andb (%s) (closeLL (map (obj_curve_point Qops %s) %s) %s)" % (e, a, G.ql(prm), G.sll(o[key]))
        elif "evalpts" in o:
            e = "andb (%s) (closeLL (obj_curve_evalpts Qops %s %s %s) %s)" % (e, G.Q(TOL8), a, G.n(c["sample"]), G.sll(o["evalpts"]))
            e = "andb (%s) (closeLL (obj_curve_evalpts Qops %s %s %s) %s)" % (e, G.Q(TOL8), a, G.n(c["sample2"]), G.sll(o["evalpts2"]))
        if "single2" in o:
            e = "andb (%s) (closeLL (map (obj_curve_point Qops %s) %s) %s)" % (e, self._args(c, o["kv"], True), G.ql(c["us"]), G.sll(o["single2"]))
        return "(" + e + ")"

    def oracle(self, c, out):
        if "ok" not in out:
            return "curve: evaluation of a valid shape failed: %s" % (out,)
        o = out["ok"]
        U = o["kv"]
        for name in ("single", "list", "d0"):
            if len(o[name]) != len(c["us"]):
                return "curve-%s: %d results for %d parameters" % (name, len(o[name]), len(c["us"]))
        for u, a, b, d in zip(c["us"], o["single"], o["list"], o["d0"]):
            exp = S.curve_def(c, U, u)
            if not gc.closel(a, exp):
                return "curve-definition: evaluate_single(%r) = %s, definition gives %s" % (u, a, [float(x) for x in exp])
            if a != b:
                return "curve-entrypoints: evaluate_list differs from evaluate_single at %r" % u
            if not gc.closel(d, exp):
                return "curve-entrypoints: derivatives(u,0)[0] differs from the definition at %r: %s" % (u, d)
        if "evalpts" in o:
            n = c["sample"]
            if o["sample_size"] != n or len(o["evalpts"]) != n:
                return "curve-grid: sample_size=%d gives %d points (sample_size reads %s)" % (n, len(o["evalpts"]), o["sample_size"])
            p = c["p"]
            lo, hi = F(U[p]), F(U[len(U) - p - 1])
            prm = rounded_grid(U, p, n, c["precision"]) if c.get("precision") else [lo + (hi - lo) * F(i, n - 1) for i in range(n)]
            if prm[0] != lo or prm[-1] != hi:
                prm[0], prm[-1] = lo, hi
            for i, pt in enumerate(o["evalpts"]):
                u = prm[i]
                if not gc.closel(pt, S.curve_def(c, U, u)):
                    return "curve-grid: evalpts[%d] is not the point at parameter %s" % (i, u)
            if not gc.closel(o["evalpts"][0], S.curve_def(c, U, lo), 1e-12) or not gc.closel(o["evalpts"][-1], S.curve_def(c, U, hi), 1e-12):
                return "curve-grid: the sampled grid does not start/end on the domain ends"
            n2 = c["sample2"]
            if len(o["evalpts2"]) != n2:
                return "curve-grid: after changing sample_size from %d to %d the grid has %d points" % (n, n2, len(o["evalpts2"]))
            prm2 = rounded_grid(U, p, n2, c["precision"]) if c.get("precision") else [lo + (hi - lo) * F(i, n2 - 1) for i in range(n2)]
            prm2[0], prm2[-1] = lo, hi
            for i, pt in enumerate(o["evalpts2"]):
                if not gc.closel(pt, S.curve_def(c, U, prm2[i])):
                    return "curve-grid: after changing sample_size, evalpts[%d] is not the point at its grid parameter" % i
        if "single2" in o:
            c2 = dict(c, P=c["P2"], W=c["W2"])
            for u, a in zip(c["us"], o["single2"]):
                if not gc.closel(a, S.curve_def(c2, U, u)):
                    return "curve-redefined: after setting ctrlpts and then weights on an evaluated NURBS curve the point at %r is not the definition's" % u
        return None

    def nontrivial(self, c, out):
        return "ok" in out and len(c["U"]) > 2 * (c["p"] + 1)

    def stratum(self, c, out):
        return "%s/%s/p%d" % ("nurbs" if c["rational"] else "bspline", c["kind"], c["p"])


class SurfaceF(Family):
    name = "surface"
    imports = ("Model.Eval",)
    count = {"quick": 90, "thorough": 1000}
    has_oracle = True

    def gen(self, rng, n):
        out = []
        for _ in range(n):
            pu, pv = rng.randint(1, 4), rng.randint(1, 4)
            su = pu + 1 + rng.randint(0, 3)
            sv = pv + 1 + rng.randint(0, 3)
            if su == sv:
                sv += 1
            kind = rng.choice(["uniform", "mult", "mult", "affine", "unclamped"])
            Uu, Uv = kv_for(rng, pu, su, kind), kv_for(rng, pv, sv, kind)
            dim = dims(rng)
            rat = rng.random() < 0.5
            us, vs = params(rng, Uu, pu, 3) + [Uu[pu], Uu[su]], params(rng, Uv, pv, 3) + [Uv[sv], Uv[pv]]
            c = {"pu": pu, "pv": pv, "su": su, "sv": sv, "Uu": Uu, "Uv": Uv, "P": gc.points(rng, su * sv, dim), "rational": rat,
                 "kind": kind, "normalize": kind in ("uniform", "mult"), "uvs": [[a, b] for a, b in zip(us, vs)],
                 "sample": [rng.randint(2, 5), rng.randint(2, 6)], "sample2": [rng.randint(2, 5), rng.randint(2, 6)],
                 "which": rng.choice(["u", "v", "uv", "vu"])}
            if rat:
                c["W"] = gc.weights(rng, su * sv)
                c["P2"], c["W2"] = gc.points(rng, su * sv, dim), gc.weights(rng, su * sv)
            out.append(c)
        return out

    def impl(self, c):
        def f():
            o = S.make_surface(c)
            r = {"kvu": list(o.knotvector_u), "kvv": list(o.knotvector_v),
                 "single": [o.evaluate_single(tuple(uv)) for uv in c["uvs"]],
                 "list": o.evaluate_list([tuple(uv) for uv in c["uvs"]]),
                 "d0": [o.derivatives(uv[0], uv[1], 0)[0][0] for uv in c["uvs"]]}
            if True:   # every knot range (the sample-size derivation was repaired in /repo 2a3e060)
                o.sample_size_u, o.sample_size_v = c["sample"]
                r["evalpts"] = [list(x) for x in o.evalpts]
                r["sample_size"] = [o.sample_size_u, o.sample_size_v]
                for d in c["which"]:              # edit the density per direction after a first evaluation
                    if d == "u":
                        o.sample_size_u = c["sample2"][0]
                    else:
                        o.sample_size_v = c["sample2"][1]
                r["evalpts2"] = [list(x) for x in o.evalpts]
            if c["rational"]:
                o.ctrlpts = [list(p) for p in c["P"]]
                o.ctrlpts = [list(p) for p in c["P2"]]
                o.weights = list(c["W2"])
                r["single2"] = [o.evaluate_single(tuple(uv)) for uv in c["uvs"]]
            return r
        return call(f)

    def _args(self, c, o, second=False):
        P = (S.weighted(c["P2"], c["W2"]) if second else S.weighted(c["P"], c["W"])) if c["rational"] else c["P"]
        return "%s %s %s %s %s %s %s %s %s" % (G.b(c["rational"]), G.n(len(c["P"][0])), G.n(c["pu"]), G.n(c["pv"]), G.ql(o["kvu"]), G.ql(o["kvv"]),
                                               G.n(c["su"]), G.n(c["sv"]), G.qll(P))

    def coq(self, c, out):
        if "ok" not in out:
            return None
        o = out["ok"]
        a = self._args(c, o)
        uvs = "[" + "; ".join("(%s, %s)" % (G.Q(u), G.Q(v)) for u, v in c["uvs"]) + "]"
        e = "andb (closeLL (map (obj_surface_point Qops %s) %s) %s) (closeLL (map (obj_surface_point Qops %s) %s) %s)" % (
            a, uvs, G.sll(o["single"]), a, uvs, G.sll(o["d0"]))
        if "evalpts" in o:
            e = "andb (%s) (closeLL (obj_surface_evalpts Qops %s %s %s %s) %s)" % (e, G.Q(TOL8), a, G.n(c["sample"][0]), G.n(c["sample"][1]), G.sll(o["evalpts"]))
            n2 = self._sizes2(c)
            e = "andb (%s) (closeLL (obj_surface_evalpts Qops %s %s %s %s) %s)" % (e, G.Q(TOL8), a, G.n(n2[0]), G.n(n2[1]), G.sll(o["evalpts2"]))
        if "single2" in o:
            e = "andb (%s) (closeLL (map (obj_surface_point Qops %s) %s) %s)" % (e, self._args(c, o, True), uvs, G.sll(o["single2"]))
        return "(" + e + ")"

    def _sizes2(self, c):
        return [c["sample2"][0] if "u" in c["which"] else c["sample"][0], c["sample2"][1] if "v" in c["which"] else c["sample"][1]]

    def oracle(self, c, out):
        if "ok" not in out:
            return "surface: evaluation of a valid shape failed: %s" % (out,)
        o = out["ok"]
        Uu, Uv = o["kvu"], o["kvv"]
        if len(o["single"]) != len(c["uvs"]) or len(o["list"]) != len(c["uvs"]):
            return "surface-entrypoints: result counts differ"
        for (u, v), a, b, d in zip(c["uvs"], o["single"], o["list"], o["d0"]):
            exp = S.surface_def(c, Uu, Uv, u, v)
            if not gc.closel(a, exp):
                return "surface-definition: evaluate_single(%r,%r) = %s, definition gives %s" % (u, v, a, [float(x) for x in exp])
            if a != b:
                return "surface-entrypoints: evaluate_list differs from evaluate_single"
            if not gc.closel(d, exp):
                return "surface-entrypoints: derivatives(u,v,0)[0][0] differs from the definition: %s" % d
        if "evalpts" in o:
            nu, nv = c["sample"]
            if o["sample_size"] != [nu, nv] or len(o["evalpts"]) != nu * nv:
                return "surface-grid: sample sizes %s give %d points" % (c["sample"], len(o["evalpts"]))
            pu, pv = c["pu"], c["pv"]
            lu, hu = F(Uu[pu]), F(Uu[len(Uu) - pu - 1])
            lv, hv = F(Uv[pv]), F(Uv[len(Uv) - pv - 1])
            for i in range(nu):
                for j in range(nv):
                    u = lu + (hu - lu) * F(i, nu - 1)
                    v = lv + (hv - lv) * F(j, nv - 1)
                    if not gc.closel(o["evalpts"][j + nv * i], S.surface_def(c, Uu, Uv, u, v)):
                        return "surface-grid: evalpts[%d] (i=%d,j=%d) is not the point at (%s,%s): v must vary fastest" % (j + nv * i, i, j, u, v)
            nu, nv = self._sizes2(c)
            if len(o["evalpts2"]) != nu * nv:
                return "surface-grid: after setting sample_size_%s the grid has %d points, expected %d x %d" % (c["which"], len(o["evalpts2"]), nu, nv)
            for i in (0, nu - 1):
                for j in range(nv):
                    u = lu + (hu - lu) * F(i, nu - 1)
                    v = lv + (hv - lv) * F(j, nv - 1)
                    if not gc.closel(o["evalpts2"][j + nv * i], S.surface_def(c, Uu, Uv, u, v)):
                        return "surface-grid: after a density edit evalpts[%d] is not the point at its grid parameter" % (j + nv * i)
        if "single2" in o:
            c2 = dict(c, P=c["P2"], W=c["W2"])
            for (u, v), a in zip(c["uvs"], o["single2"]):
                if not gc.closel(a, S.surface_def(c2, Uu, Uv, u, v)):
                    return "surface-redefined: after setting ctrlpts and then weights on an evaluated NURBS surface the point at (%r,%r) is not the definition's" % (u, v)
        return None

    def nontrivial(self, c, out):
        return "ok" in out and (c["su"] > c["pu"] + 1 or c["sv"] > c["pv"] + 1)

    def stratum(self, c, out):
        return "%s/%s" % ("nurbs" if c["rational"] else "bspline", c["kind"])


class VolumeF(Family):
    name = "volume"
    imports = ("Model.Eval",)
    count = {"quick": 50, "thorough": 500}
    has_oracle = True

    def gen(self, rng, n):
        out = []
        for _ in range(n):
            pu, pv, pw = rng.randint(1, 3), rng.randint(1, 3), rng.randint(1, 2)
            sizes = rng.sample([2, 3, 4, 5, 6], 3)
            su, sv, sw = max(sizes[0], pu + 1), max(sizes[1], pv + 1), max(sizes[2], pw + 1)
            kind = rng.choice(["uniform", "mult", "affine", "unclamped"])
            Uu, Uv, Uw = kv_for(rng, pu, su, kind), kv_for(rng, pv, sv, kind), kv_for(rng, pw, sw, kind)
            rat = rng.random() < 0.5
            ps = [[a, b, cc] for a, b, cc in zip(params(rng, Uu, pu, 2) + [Uu[pu], Uu[su]], params(rng, Uv, pv, 2) + [Uv[sv], Uv[pv]],
                                                 params(rng, Uw, pw, 2) + [Uw[pw], Uw[sw]])]
            c = {"pu": pu, "pv": pv, "pw": pw, "su": su, "sv": sv, "sw": sw, "Uu": Uu, "Uv": Uv, "Uw": Uw,
                 "P": gc.points(rng, su * sv * sw, 3), "rational": rat, "kind": kind, "normalize": kind in ("uniform", "mult"),
                 "uvws": ps, "sample": [rng.randint(2, 3), rng.randint(2, 4), rng.randint(2, 3)]}
            if rat:
                c["W"] = gc.weights(rng, su * sv * sw)
            out.append(c)
        return out

    def impl(self, c):
        def f():
            o = S.make_volume(c)
            r = {"kvu": list(o.knotvector_u), "kvv": list(o.knotvector_v), "kvw": list(o.knotvector_w),
                 "single": [o.evaluate_single(tuple(x)) for x in c["uvws"]],
                 "list": o.evaluate_list([tuple(x) for x in c["uvws"]])}
            if True:   # every knot range (the sample-size derivation was repaired in /repo 2a3e060)
                o.sample_size_u, o.sample_size_v, o.sample_size_w = c["sample"]
                r["evalpts"] = [list(x) for x in o.evalpts]
            return r
        return call(f)

    def coq(self, c, out):
        if "ok" not in out:
            return None
        o = out["ok"]
        P = S.weighted(c["P"], c["W"]) if c["rational"] else c["P"]
        a = "%s %s %s %s %s %s %s %s %s %s %s %s" % (G.b(c["rational"]), G.n(3), G.n(c["pu"]), G.n(c["pv"]), G.n(c["pw"]), G.ql(o["kvu"]), G.ql(o["kvv"]),
                                                     G.ql(o["kvw"]), G.n(c["su"]), G.n(c["sv"]), G.n(c["sw"]), G.qll(P))
        ps = "[" + "; ".join("(%s, %s, %s)" % (G.Q(u), G.Q(v), G.Q(w)) for u, v, w in c["uvws"]) + "]"
        e = "closeLL (map (obj_volume_point Qops %s) %s) %s" % (a, ps, G.sll(o["single"]))
        if "evalpts" in o:
            e = "andb (%s) (closeLL (obj_volume_evalpts Qops %s %s %s %s %s) %s)" % (e, G.Q(TOL8), a, G.n(c["sample"][0]), G.n(c["sample"][1]), G.n(c["sample"][2]), G.sll(o["evalpts"]))
        return "(" + e + ")"

    def oracle(self, c, out):
        if "ok" not in out:
            return "volume: evaluation of a valid shape failed: %s" % (out,)
        o = out["ok"]
        Uu, Uv, Uw = o["kvu"], o["kvv"], o["kvw"]
        if len(o["single"]) != len(c["uvws"]) or len(o["list"]) != len(c["uvws"]):
            return "volume-entrypoints: evaluate_list returned %d points for %d parameters" % (len(o["list"]), len(c["uvws"]))
        for (u, v, w), a, b in zip(c["uvws"], o["single"], o["list"]):
            exp = S.volume_def(c, Uu, Uv, Uw, u, v, w)
            if not gc.closel(a, exp):
                return "volume-definition: evaluate_single(%r,%r,%r) = %s, definition gives %s" % (u, v, w, a, [float(x) for x in exp])
            if a != b:
                return "volume-entrypoints: evaluate_list differs from evaluate_single"
        if "evalpts" in o:
            nu, nv, nw = c["sample"]
            if len(o["evalpts"]) != nu * nv * nw:
                return "volume-grid: sample sizes %s give %d points" % (c["sample"], len(o["evalpts"]))
            lo = [F(Uu[c["pu"]]), F(Uv[c["pv"]]), F(Uw[c["pw"]])]
            hi = [F(Uu[-c["pu"] - 1]), F(Uv[-c["pv"] - 1]), F(Uw[-c["pw"] - 1])]
            for i in range(nu):
                for j in range(nv):
                    for k in range(nw):
                        u = lo[0] + (hi[0] - lo[0]) * F(i, nu - 1)
                        v = lo[1] + (hi[1] - lo[1]) * F(j, nv - 1)
                        w = lo[2] + (hi[2] - lo[2]) * F(k, nw - 1)
                        if not gc.closel(o["evalpts"][k + nw * (j + nv * i)], S.volume_def(c, Uu, Uv, Uw, u, v, w)):
                            return "volume-grid: evalpts[%d] (i=%d,j=%d,k=%d) is not the point at the grid parameter" % (k + nw * (j + nv * i), i, j, k)
        return None

    def nontrivial(self, c, out):
        return "ok" in out and (c["su"] > c["pu"] + 1 or c["sv"] > c["pv"] + 1 or c["sw"] > c["pw"] + 1)

    def stratum(self, c, out):
        return "%s/%s" % ("nurbs" if c["rational"] else "bspline", c["kind"])


def families():
    return [CurveF(), SurfaceF(), VolumeF()]
