"""C12 - no stale derived state after any sequence of edits; deep copies are independent."""
import io, contextlib, copy, math, warnings, json, random
from fractions import Fraction as F
from core import Family, call
import gal as G
import gencommon as gc
from geomdl import NURBS, BSpline, multi, operations, compatibility, knotvector as kvmod, abstract

RULE = ("random histories (quick <= 12, thorough <= 40 operations after construction) over the alphabet {degree, knot vector, ctrlpts / "
        "ctrlptsw / weights / set_ctrlpts setters, delta / sample_size (all or one direction), insert_knot / remove_knot / refine_knotvector, "
        "reverse, transpose, flip, in-place translate / rotate / scale, tessellate(vertex_spacing), deepcopy + edits of the copy, container "
        "add / delta / sample_size / delta_u.. / in-place transforms / deepcopy, every getter} on rational and non-rational curves, "
        "surfaces, volumes and the three containers; every prefix of a history is replayed on new objects and all views of all objects "
        "are read and compared with freshly built objects (oracle) and with the Coq model (operation footprint at every step, everything "
        "at the last step); non-trivial = history with at least one successful mutator after a read; distinct by case hash")
ASSUMPTIONS = ["the code is checked as repaired by fixes/C12-*.diff (reverse, container direction setters, in-place transforms of containers, "
               "tessellate arguments, container deep copy)",
               "known finding (not repaired, model faithful): a container does not notice edits made directly to a geometry it holds",
               "evaluate(start=, stop=) (partial evaluation stored in the cache), writes through returned list references and user-replaced "
               "evaluators/tessellators are outside the property's list of edits",
               "sampled points / tessellation are only read while the definition is consistent (knot vector valid for degree and size)",
               "zero weights, ragged point lists and sample sizes < 2 are not generated; floating point rounding below 1e-9 is not observable"]
THEOREM_NOTES = ("coq/Props/C12.v, all for ARBITRARY view functions (sampled points, bounding box, tessellation are Section variables) and any "
                 "scalar type: C12_Inv_init, C12_Inv_step (every geometry operation), C12_Inv_step_world (every world operation incl. containers "
                 "and deep copies), C12_Inv_reachable (fold over any operation list) [G]; C12_read_equals_fresh [G]; C12_container_Inv_step / "
                 "_reachable and C12_container_read_equals_fresh [G under the side condition ObjR.safe = no edit of a geometry behind the back of "
                 "another container with a filled cache]; C12_deepcopy_independent and C12_ids_disjoint_reachable [G, provenance ids of the "
                 "definition slots]; C12_pinned_reverse_refuted and C12_container_alias_refuted (witnesses on the executable instance). "
                 "Round 2 (Proofs/ObjTessR.v): the container's vertices/faces aggregates obey the same invariant - after any safe history the read equals the "
                 "concatenation of the freshly tessellated elements with prefix-sum face offsets")
LEVEL_TEXT = ("Coq theorems [G] about the Gallina state-machine model Model/Obj.v of the repaired cache discipline, for arbitrary view functions "
              "(sampled points, bounding box, tessellation are Section variables): every cache of every geometry is empty or equals its view of "
              "the current definition after ANY list of operations (geometry edits, container operations, deep copies); every getter returns what "
              "a freshly built object with the same definition returns; container sampled-points caches likewise under an explicit side condition "
              "that excludes the recorded finding (editing an element behind a container's back; refutation witness proved); deep copies have "
              "fresh provenance ids, no two geometries ever share a definition slot, operations on one object leave all others unchanged. "
              "The model, run with executable view functions, is tied to /repo by random-history correspondence evaluated in Coq (every step: "
              "outcome, all views of the touched objects, in-place vs rebinding of the definition slots); the property itself is checked on every "
              "prefix of every history by a fresh-object oracle with history shrinking")
TECHNIQUE = "machine-checked proof in Coq over a hand-written Gallina state-machine model + model/implementation correspondence on random histories evaluated by coqc (vm_compute) + fresh-object oracle with history shrinking"

KEEPALIVE = []       # objects whose id() was recorded must stay alive


def pl(x):
    """copy of a list of points / a grid of points without per-element Python calls (the thorough tier traces every call)"""
    if x and x[0] and isinstance(x[0][0], (list, tuple)):
        return [[list(p) for p in row] for row in x]
    return [list(p) for p in x]


def quiet(fn, *a, **kw):
    with contextlib.redirect_stdout(io.StringIO()), warnings.catch_warnings():
        warnings.simplefilter("ignore")
        return fn(*a, **kw)


SUF = "uvw"
SLOTS = ("_control_points", "_knot_vector", "_delta", "_degree", "_control_points_size")


# ------------------------------------------------------------------ implementation side: world of live objects
class World(object):
    def __init__(self):
        self.geoms = []
        self.conts = []
        self.celems = []     # container j -> list of geometry indices (tracked by the harness)

    def index_of(self, obj):
        for i, g in enumerate(self.geoms):
            if g is obj:
                return i
        return None


def geom_class(pd, rational):
    mod = NURBS if rational else BSpline
    return {1: mod.Curve, 2: mod.Surface, 3: mod.Volume}[pd]


def set_dir(o, name, d, value):
    """degree / knotvector / delta / sample_size in one direction"""
    if o.pdimension == 1:
        setattr(o, name, value)
    else:
        setattr(o, name + "_" + SUF[d], value)


def build_geom(df, partial=False):
    """fresh object from a definition through the public setters"""
    meta = df.get("meta")
    o = geom_class(df["pdim"], df["rat"])(**({"id": meta["id"]} if meta and meta["via"] == "kwarg" else {}))
    if meta:
        if meta["via"] == "setter":
            o.id = meta["id"]
        o.name = meta["name"]
        for k, v in meta["opt"]:
            o.opt = [k, v]
    for d, p in enumerate(df["deg"]):
        set_dir(o, "degree", d, p)
    if df["cp"]:
        o.set_ctrlpts(pl(df["cp"]), *df["size"])
    if partial:
        return o
    for d, U in enumerate(df["kv"]):
        set_dir(o, "knotvector", d, list(U))
    for d, x in enumerate(df["delta"]):
        set_dir(o, "delta", d, x)
    return o


def read_def(o):
    pd = o.pdimension
    return {"pdim": pd, "rat": bool(o.rational),
            "deg": [int(o.degree)] if pd == 1 else [int(x) for x in o.degree],
            "kv": [list(o.knotvector)] if pd == 1 else [list(k) for k in o.knotvector],
            "cp": pl(o.ctrlptsw if o.rational else o.ctrlpts),
            "size": [int(x) for x in o.cpsize],
            "delta": [float(o.delta)] if pd == 1 else [float(x) for x in o.delta]}


def consistent(df):
    try:
        n = 1
        for d in range(df["pdim"]):
            p, U, s = df["deg"][d], df["kv"][d], df["size"][d]
            if p < 1 or s < p + 1 or not U or not kvmod.check(p, U, s):
                return False
            n *= s
        return n == len(df["cp"]) and n > 0 and all(0 < x <= 0.5 for x in df["delta"])
    except Exception:
        return False


def tess_view(o):
    vs = list(o.vertices)
    pos = dict((id(v), k) for k, v in enumerate(vs))
    return [[list(v.data) for v in vs], [[pos.get(id(v), 10 ** 6) for v in f.vertices] for f in o.faces]]


def observe_geom(o, tess2=True):
    """all views in a fixed order: ctrlptsw, ctrlpts, weights, ctrlpts2d, bbox, evalpts, tessellation, tessellation(2)"""
    df = read_def(o)
    ob = {"def": df, "cpw": df["cp"]}
    ob["cpts"] = call(lambda: pl(o.ctrlpts))
    ob["wts"] = call(lambda: (list(o.weights) if o.weights is not None else None))
    if df["pdim"] == 2:
        g = [[list(p) for p in row] for row in o.ctrlpts2d]
        su, sv = df["size"]
        same = (len(df["cp"]) == su * sv and g == [[df["cp"][j + i * sv] for j in range(sv)] for i in range(su)])
        ob["cp2d"] = None if same else g
    else:
        ob["cp2d"] = None
    ob["bbox"] = call(lambda: [list(x) for x in o.bbox]) if df["cp"] else {"ok": [[], []]}
    ob["with_eval"] = consistent(df)
    if ob["with_eval"]:
        ob["eval"] = call(lambda: pl(o.evalpts))
        ob["samples"] = [int(o.sample_size)] if df["pdim"] == 1 else [int(x) for x in o.sample_size]
        if df["pdim"] == 2:
            ob["tess"] = call(lambda: tess_view(o))

            def t2():
                o.tessellate(vertex_spacing=2)
                return tess_view(o)
            if tess2:
                ob["tess2"] = call(t2)
    return ob


def observe_cont(w, j):
    c = w.conts[j]
    ob = {"delta": [float(c.delta)] if c.pdimension == 1 else [float(x) for x in c.delta], "elems": list(w.celems[j]),
          "eval": call(lambda: pl(c.evalpts))}
    ob["bbox"] = call(lambda: [list(x) for x in c.bbox]) if len(c) else {"ok": [[], []]}
    if c.pdimension > 1:
        # the per-direction views of the sampling density must be the components of the container's delta
        ob["delta_dirs"] = [float(getattr(c, "delta_" + SUF[d])) for d in range(c.pdimension)]
        ss = c.sample_size
        ob["ssz_ok"] = isinstance(ss, (list, tuple)) and [int(x) for x in ss] == [int(getattr(c, "sample_size_" + SUF[d])) for d in range(c.pdimension)]
    else:
        ob["ssz_ok"] = not isinstance(c.sample_size, (list, tuple))
    if c.pdimension == 2:
        def tv():
            vs = list(c.vertices)
            pos = dict((id(v), k) for k, v in enumerate(vs))
            return [[list(v.data) for v in vs], [[pos.get(id(v), 10 ** 6) for v in f.vertices] for f in c.faces]]
        ob["tess"] = call(tv) if len(c) else {"ok": [[], []]}
    return ob


def slot_ids(o):
    out = []
    for s in SLOTS:
        x = getattr(o, s, None)
        KEEPALIVE.append(x)
        out.append(id(x))
    return out


def reachable(o, seen=None, depth=0):
    """ids of mutable containers / geomdl objects reachable from o (for the sharing check)"""
    seen = {} if seen is None else seen
    if depth > 6 or id(o) in seen:
        return seen
    if isinstance(o, (list, dict, set)) or (hasattr(o, "__dict__") and type(o).__module__.startswith("geomdl")):
        seen[id(o)] = o
        if isinstance(o, dict):
            it = list(o.values())
        elif isinstance(o, (list, set)):
            it = list(o)
        else:
            it = list(o.__dict__.values())
        for x in it:
            if isinstance(x, (list, dict, set)) or hasattr(x, "__dict__"):
                reachable(x, seen, depth + 1)
    elif isinstance(o, tuple):
        for x in o:
            reachable(x, seen, depth + 1)
    return seen


def apply_gop(o, op):
    t = op[0]
    pd = o.pdimension
    if t == "degree":
        set_dir(o, "degree", op[1], op[2])
    elif t == "knots":
        set_dir(o, "knotvector", op[1], list(op[2]))
    elif t == "set_ctrlpts":
        if op[3] == "prop":
            if o.rational:
                o.ctrlptsw = pl(op[1])
            else:
                o.ctrlpts = pl(op[1])
        elif op[3] == "2d":
            su, sv = op[2]
            o.ctrlpts2d = [[list(op[1][j + i * sv]) for j in range(sv)] for i in range(su)]
        else:
            o.set_ctrlpts(pl(op[1]), *op[2])
    elif t == "ctrlpts":
        o.ctrlpts = pl(op[1])
    elif t == "weights":
        o.weights = list(op[1])
    elif t == "delta":
        if op[1] is None:
            o.delta = op[2]
        else:
            set_dir(o, "delta", op[1], op[2])
    elif t == "sample":
        if op[1] is None:
            o.sample_size = op[2]
        else:
            set_dir(o, "sample_size", op[1], op[2])
    elif t in ("insert", "remove"):
        fn = o.insert_knot if t == "insert" else o.remove_knot
        if pd == 1:
            fn(op[1][0], num=op[2][0])
        else:
            kw = dict((SUF[d], op[1][d]) for d in range(pd))
            kw.update(dict(("num_" + SUF[d], op[2][d]) for d in range(pd)))
            fn(**kw)
    elif t == "refine":
        operations.refine_knotvector(o, list(op[1]))
    elif t == "reverse":
        o.reverse()
    elif t == "transpose":
        o.transpose()
    elif t == "flip":
        operations.flip(o, inplace=True)
    elif t == "translate":
        operations.translate(o, list(op[1]), inplace=True)
    elif t == "scale":
        operations.scale(o, op[1], inplace=True)
    elif t == "rotate":
        operations.rotate(o, op[1], axis=op[2], inplace=True)
    elif t == "tessellate":
        if op[1] == 0:
            o.tessellate()
        else:
            o.tessellate(vertex_spacing=op[1])
    elif t == "r_cpw":
        return pl(o.ctrlptsw if o.rational else o.ctrlpts)
    elif t == "r_cpts":
        return pl(o.ctrlpts)
    elif t == "r_wts":
        return list(o.weights) if o.weights is not None else None
    elif t == "r_cp2d":
        return [[list(p) for p in row] for row in o.ctrlpts2d]
    elif t == "r_eval":
        return pl(o.evalpts)
    elif t == "r_bbox":
        return [list(x) for x in o.bbox]
    elif t == "r_tess":
        return tess_view(o)
    else:
        raise RuntimeError("unknown op " + t)
    return None


READERS = ("r_cpw", "r_cpts", "r_wts", "r_cp2d", "r_eval", "r_bbox", "r_tess", "tessellate")


def apply_op(w, op):
    """returns (outcome, info) ; info carries what the model needs (read-backs)"""
    t = op[0]
    info = {}
    if t == "new":
        out = call(build_geom, op[1])
        if "ok" in out:
            w.geoms.append(out["ok"])
            info["def"] = read_def(out["ok"])
            out = {"ok": None}
        return out, info
    if t == "g":
        o = w.geoms[op[1]]
        g = op[2]
        if g[0] == "rotate":
            dom = o.domain
            prm = dom[0] if o.pdimension == 1 else [dom[d][0] for d in range(o.pdimension)]
            info["origin"] = [float(x) for x in o.evaluate_single(prm)]
        before = slot_ids(o)
        out = call(apply_gop, o, g)
        after = slot_ids(o)
        info["ids_same"] = [a == b for a, b in zip(before, after)]
        if g[0] in ("insert", "remove", "refine"):
            info["def"] = read_def(o)
        return out, info
    if t == "copy":
        out = call(copy.deepcopy, w.geoms[op[1]])
        if "ok" in out:
            w.geoms.append(out["ok"])
            out = {"ok": None}
        return out, info
    if t == "newcont":
        cls = {1: multi.CurveContainer, 2: multi.SurfaceContainer, 3: multi.VolumeContainer}[op[1]]
        c = cls()
        w.conts.append(c)
        w.celems.append([])
        info["delta"] = float(c.delta) if op[1] == 1 else float(c.delta[0])
        return {"ok": None}, info
    if t == "ccopy":
        out = call(copy.deepcopy, w.conts[op[1]])
        if "ok" in out:
            c2 = out["ok"]
            w.conts.append(c2)
            idx = []
            for e in c2:
                k = w.index_of(e)
                if k is None:
                    w.geoms.append(e)
                    k = len(w.geoms) - 1
                idx.append(k)
            w.celems.append(idx)
            out = {"ok": None}
        return out, info
    # container op
    j, co = op[1], op[2]
    c = w.conts[j]
    k = co[0]

    def run():
        if k == "add":
            n0 = len(c)
            c.add(w.geoms[co[1]])
            if len(c) > n0:
                w.celems[j].append(co[1])
        elif k == "delta":
            c.delta = co[1]
        elif k == "delta_dir":
            setattr(c, "delta_" + SUF[co[1]], co[2])
        elif k == "sample":
            c.sample_size = co[1]
        elif k == "sample_dir":
            setattr(c, "sample_size_" + SUF[co[1]], co[2])
        elif k == "translate":
            operations.translate(c, list(co[1]), inplace=True)
        elif k == "scale":
            operations.scale(c, co[1], inplace=True)
        elif k == "r_eval":
            return pl(c.evalpts)
        elif k == "r_bbox":
            return [list(x) for x in c.bbox]
        elif k == "r_tess":
            vs = list(c.vertices)
            pos = dict((id(v), n) for n, v in enumerate(vs))
            return [[list(v.data) for v in vs], [[pos.get(id(v), 10 ** 6) for v in f.vertices] for f in c.faces]]
        else:
            raise RuntimeError("unknown container op " + k)
        return None
    return call(run), info


def is_mutator(op):
    if op[0] == "g":
        return op[2][0] not in READERS
    if op[0] == "c":
        return not op[2][0].startswith("r_")
    return True


def footprint(w, op):
    """(geometry indices, container indices) whose views the Coq model is compared on after this op"""
    t = op[0]
    if t == "new":
        return [len(w.geoms) - 1], []
    if t == "g":
        return [op[1]], [j for j, el in enumerate(w.celems) if op[1] in el]
    if t == "copy":
        return [op[1], len(w.geoms) - 1], []
    if t == "newcont":
        return [], [len(w.conts) - 1]
    if t == "ccopy":
        return list(w.celems[-1]) + list(w.celems[op[1]]), [op[1], len(w.conts) - 1]
    return list(w.celems[op[1]]), [op[1]]


# ------------------------------------------------------------------ fresh-object oracle
def cmp_view(name, a, b):
    if ("ok" in a) != ("ok" in b):
        return "%s: object gives %s, a fresh object %s" % (name, str(a)[:120], str(b)[:120])
    if "ok" not in a:
        return None
    x, y = a["ok"], b["ok"]
    if x == y:
        return None
    if name.startswith("tess"):
        if x[1] != y[1] or not gc.closel(x[0], y[0], 1e-10):
            return "%s: %d vertices / %d faces, a fresh object has %d / %d (or positions differ)" % (name, len(x[0]), len(x[1]), len(y[0]), len(y[1]))
        return None
    if x is None or y is None:
        return None if x == y else "%s: %r vs fresh %r" % (name, x, y)
    if not gc.closel(x, y, 1e-10):
        return "%s: %s..., a fresh object with the same definition reports %s..." % (name, str(x)[:160], str(y)[:160])
    return None


def fresh_check_geom(ob, k_eff, label):
    """compare every view of an object (observation ob, read in place) with a freshly built object; message or None"""
    df = ob["def"]
    full = ob["with_eval"]
    try:
        f = build_geom(df, partial=not full)
    except Exception as e:
        return None if not df["cp"] else "%s: a fresh object cannot be built from the definition (%s: %s)" % (label, type(e).__name__, e)
    fo = {}
    fo["cpts"] = call(lambda: pl(f.ctrlpts))
    fo["wts"] = call(lambda: (list(f.weights) if f.weights is not None else None))
    fo["bbox"] = call(lambda: [list(x) for x in f.bbox]) if df["cp"] else {"ok": [[], []]}
    for v in ("cpts", "wts", "bbox"):
        m = cmp_view(v, ob[v], fo[v])
        if m:
            return "%s %s" % (label, m)
    if df["pdim"] == 2 and ob["cp2d"] is not None:
        return "%s ctrlpts2d is not the [u][v] arrangement of the control points" % label
    if full:
        m = cmp_view("evalpts", ob["eval"], call(lambda: pl(f.evalpts)))
        if m:
            return "%s %s" % (label, m)
        fs = [int(f.sample_size)] if df["pdim"] == 1 else [int(x) for x in f.sample_size]
        if fs != ob["samples"]:
            return "%s sample_size %s vs fresh %s" % (label, ob["samples"], fs)
        if df["pdim"] == 2:
            def ft(k):
                f.tessellate(vertex_spacing=k)
                return tess_view(f)
            m = cmp_view("tessellation (vertices/faces)", ob["tess"], call(ft, k_eff))
            if m:
                return "%s %s" % (label, m)
            m = cmp_view("tessellation after tessellate(vertex_spacing=2)", ob["tess2"], call(ft, 2))
            if m:
                return "%s %s" % (label, m)
    return None


def reader_check_geom(reader, value, ob, k_eff, label):
    """the value a getter returned inside the history must be what a freshly built object returns"""
    df = ob["def"]
    full = ob["with_eval"]
    if reader in ("r_eval", "r_tess") and not full:
        return None
    try:
        f = build_geom(df, partial=not full)
    except Exception:
        return None
    if reader == "r_cpw":
        exp = call(lambda: pl(f.ctrlptsw if f.rational else f.ctrlpts))
    elif reader == "r_cpts":
        exp = call(lambda: pl(f.ctrlpts))
    elif reader == "r_wts":
        exp = call(lambda: (list(f.weights) if f.weights is not None else None))
    elif reader == "r_cp2d":
        exp = call(lambda: [[list(p) for p in row] for row in f.ctrlpts2d])
    elif reader == "r_bbox":
        exp = call(lambda: [list(x) for x in f.bbox])
    elif reader == "r_eval":
        exp = call(lambda: pl(f.evalpts))
    elif reader == "r_tess":
        def ft():
            f.tessellate(vertex_spacing=k_eff)
            return tess_view(f)
        exp = call(ft)
    else:
        return None
    name = {"r_tess": "tessellation read in the history"}.get(reader, reader[2:] + " read in the history")
    m = cmp_view(name, {"ok": value}, exp)
    return "%s %s" % (label, m) if m else None


def fresh_cont(w, j, delta):
    c = w.conts[j]
    fc = type(c)()
    for i in w.celems[j]:
        df = read_def(w.geoms[i])
        fc.add(build_geom(df, partial=not consistent(df)))
    fc.delta = delta[0] if c.pdimension == 1 else delta
    return fc


def cont_tess_view(c):
    vs = list(c.vertices)
    pos = dict((id(v), n) for n, v in enumerate(vs))
    return [[list(v.data) for v in vs], [[pos.get(id(v), 10 ** 6) for v in f.vertices] for f in c.faces]]


def reader_check_cont(w, j, reader, value, ob, label):
    try:
        fc = fresh_cont(w, j, ob["delta"])
    except Exception:
        return None
    if reader == "r_eval":
        exp = call(lambda: pl(fc.evalpts))
    elif reader == "r_bbox":
        exp = call(lambda: [list(x) for x in fc.bbox])
    else:
        exp = call(cont_tess_view, fc)
    m = cmp_view("container " + reader[2:] + " read in the history", {"ok": value}, exp)
    return "%s %s" % (label, m) if m else None


def fresh_check_cont(w, j, ob, label):
    c = w.conts[j]
    try:
        fc = type(c)()
        for i in w.celems[j]:
            df = read_def(w.geoms[i])
            fc.add(build_geom(df, partial=not consistent(df)))
        fc.delta = ob["delta"][0] if c.pdimension == 1 else ob["delta"]
    except Exception as e:
        return "%s: a fresh container cannot be built (%s: %s)" % (label, type(e).__name__, e)
    if ob.get("ssz_ok") is False:
        return "%s sample_size of the container is not the scalar (curves) / the list of its per-direction sample sizes" % label
    if "delta_dirs" in ob and ob["delta_dirs"] != ob["delta"]:
        return "%s delta_u/v/w of the container are %s, its delta is %s" % (label, ob["delta_dirs"], ob["delta"])
    m = cmp_view("container evalpts", ob["eval"], call(lambda: pl(fc.evalpts)))
    if m:
        return "%s %s" % (label, m)
    if len(c):
        m = cmp_view("container bbox", ob["bbox"], call(lambda: [list(x) for x in fc.bbox]))
        if m:
            return "%s %s" % (label, m)
        if c.pdimension == 2:
            def tv():
                vs = list(fc.vertices)
                pos = dict((id(v), n) for n, v in enumerate(vs))
                return [[list(v.data) for v in vs], [[pos.get(id(v), 10 ** 6) for v in f.vertices] for f in fc.faces]]
            m = cmp_view("tessellation of the container", ob["tess"], call(tv))
            if m:
                return "%s %s" % (label, m)
    return None


def all_consistent(w, j):
    return all(consistent(read_def(w.geoms[i])) for i in w.celems[j])


def effective(op, res):
    """did this mutator really edit the object (and hence reset the tessellation)?  res = (outcome, info) of the run"""
    if res is None:
        return True
    out, info = res
    if "ok" not in out:
        return False
    if op[0] == "g" and op[2][0] in ("insert", "remove", "refine"):
        return not info.get("ids_same", [False])[0]       # refused insertions / removals print a message and change nothing
    return True


def k_eff_of(ops, upto, i, results=None):
    """vertex spacing a plain .vertices read of geometry i refers to after ops[:upto] (explicit tessellate(vertex_spacing=k)
    stays in force until the next effective edit; a deep copy inherits the tessellation of its source)"""
    ks = []
    for n, op in enumerate(ops[:upto]):
        if op[0] == "new":
            ks.append(1)
        elif op[0] == "copy":
            ks.append(ks[op[1]] if op[1] < len(ks) else 1)
        elif op[0] == "g" and op[1] < len(ks):
            if op[2][0] == "tessellate":
                if op[2][1] >= 1:
                    ks[op[1]] = op[2][1]
            elif is_mutator(op) and effective(op, results[n] if results else None):
                ks[op[1]] = 1
    return ks[i] if i < len(ks) else 1


def run_results(ops):
    w = World()
    return [apply_op(w, op) for op in ops]


def known_alias_class(ops, upto, elems, j):
    """a geometry held by container j was edited (directly or through another container) after container j cached
    something and container j was not edited afterwards (known finding: containers do not observe their elements)"""
    filled = False
    dirty = False
    for op in ops[:upto]:
        if op[0] == "c" and op[1] == j:
            if op[2][0].startswith("r_"):
                filled = True
            else:
                filled, dirty = False, False
        elif filled and op[0] == "g" and op[1] in elems and is_mutator(op):
            dirty = True
        elif filled and op[0] == "c" and op[1] != j and op[2][0] in ("translate", "scale"):
            dirty = True
    return dirty


def replay(ops, upto):
    w = World()
    for op in ops[:upto]:
        apply_op(w, op)
    return w


def check_prefix(ops, k, results, prev_gobs):
    """ONE replay of ops[:k]; observes every geometry and container once and evaluates the property on them:
    sharing between geometries, copy equals source, fresh-object comparison of every view, independence of the other
    geometries.  Returns (message or None, known_class, geometry observations, container observations)"""
    w = replay(ops, k)
    last = ops[k - 1]
    msg, known = None, False
    # sharing between geometries (deep copies must be independent): before any view is read
    rs = [reachable(g) for g in w.geoms] if (last[0] in ("new", "copy", "ccopy") or k == len(ops)) else []
    for a in range(len(rs)):
        for b in range(a + 1, len(rs)):
            common = [x for x in rs[a] if x in rs[b]]
            if common and not msg:
                msg = "independence: geometries %d and %d share a mutable %s object after step %d" % (a, b, type(rs[a][common[0]]).__name__, k)
    meta_bad = None
    if last[0] == "copy" and last[1] < len(w.geoms):
        src, cp = w.geoms[last[1]], w.geoms[-1]
        if (cp.id, cp.name, cp.opt, cp.pdimension, cp.rational) != (src.id, src.name, src.opt, src.pdimension, src.rational):
            meta_bad = "deepcopy: id / name / opt / kind of the copy of geometry %d differ from the source after step %d" % (last[1], k)
    gobs = [observe_geom(g) for g in w.geoms]
    cobs = [observe_cont(w, j) if all_consistent(w, j) else None for j in range(len(w.conts))]
    if not msg and meta_bad:
        msg = meta_bad
    if not msg and last[0] == "copy" and last[1] < len(gobs):
        a, b = gobs[last[1]], gobs[-1]
        for key in ("def", "cpts", "wts", "bbox", "eval", "tess"):
            if a.get(key) != b.get(key):
                msg = "deepcopy: the copy of geometry %d made in step %d differs from its source in %s: %s vs %s" % (
                    last[1], k, key, str(b.get(key))[:200], str(a.get(key))[:200])
                break
    if not msg and last[0] == "ccopy" and cobs[last[1]] is not None and cobs[-1] is not None:
        a, b = cobs[last[1]], cobs[-1]
        for key in ("delta", "eval", "bbox", "tess"):
            if a.get(key) != b.get(key):
                msg = "deepcopy: the copy of container %d made in step %d differs from its source in %s" % (last[1], k, key)
                break
    if not msg:
        for i, ob in enumerate(gobs):
            msg = fresh_check_geom(ob, k_eff_of(ops, k, i, results), "step %d geometry %d:" % (k, i))
            if msg:
                break
    res_last = results[k - 1][0] if results else None
    if not msg and last[0] == "g" and last[2][0] in READERS and last[2][0] != "tessellate" and res_last and "ok" in res_last and last[1] < len(gobs):
        msg = reader_check_geom(last[2][0], res_last["ok"], gobs[last[1]], k_eff_of(ops, k, last[1], results), "step %d geometry %d:" % (k, last[1]))
    if not msg and last[0] == "c" and last[2][0].startswith("r_") and res_last and "ok" in res_last and cobs[last[1]] is not None:
        msg = reader_check_cont(w, last[1], last[2][0], res_last["ok"], cobs[last[1]], "step %d container %d:" % (k, last[1]))
        if msg:
            known = known_alias_class(ops, k, w.celems[last[1]], last[1])
    if (not msg and last[0] == "g" and prev_gobs is not None and last[1] < len(prev_gobs) and last[2][0] in ("ctrlpts", "weights")
            and res_last and "ok" in res_last and not (last[2][0] == "ctrlpts" and len(last[2]) > 2)):
        # a rational shape's ctrlpts setter keeps its weights, its weights setter keeps its Cartesian control points
        a, b = prev_gobs[last[1]], gobs[last[1]]
        key = "wts" if last[2][0] == "ctrlpts" else "cpts"
        if "ok" in a.get(key, {}) and a[key]["ok"] is not None and not ("ok" in b.get(key, {}) and gc.closel(a[key]["ok"], b[key]["ok"], 1e-10)):
            msg = "setter: step %d assigns only the %s of geometry %d but its %s changed from %s to %s" % (
                k, last[2][0], last[1], "weights" if key == "wts" else "control points", str(a[key].get("ok"))[:120], str(b[key].get("ok"))[:120])
    if not msg and last[0] == "g" and prev_gobs is not None:
        for i in range(min(len(prev_gobs), len(gobs))):
            if i == last[1]:
                continue
            for key in ("def", "cpts", "wts", "bbox", "eval", "tess"):
                if key in prev_gobs[i] and prev_gobs[i].get(key) != gobs[i].get(key):
                    msg = "independence: step %d edits geometry %d but %s of geometry %d changed" % (k, last[1], key, i)
                    break
            if msg:
                break
    if not msg:
        for j, ob in enumerate(cobs):
            if ob is None:
                continue
            msg = fresh_check_cont(w, j, ob, "step %d container %d:" % (k, j))
            if msg:
                known = known_alias_class(ops, k, w.celems[j], j)
                break
    return msg, known, gobs, cobs, w


def check_history(ops, results, stop_at_first=True):
    """property check of every prefix; returns list of [k, message, known] and per-prefix observations"""
    msgs, per = [], []
    prev = None
    for k in range(1, len(ops) + 1):
        m, known, gobs, cobs, w = check_prefix(ops, k, results, prev)
        per.append((gobs, cobs))
        prev = gobs
        if m:
            msgs.append([k, m, bool(known)])
            if not known and stop_at_first:
                break
    return msgs, per


def shrink(ops, failing):
    """drop operations while the history still fails (failing(ops) -> bool)"""
    cur = list(ops)
    changed = True
    rounds = 0
    while changed and rounds < 6:
        changed = False
        rounds += 1
        i = len(cur) - 1
        while i >= 0:
            cand = cur[:i] + cur[i + 1:]
            try:
                if cand and failing(cand):
                    cur = cand
                    changed = True
            except Exception:
                pass
            i -= 1
    return cur


def history_fails(ops):
    try:
        msgs, _ = check_history(ops, run_results(ops))
        return any(not x[2] for x in msgs)
    except Exception:
        return False


# ------------------------------------------------------------------ rendering for the Coq model
def g_def(df):
    return "(mkDef %s %s %s %s %s %s %s)" % (G.n(df["pdim"]), G.b(df["rat"]), G.nl(df["deg"]), G.qll(df["kv"]), G.qll(df["cp"]),
                                            G.nl(df["size"]), G.ql(df["delta"]))


def g_gop(g, info, pd):
    t = g[0]
    alld = "[%s]%%nat" % "; ".join(str(d) for d in range(pd))
    if t == "degree":
        return "SetDegree %s %s" % (G.n(g[1]), G.n(g[2]))
    if t == "knots":
        return "SetKnots %s %s" % (G.n(g[1]), G.ql(g[2]))
    if t == "set_ctrlpts":
        return "SetCtrlpts %s %s" % (G.qll(g[1]), G.nl(g[2]))
    if t == "ctrlpts":
        return "SetPts %s" % G.qll(g[1])
    if t == "weights":
        return "SetWts %s" % G.ql(g[1])
    if t == "delta":
        return "SetDelta %s %s" % (alld if g[1] is None else "[%d]%%nat" % g[1], G.Q(g[2]))
    if t == "sample":
        return "SetSample %s %s" % (alld if g[1] is None else "[%d]%%nat" % g[1], G.n(g[2]))
    if t in ("insert", "remove", "refine"):
        if info.get("ids_same", [True])[0]:
            return "SetDelta []%nat 0%Q"       # the operation was refused: nothing happened
        df = info["def"]
        return "Redefine %s %s %s" % (G.qll(df["kv"]), G.qll(df["cp"]), G.nl(df["size"]))
    if t == "reverse":
        return "Reverse"
    if t == "transpose":
        return "Transpose"
    if t == "flip":
        return "Flip"
    if t == "translate":
        return "Translate %s" % G.ql(g[1])
    if t == "scale":
        return "Scale %s" % G.Q(g[1])
    if t == "rotate":
        r = math.radians(g[1])
        return "Rotate %s %s %s %s" % (G.n(g[2]), G.ql(info["origin"]), G.Q(math.cos(r)), G.Q(math.sin(r)))
    if t == "tessellate":
        return "Tessellate %s" % G.n(g[1])
    return {"r_cpw": "ReadCpw", "r_cpts": "ReadCpts", "r_wts": "ReadWts", "r_cp2d": "ReadCp2d", "r_eval": "ReadEval",
            "r_bbox": "ReadBBox", "r_tess": "ReadTess"}[t]


def g_cop(co):
    k = co[0]
    if k == "add":
        return "CAdd %s" % G.n(co[1])
    if k == "delta":
        return "CSetDelta %s" % G.Q(co[1])
    if k == "delta_dir":
        return "CSetDeltaDir %s %s" % (G.n(co[1]), G.Q(co[2]))
    if k == "sample":
        return "CSetSample %s" % G.n(co[1])
    if k == "sample_dir":
        return "CSetSampleDir %s %s" % (G.n(co[1]), G.n(co[2]))
    if k == "translate":
        return "CTranslate %s" % G.ql(co[1])
    if k == "scale":
        return "CScale %s" % G.Q(co[1])
    return {"r_eval": "CReadEval", "r_bbox": "CReadBBox", "r_tess": "CReadTess"}[k]


def g_tess(t):
    return "(%s, %s)" % (G.sll(t[0]), G.nll(t[1]))


def g_box(b):
    return "(%s, %s)" % (G.sl(b[0]), G.sl(b[1]))


def g_out(op, out):
    def val(v):
        t = op[2][0] if op[0] in ("g", "c") else ""
        if v is None:
            return "IoNoWts" if t == "r_wts" else "IoNone"
        if t in ("r_cpw", "r_cpts", "r_eval"):
            return "(IoPts %s)" % G.sll(v)
        if t == "r_wts":
            return "(IoWts %s)" % G.sl(v)
        if t == "r_cp2d":
            return "(IoGrid %s)" % G.slll(v)
        if t == "r_bbox":
            return "(IoBox %s)" % g_box(v)
        if t == "r_tess":
            return "(IoTess %s)" % g_tess(v)
        return "IoNone"
    return G.res(out, val)


def okv(x, default):
    return x["ok"] if isinstance(x, dict) and "ok" in x else default


def g_iobs(ob):
    """None if an observation raised (then this object is not compared)"""
    for key in ("cpts", "wts", "bbox", "eval", "tess", "tess2"):
        if key in ob and "ok" not in ob[key]:
            return None
    df = ob["def"]
    we = ob["with_eval"]
    empty_t = [[], []]
    return "(mkIobs %s %s %s %s %s %s %s %s %s %s %s %s %s %s [])" % (
        G.b(we), G.sll(ob["cpw"]), G.sll(ob["cpts"]["ok"]), G.sl(ob["wts"]["ok"] or []),
        G.opt(ob["cp2d"], G.slll), g_box(ob["bbox"]["ok"]), G.sll(ob["eval"]["ok"] if we else []),
        g_tess(ob["tess"]["ok"] if we and "tess" in ob else empty_t), g_tess(ob["tess2"]["ok"] if we and "tess2" in ob else empty_t),
        G.nl(df["deg"]), G.nl(df["size"]), G.sll(df["kv"]), G.sl(df["delta"]), G.nl(ob["samples"] if we else []))


def g_icobs(ob):
    for key in ("eval", "bbox", "tess"):
        if key in ob and "ok" not in ob[key]:
            return None
    return "(mkIcobs %s %s %s %s %s)" % (G.sll(ob["eval"]["ok"]), g_box(ob["bbox"]["ok"]),
                                         G.opt(ob["tess"]["ok"] if "tess" in ob else None, g_tess), G.sl(ob["delta"]), G.nl(ob["elems"]))


# ------------------------------------------------------------------ history generation (the implementation tracks the state)
def rand_def(rng, pd, rational):
    dim = rng.choice([2, 3]) if pd == 1 else 3
    degs, sizes, kvs = [], [], []
    for d in range(pd):
        p = rng.randint(1, 3) if pd == 1 else (rng.randint(1, 2) if pd == 2 else 1)
        nint = rng.choice([0, 1, 2]) if pd == 1 else rng.choice([0, 1])
        U, _ = gc.knotvector(rng, p, kind=rng.choice(["uniform", "mult"]), nint=nint, grid=8)
        degs.append(p)
        kvs.append(U)
        sizes.append(len(U) - p - 1)
    n = 1
    for s in sizes:
        n *= s
    pts = gc.points(rng, n, dim, grid=4, lim=8)
    if rational:
        pts = compatibility.combine_ctrlpts_weights(pts, gc.weights(rng, n))
    dl = {1: [0.5, 0.25, 0.2], 2: [0.5, 0.34, 0.25], 3: [0.5, 0.34]}[pd]
    df = {"pdim": pd, "rat": rational, "deg": degs, "kv": kvs, "cp": pts, "size": sizes, "delta": [rng.choice(dl) for _ in range(pd)]}
    if rng.random() < 0.6:
        # metadata (not part of the definition): a small non-zero id that coincides with a degree / size / the parametric dimension
        cand = [pd, degs[0], sizes[0], degs[-1], sizes[-1], rng.randint(1, 6)]
        df["meta"] = {"id": int(rng.choice(cand)), "via": rng.choice(["kwarg", "setter"]), "name": rng.choice(["part", "s-1", ""]),
                      "opt": [["face_id", rng.randint(1, 6)], ["tag", "x"]][:rng.randint(0, 2)]}
    return df


def new_kv(rng, p, n):
    """a valid clamped knot vector for degree p and n control points (dyadic interior knots, multiplicity <= p)"""
    nint = n - p - 1
    if nint <= 0:
        return [0.0] * (p + 1) + [1.0] * (p + 1)
    grid = 16
    while (grid - 1) * p < nint:
        grid *= 2
    pool = [v for v in range(1, grid) for _ in range(p)]
    vals = sorted(rng.sample(pool, nint))
    return [0.0] * (p + 1) + [v / float(grid) for v in vals] + [1.0] * (p + 1)


def rand_gop(rng, o, allow_big=True, allow_k2=True):
    """one valid (mostly) operation for the live geometry o; may return a short list (composite edits)"""
    df = read_def(o)
    pd, rat = df["pdim"], df["rat"]
    ok = consistent(df)
    n = len(df["cp"])
    dimh = len(df["cp"][0]) if n else 3
    dim = dimh - (1 if rat else 0)
    dls = {1: [0.5, 0.25, 0.2, 0.125], 2: [0.5, 0.34, 0.25], 3: [0.5, 0.34]}[pd]
    choices = ["read"] * 5 + ["ctrlpts", "ctrlpts", "delta", "delta", "delta", "sample", "sample", "knots", "degree", "translate", "scale", "rotate", "insert", "remove", "refine", "bad"]
    if rat:
        choices += ["weights", "weights", "ctrlptsw", "ctrlptsw"]
    if pd == 1:
        choices += ["reverse", "reverse"]
    if pd == 2:
        choices += ["transpose", "flip", "tessellate", "tessellate", "ctrlpts2d"]
    if not ok:
        choices = ["read", "ctrlpts", "delta"]
    c = rng.choice(choices)
    if c == "read":
        r = ["r_cpw", "r_cpts", "r_bbox", "r_eval", "r_eval", "r_bbox"]
        if rat:
            r += ["r_wts", "r_cpts", "r_wts"]
        if pd == 2:
            r += ["r_cp2d", "r_tess", "r_tess"]
        if not ok:
            r = ["r_cpw", "r_cpts", "r_bbox"]
        return [[rng.choice(r)]]
    if c == "ctrlpts":
        pts = gc.points(rng, n, dim, grid=4, lim=8)
        if rat:
            return [["ctrlpts", pts]]
        if rng.random() < 0.5:
            return [["set_ctrlpts", pts, df["size"], "prop"]]
        return [["set_ctrlpts", pts, df["size"], "call"]]
    if c == "ctrlptsw":
        pts = compatibility.combine_ctrlpts_weights(gc.points(rng, n, dim, grid=4, lim=8), gc.weights(rng, n))
        return [["set_ctrlpts", pts, df["size"], rng.choice(["prop", "call"])]]
    if c == "ctrlpts2d":
        pts = gc.points(rng, n, dimh, grid=4, lim=8)
        if rat:
            pts = [p[:-1] + [rng.choice([0.5, 1.0, 2.0])] for p in pts]
        return [["set_ctrlpts", pts, df["size"], "2d"]]
    if c == "weights":
        return [["weights", gc.weights(rng, n)]]
    if c == "delta":
        cur = df["delta"]
        d = rng.choice([None] + list(range(pd)) * 2)
        cand = [x for x in dls if d is None or abs(x - cur[d]) > 1e-9] or dls
        return [["delta", d, rng.choice(cand)]]
    if c == "sample":
        return [["sample", rng.choice([None] + list(range(pd)) * 2), rng.choice({1: [2, 3, 4, 6], 2: [2, 3, 4], 3: [2, 3]}[pd])]]
    if c == "knots":
        d = rng.randrange(pd)
        return [["knots", d, new_kv(rng, df["deg"][d], df["size"][d])]]
    if c == "degree":
        d = rng.randrange(pd)
        p = df["deg"][d]
        cand = [q for q in (1, 2, 3) if q != p and q + 1 <= df["size"][d]]
        if not cand:
            return [["r_bbox"]]
        q = rng.choice(cand)
        mid = [[rng.choice(["r_cpts", "r_bbox", "r_cpw"])]] if rng.random() < 0.5 else []
        return [["degree", d, q]] + mid + [["knots", d, new_kv(rng, q, df["size"][d])]]
    if c == "translate":
        return [["translate", [rng.choice([-2.0, -0.5, 0.25, 1.0, 3.0]) for _ in range(dim)]]]
    if c == "scale":
        return [["scale", rng.choice([0.5, 2.0, -1.0, 1.5])]]
    if c == "rotate":
        return [["rotate", rng.choice([30, 45, 90, 180, -60]), 2 if dim == 2 else rng.randrange(3)]]
    if c in ("insert", "remove", "refine") and n > (24 if allow_big else 12):
        return [["r_eval"]]
    if c == "insert":
        prm, num = [None] * pd, [0] * pd
        d = rng.randrange(pd)
        prm[d] = rng.choice([k / 16.0 for k in range(1, 16)])
        num[d] = 1 if rng.random() < 0.8 else 2
        return [["insert", prm, num]]
    if c == "remove":
        prm, num = [None] * pd, [0] * pd
        d = rng.randrange(pd)
        U, p = df["kv"][d], df["deg"][d]
        inner = U[p + 1:len(U) - p - 1]
        prm[d] = rng.choice(inner) if inner and rng.random() < 0.85 else 0.4375
        num[d] = 1
        return [["remove", prm, num]]
    if c == "refine":
        dens = [0] * pd
        dens[rng.randrange(pd)] = 1
        return [["refine", dens]]
    if c == "reverse":
        return [["reverse"]]
    if c == "transpose":
        return [["transpose"]]
    if c == "flip":
        return [["flip"]]
    if c == "tessellate":
        return [["tessellate", rng.choice([0, 1, 2, 2] if allow_k2 else [0, 1])]] + ([["r_tess"]] if rng.random() < 0.7 else [])
    # "bad": an edit that must be refused and leave everything as it is
    b = rng.choice(["delta", "knots", "few"])
    if b == "delta":
        return [["delta", rng.choice([None, 0]), rng.choice([1.0, 0.0, -0.25, 1.5])]]
    if b == "knots":
        d = rng.randrange(pd)
        U = list(df["kv"][d])
        if len(U) > 2 and U[0] != U[-1]:
            U[0], U[-1] = U[-1], U[0]
        return [["knots", d, U]]
    if pd == 1:
        pts = gc.points(rng, df["deg"][0], dimh, grid=4, lim=8)
        return [["set_ctrlpts", pts, [len(pts)], "call"]]
    return [["delta", None, 2.0]]


def fill_reader(rng, o):
    """a getter that fills one of the caches of o (so that the next edit has something to invalidate)"""
    df = read_def(o)
    if not consistent(df):
        return rng.choice(["r_cpts", "r_bbox"])
    r = ["r_eval", "r_eval", "r_bbox", "r_cpts"]
    if df["rat"]:
        r += ["r_wts", "r_wts", "r_cpts"]
    if df["pdim"] == 2:
        r += ["r_tess", "r_tess", "r_eval"]
    return rng.choice(r)


def mut_templates(rng, df):
    """one instance of every mutator (per direction where it has one) that is valid for the definition df"""
    pd, rat = df["pdim"], df["rat"]
    n = len(df["cp"])
    dimh = len(df["cp"][0])
    dim = dimh - (1 if rat else 0)
    dls = {1: [0.5, 0.25, 0.2, 0.125], 2: [0.5, 0.34, 0.25], 3: [0.5, 0.34]}[pd]
    smp = {1: [2, 3, 4, 6], 2: [2, 3, 4], 3: [2, 3]}[pd]
    T = []
    raw = lambda: (compatibility.combine_ctrlpts_weights(gc.points(rng, n, dim, grid=4, lim=8), gc.weights(rng, n)) if rat
                   else gc.points(rng, n, dim, grid=4, lim=8))
    for d in range(pd):
        T.append(("knots-%s" % SUF[d], [["knots", d, new_kv(rng, df["deg"][d], df["size"][d])]]))
    T.append(("set_ctrlpts-call", [["set_ctrlpts", raw(), df["size"], "call"]]))
    T.append(("set_ctrlpts-prop", [["set_ctrlpts", raw(), df["size"], "prop"]]))
    if pd == 2:
        T.append(("ctrlpts2d", [["set_ctrlpts", raw(), df["size"], "2d"]]))
        T.append(("transpose", [["transpose"]]))
        T.append(("flip", [["flip"]]))
        T.append(("tessellate-1", [["tessellate", 1]]))
        T.append(("tessellate-2", [["tessellate", 2]]))
    if rat:
        T.append(("ctrlpts", [["ctrlpts", gc.points(rng, n, dim, grid=4, lim=8)]]))
        T.append(("weights", [["weights", [w * 1.5 for w in gc.weights(rng, n)]]]))
    for d in [None] + list(range(pd)):
        cur = df["delta"][d or 0]
        T.append(("delta-%s" % ("all" if d is None else SUF[d]), [["delta", d, rng.choice([x for x in dls if abs(x - cur) > 1e-9])]]))
        T.append(("sample-%s" % ("all" if d is None else SUF[d]), [["sample", d, rng.choice([k for k in smp if abs(1.0 / k - cur) > 1e-9])]]))
        if d is None or pd == 1:
            # a delta whose reciprocal truncates to the present sample count but rounds to one more (e.g. 10 samples -> delta 0.0948):
            # the sample count changes although int(1 / delta) does not
            k = int(1.0 / cur + 0.5)
            if k + 1 <= {1: 12, 2: 5, 3: 3}[pd]:
                T.append(("delta-frac-%s" % ("all" if d is None else SUF[d]), [["delta", d, 1.0 / (k + 0.55)]]))
    for d in range(pd):
        U, p = df["kv"][d], df["deg"][d]
        prm, num = [None] * pd, [0] * pd
        prm[d], num[d] = rng.choice([k / 16.0 for k in (3, 5, 7, 9, 11, 13)]), 1
        T.append(("insert-%s" % SUF[d], [["insert", list(prm), list(num)]]))
        inner = U[p + 1:len(U) - p - 1]
        if inner:
            prm2 = [None] * pd
            prm2[d] = rng.choice(inner)
            T.append(("remove-%s" % SUF[d], [["remove", prm2, list(num)]]))
        if n <= 12:
            dens = [0] * pd
            dens[d] = 1
            T.append(("refine-%s" % SUF[d], [["refine", dens]]))
        cand = [q for q in (1, 2, 3) if q != p and q + 1 <= df["size"][d]]
        if cand:
            q = rng.choice(cand)
            T.append(("degree-%s" % SUF[d], [["degree", d, q], ["knots", d, new_kv(rng, q, df["size"][d])]]))
    if pd == 1:
        T.append(("reverse", [["reverse"]]))
    T.append(("translate", [["translate", [rng.choice([-2.0, -0.5, 0.25, 1.0, 3.0]) for _ in range(dim)]]]))
    T.append(("scale", [["scale", rng.choice([0.5, 2.0, -1.0, 1.5])]]))
    T.append(("rotate", [["rotate", rng.choice([30, 45, 90]), 2 if dim == 2 else rng.randrange(3)]]))
    return T


def sweep_cases(rng):
    """deterministic complement of the random histories: for every class and EVERY mutator (each direction separately):
    fill all caches, apply the one mutator, read every view again (in two different orders)"""
    out = []
    for pd in (1, 2, 3):
        for rat in (False, True):
            df0 = rand_def(rng, pd, rat)
            if pd == 1:
                while len(df0["kv"][0]) <= 2 * (df0["deg"][0] + 1):     # at least one interior knot (for remove)
                    df0 = rand_def(rng, pd, rat)
            fills = (["r_wts"] if rat else []) + ["r_cpts", "r_bbox", "r_eval"] + (["r_tess", "r_cp2d"] if pd == 2 else [])
            for n, (name, mops) in enumerate(mut_templates(rng, df0)):
                post = [["r_wts", "r_cpts", "r_eval", "r_bbox", "r_tess", "r_cp2d"], ["r_cpts", "r_wts", "r_bbox", "r_tess", "r_eval"]][n % 2]
                post = [r for r in post if (rat or r != "r_wts") and (pd == 2 or r not in ("r_tess", "r_cp2d"))]
                ops = [["new", df0]] + [["g", 0, [r]] for r in fills] + [["g", 0, m] for m in mops] + [["g", 0, [r]] for r in post]
                out.append({"ops": ops, "kind": "sweep/%s/%s/%s" % (("curve", "surface", "volume")[pd - 1], "rat" if rat else "nonrat", name), "obs": "final"})
    # cold pairs (rational classes): an edit of the control net followed IMMEDIATELY (no read in between, caches cold) by a setter of
    # one view (ctrlpts / weights), which has to rebuild the other view from the definition, then read everything
    for pd in (1, 2, 3):
        df0 = rand_def(rng, pd, True)
        T = mut_templates(rng, df0)
        firsts = [t for t in T if t[0].split("-")[0] in ("set_ctrlpts", "ctrlpts2d", "ctrlpts", "weights", "insert", "transpose", "flip", "refine")]
        seconds = [t for t in T if t[0] in ("ctrlpts", "weights")]
        post = [r for r in ["r_wts", "r_cpts", "r_eval", "r_bbox", "r_cp2d"] if pd == 2 or r != "r_cp2d"]
        for n1, m1 in firsts:
            for n2, m2 in seconds:
                if n1.split("-")[0] in ("insert", "refine", "transpose"):
                    continue    # these change the net size; the stored second template would not fit
                ops = [["new", df0]] + [["g", 0, m] for m in m1] + [["g", 0, m] for m in m2] + [["g", 0, [r]] for r in post]
                out.append({"ops": ops, "kind": "coldpair/%s/%s+%s" % (("curve", "surface", "volume")[pd - 1], n1, n2), "obs": "final"})
    for pd in (1, 2, 3):
        d0 = rand_def(rng, pd, pd == 2)
        dim0 = len(d0["cp"][0]) - (1 if d0["rat"] else 0)
        d1 = rand_def(rng, pd, pd != 2)
        while len(d1["cp"][0]) - (1 if d1["rat"] else 0) != dim0:
            d1 = rand_def(rng, pd, pd != 2)
        dls = {1: [0.5, 0.25], 2: [0.5, 0.34], 3: [0.5, 0.34]}[pd]
        reads = ["r_eval", "r_bbox"] + (["r_tess"] if pd == 2 else [])
        muts = [("add", [["add", 1]]), ("delta", [["delta", dls[1]]]), ("sample", [["sample", 4]]),
                ("translate", [["translate", [1.0] * dim0]]), ("scale", [["scale", 2.0]])]
        for d in range(pd if pd > 1 else 0):
            muts.append(("delta_%s" % SUF[d], [["delta_dir", d, dls[1]]]))
            muts.append(("sample_size_%s" % SUF[d], [["sample_dir", d, 4]]))
        for name, mops in muts:
            ops = [["new", d0], ["new", d1], ["newcont", pd], ["c", 0, ["delta", dls[0]]], ["c", 0, ["add", 0]]]
            ops += [["c", 0, [r]] for r in reads] + [["c", 0, m] for m in mops] + [["c", 0, [r]] for r in reversed(reads)]
            out.append({"ops": ops, "kind": "sweep/container%d/%s" % (pd, name), "obs": "final"})
        ops = [["new", d0], ["new", d1], ["newcont", pd], ["c", 0, ["delta", dls[0]]], ["c", 0, ["add", 0]], ["c", 0, ["add", 1]], ["c", 0, ["r_eval"]],
               ["ccopy", 0], ["c", 1, ["r_eval"]], ["c", 1, ["delta", dls[1]]], ["c", 1, ["r_eval"]], ["c", 0, ["r_eval"]]]
        out.append({"ops": ops, "kind": "sweep/container%d/deepcopy" % pd, "obs": "final"})
    return out


class Hist(Family):
    name = "hist"
    imports = ("Model.Weights", "Model.Equal", "Model.Obj", "Model.ObjRun", "Run.ObjH")
    count = {"quick": 225, "thorough": 320}
    has_oracle = True
    timeout = 120

    def _len(self, rng, n_total):
        if n_total <= 100:
            return rng.randint(5, 12)
        return rng.randint(25, 40) if rng.random() < 0.2 else rng.randint(8, 24)

    def gen(self, rng, n):
        out = quiet(sweep_cases, random.Random(rng.random()))
        n = max(n - len(out), 40)
        for i in range(n):
            try:
                out.append(quiet(self._gen_one, rng, i, n))
            except Exception as e:
                out.append({"ops": [["newcont", 1]], "kind": "generator-error: %s" % e})
        return out

    def _gen_one(self, rng, i, n_total):
        L = self._len(rng, n_total)
        kind = i % 8
        w = World()
        ops = []

        def do(op):
            ops.append(op)
            apply_op(w, op)
        if kind < 6:
            # single geometry (+ deep copies): curve/surface/volume x rational
            pd, rat = kind // 2 + 1, kind % 2 == 0
            do(["new", rand_def(rng, pd, rat)])
            while len(ops) < L + 1:
                if rng.random() < 0.1 and len(w.geoms) < 3:
                    do(["copy", rng.randrange(len(w.geoms))])
                    continue
                gi = rng.randrange(len(w.geoms)) if rng.random() < 0.6 else len(w.geoms) - 1
                gl = rand_gop(rng, w.geoms[gi], allow_big=L <= 12)
                if gl[0][0] not in READERS and rng.random() < 0.6:
                    do(["g", gi, [fill_reader(rng, w.geoms[gi])]])      # read, edit, (read): the pattern that exposes stale caches
                for g in gl:
                    do(["g", gi, g])
            label = "%s/%s" % (("curve", "surface", "volume")[pd - 1], "rat" if rat else "nonrat")
        else:
            # container histories
            pd = (1, 2, 3, 2)[(i // 8 + kind) % 4]
            rat = rng.random() < 0.5
            d0 = rand_def(rng, pd, rat)
            do(["new", d0])
            dim0 = len(d0["cp"][0]) - (1 if rat else 0)
            for _ in range(12):
                d1 = rand_def(rng, pd, rng.random() < 0.5)
                if len(d1["cp"][0]) - (1 if d1["rat"] else 0) == dim0 or rng.random() < 0.05:
                    break
            do(["new", d1])
            do(["newcont", pd])
            dls = {1: [0.5, 0.25, 0.2], 2: [0.5, 0.34, 0.25], 3: [0.5, 0.34]}[pd]
            do(["c", 0, ["delta", rng.choice(dls)]])
            do(["c", 0, ["add", 0]])
            alias_edit = rng.random() < 0.12
            while len(ops) < L + 5:
                r = rng.random()
                j = rng.randrange(len(w.conts))
                if 0.36 <= r < 0.84 and rng.random() < 0.6 and w.celems[j]:
                    do(["c", j, [rng.choice(["r_eval", "r_eval"] + (["r_tess"] if pd == 2 else []))]])
                if r < 0.10 and 1 not in w.celems[0]:
                    do(["c", 0, ["add", 1]])
                elif r < 0.36:
                    k = rng.choice(["r_eval", "r_eval", "r_bbox"] + (["r_tess", "r_tess"] if pd == 2 else []))
                    do(["c", j, [k]])
                elif r < 0.46:
                    do(["c", j, ["delta", rng.choice(dls)]])
                elif r < 0.54 and pd > 1:
                    do(["c", j, ["delta_dir", rng.randrange(pd), rng.choice(dls)]])
                elif r < 0.60:
                    do(["c", j, ["sample", rng.choice([3, 4, 5] if pd < 3 else [3, 4])]])
                elif r < 0.67 and pd > 1:
                    do(["c", j, ["sample_dir", rng.randrange(pd), rng.choice([3, 4, 5] if pd < 3 else [3, 4])]])
                elif r < 0.75:
                    dim = w.conts[j].dimension
                    if dim:
                        do(["c", j, ["translate", [rng.choice([-1.0, 0.5, 2.0]) for _ in range(dim)]]])
                elif r < 0.80:
                    do(["c", j, ["scale", rng.choice([0.5, 2.0, -1.0])]])
                elif r < 0.84 and len(w.conts) < 2 and len(w.celems[0]) == len(set(w.celems[0])):
                    do(["ccopy", 0])
                elif r < 0.88 and len(w.geoms) < 5:
                    do(["copy", rng.randrange(len(w.geoms))])
                elif r < 0.90:
                    do(["c", j, ["delta", rng.choice([1.0, 0.0])]])
                else:
                    # operations on geometries: ones not held by a container, or (rarely) held ones = known aliasing finding
                    held = set(x for el in w.celems for x in el)
                    free = [g for g in range(len(w.geoms)) if g not in held]
                    if alias_edit and held and rng.random() < 0.5:
                        gi = rng.choice(sorted(held))
                    elif free:
                        gi = rng.choice(free)
                    else:
                        gi = rng.choice(sorted(held))
                        if not alias_edit:
                            for g in ([["r_eval"]], [["r_bbox"]], [["r_cpts"]])[rng.randrange(3)]:
                                do(["g", gi, g])
                            continue
                    for g in rand_gop(rng, w.geoms[gi], allow_big=False, allow_k2=False):
                        do(["g", gi, g])
            label = "container%d/%s" % (pd, "alias-edit" if alias_edit else "plain")
        return {"ops": ops, "kind": label}

    def impl(self, c):
        def run():
            ops = c["ops"]
            KEEPALIVE[:] = []
            w = World()
            steps = []
            results = []
            for k, op in enumerate(ops):
                out, info = apply_op(w, op)
                results.append((out, info))
                fg, fc = footprint(w, op)
                steps.append({"out": out, "info": info, "fg": fg, "fc": fc, "ngeoms": len(w.geoms), "nconts": len(w.conts),
                              "pdims": [g.pdimension for g in w.geoms]})
                ids = [x for g in w.geoms for x in slot_ids(g)]
                steps[-1]["alldistinct"] = len(set(ids)) == len(ids)
            n = len(ops)
            oracle_msgs, per = check_history(ops, results)
            final_only = c.get("obs") == "final"
            for k, (gobs, cobs) in enumerate(per, start=1):
                st = steps[k - 1]
                gs = list(range(len(gobs))) if k == len(per) else ([] if final_only else st["fg"])
                cs = list(range(len(cobs))) if k == len(per) else ([] if final_only else st["fc"])
                st["gobs"] = [[i, gobs[i]] for i in gs if i < len(gobs)]
                st["cobs"] = [[j, cobs[j]] for j in cs if j < len(cobs) and cobs[j] is not None]
            # the observations are kept as one JSON string: millions of small live list objects would make the
            # garbage collector of the (single) harness process quadratic
            res = {"blob": json.dumps({"steps": steps[:len(per)]}), "oracle": oracle_msgs,
                   "outs": [("ok" if "ok" in st["out"] else "err") for st in steps[:len(per)]]}
            bad = [x for x in oracle_msgs if not x[2]]
            if bad:
                res["shrunk"] = shrink(ops[:bad[0][0]], history_fails)
            return res
        return call(quiet, run)

    def coq(self, c, out):
        if "ok" not in out:
            return None
        steps = json.loads(out["ok"]["blob"])["steps"]
        ops = c["ops"][:len(steps)]
        gops, exps = [], []
        pdims = []
        for op, st in zip(ops, steps):
            t = op[0]
            if "ok" not in st["out"] and t in ("new", "copy", "ccopy"):
                return None
            if t == "new":
                gops.append("New %s" % g_def(st["info"]["def"]))
            elif t == "g":
                gops.append("G %s (%s)" % (G.n(op[1]), g_gop(op[2], st["info"], st["pdims"][op[1]])))
            elif t == "copy":
                gops.append("Copy %s" % G.n(op[1]))
            elif t == "newcont":
                gops.append("NewCont %s %s" % (G.n(op[1]), G.Q(st["info"]["delta"])))
            elif t == "ccopy":
                gops.append("CCopy %s" % G.n(op[1]))
            else:
                gops.append("C %s (%s)" % (G.n(op[1]), g_cop(op[2])))
            if "gobs" not in st:
                gl, cl = [], []
            else:
                gl = [(i, g_iobs(ob)) for i, ob in st["gobs"]]
                cl = [(j, g_icobs(ob)) for j, ob in st["cobs"]]
            gl = ["(%s, %s)" % (G.n(i), x) for i, x in gl if x is not None]
            cl = ["(%s, %s)" % (G.n(j), x) for j, x in cl if x is not None]
            idl = []
            if t == "g" and "ids_same" in st["info"]:
                idl.append("(%s, %s)" % (G.n(op[1]), G.bl(st["info"]["ids_same"])))
            outv = st["out"]
            if t == "g" and op[2][0] in ("insert", "remove", "refine"):
                outv = {"ok": None}      # refusal / numerics of these operations belong to C04-C06; the resulting state is compared
            exps.append("(mkIstep %s [%s] [%s] [%s] %s)" % (g_out(op, outv), "; ".join(gl), "; ".join(cl), "; ".join(idl), G.b(st["alldistinct"])))
        return "(check_hist world0 [%s] [%s])" % ("; ".join(gops), "; ".join(exps))

    def coq_show(self, c, out):
        e = self.coq(c, out)
        return e.replace("(check_hist world0", "(first_bad world0", 1)[:-1] + " 0%nat)"

    def oracle(self, c, out):
        if "ok" not in out:
            return "history: the harness could not run the history: %s" % (out,)
        msgs = out["ok"]["oracle"]
        for k, m, known in msgs:
            if not known:
                sh = out["ok"].get("shrunk")
                return "stale: %s%s" % (m, (" | shrunk history: %s" % (str(sh)[:1500])) if sh else "")
        for k, m, known in msgs:
            return "alias: %s" % m
        return None

    def nontrivial(self, c, out):
        if "ok" not in out:
            return False
        seen_read = False
        for op, st in zip(c["ops"], out["ok"]["outs"]):
            if not is_mutator(op):
                seen_read = True
            elif seen_read and st == "ok" and op[0] in ("g", "c"):
                return True
        return False

    def stratum(self, c, out):
        return c["kind"]


def families():
    return [Hist()]
