"""C17 — results do not depend on configuration choices (span search function, evaluator variant, knot normalisation,
number of worker processes, cache size from the environment)."""
import os, sys, json, math, subprocess
from fractions import Fraction as F
from core import Family, call, VERIF, REPO
import gal as G
import gencommon as gc
import tpexact as T
from geomdl import helpers, evaluators, multi, voxelize, _voxelize as vxl, operations, linalg

TOL8 = 10e-8
CACHE_ENVS = [None, "1", "16", "1024"]
PROCS = [1, 2, 4, 8]

RULE = ("one generator per configuration axis: span function {linear, binary} on helpers and on curve / surface / volume evaluation "
        "(parameter classes incl. repeated knots, domain end and 'within 1e-5 of the end behind an interior knot'); evaluator "
        "{default, CurveEvaluator2 / SurfaceEvaluator2} incl. derivative orders above the degree; normalize_kv {True, False} over "
        "affine knot ranges a*k+b with sample sizes 2..30; num_procs {1,2,4,8} for voxelisation and container tessellation; "
        "GEOMDL_CACHE_SIZE {unset,1,16,1024}, each value in a fresh subprocess; non-trivial = every configuration returned a value; "
        "distinct by case hash")
ASSUMPTIONS = ["floating point rounding below 1e-9 is not observable",
               "process scheduling of multiprocessing.Pool is runtime behaviour: modelled as an order-preserving map over chunks",
               "functools.lru_cache is modelled as a capacity-bounded association list with least-recently-used eviction",
               "parameters beyond the domain end are not generated"]
THEOREM_NOTES = ("coq/Props/C17.v: affine invariance of span, basis functions and points (normalize_kv) [G]; binary = linear span search "
                 "for every parameter >= U_p with fuel sufficiency (repaired end test) [G], the unrepaired tolerance shortcut refuted; "
                 "chunked map = map for every chunking and Pool.map's chunking [G]; memoisation transparent for every capacity and "
                 "call sequence [G]; the four environment values are accepted [F]; sample size round trip [G]; evaluator variants: "
                 "point evaluation is the same code, derivative agreement is only tied by the oracle (partial)")
LEVEL_TEXT = ("General theorems for the numeric configuration axes (knot range, span function) and for the logic of pools and caches. "
              "Partial: real process scheduling and the real lru_cache are outside the model (order-preserving map / bounded table); "
              "evaluator variants agree on points by construction, and their derivative algorithms agree for ALL degrees and orders (A3.4 = A3.2 as lists, "
              "A3.8 = A3.6 on the entries k + l <= order it fills; round 2, Proofs/DerivsAgreeGeneral*.v), hence tangents and normals do not depend "
              "on the evaluator.  The correspondence runs every configuration value against geomdl, "
              "GEOMDL_CACHE_SIZE in fresh subprocesses and num_procs in {1,2,4,8} with real process pools.")
LEVEL_NOTE = "configuration independence = cross-configuration equality up to 1e-9 on every sampled query + general theorems on the model"
# functions of the numerical core this property rests on that are also tied by the translator (tie theorems: Props/C03.v, Proofs/GenTie*.v)
TRANSLATED = ["helpers.find_span_linear", "helpers.find_span_binsearch", "helpers.find_spans", "knotvector.normalize", "helpers.curve_deriv_cpts", "helpers.surface_deriv_cpts", "evaluators.CurveEvaluator.evaluate", "evaluators.CurveEvaluatorRational.evaluate", "evaluators.SurfaceEvaluator.evaluate", "evaluators.SurfaceEvaluatorRational.evaluate", "evaluators.VolumeEvaluator.evaluate", "evaluators.VolumeEvaluatorRational.evaluate", "helpers.basis_function_all", "evaluators.CurveEvaluator.derivatives", "evaluators.CurveEvaluatorRational.derivatives", "evaluators.CurveEvaluator2.derivatives", "evaluators.SurfaceEvaluator.derivatives", "evaluators.SurfaceEvaluatorRational.derivatives", "evaluators.SurfaceEvaluator2.derivatives"]
TECHNIQUE = "Coq proofs (induction on the A2.2 scan, loop invariant of the binary search with fuel, list lemmas) + cross-configuration oracles"


def _same(a, b, tol=1e-9):
    try:
        return gc.closel(a, b, tol)
    except Exception:
        return False


def _status(o):
    return "ok" if "ok" in o else ("rej" if "rej" in o else "crash")


# =====================================================================================================================
class Span(Family):
    """helpers.find_span_binsearch against helpers.find_span_linear"""
    name = "span"
    imports = ("Model.Basis", "Model.Config")
    count = {"quick": 220, "thorough": 2500}
    has_oracle = True

    def gen(self, rng, n):
        out = []
        for i in range(n):
            p = rng.randint(1, 6)
            if i % 5 == 0:
                # an interior knot within 1e-5 of the domain end, parameters on both sides of it
                U, kind = gc.knotvector(rng, p, kind="uniform", nint=rng.choice([1, 2, 3]))
                k = 1.0 - 2.0 ** -rng.choice([18, 19, 20, 24])
                m = rng.randint(1, p)
                U = U[:len(U) - p - 1] + [k] * m + [1.0] * (p + 1)
                u = rng.choice([k, 1.0 - (1.0 - k) * 1.5, 1.0 - (1.0 - k) * 0.5, 1.0 - (1.0 - k) * 3, 1.0])
                out.append({"p": p, "U": U, "u": u, "kind": "near-end", "cls": "near-end"})
                continue
            U, kind = gc.knotvector(rng, p)
            u, cls = gc.param(rng, U, p)
            out.append({"p": p, "U": U, "u": u, "kind": kind, "cls": cls})
        return out

    def impl(self, c):
        p, U, u = c["p"], c["U"], c["u"]
        n = len(U) - p - 1
        return {"lin": call(helpers.find_span_linear, p, U, n, u), "bin": call(helpers.find_span_binsearch, p, U, n, u),
                "spans": call(helpers.find_spans, p, U, n, [u, U[p]], helpers.find_span_binsearch)}

    def coq(self, c, out):
        if "ok" not in out["lin"] or "ok" not in out["bin"]:
            return None
        p, U, u = c["p"], c["U"], c["u"]
        n = len(U) - p - 1
        return "(andb (opt_cmp Nat.eqb (find_span_binsearch_fix Qops %s %s %s %s) (Some %s)) (Nat.eqb (find_span_linear Qops %s %s %s %s) %s))" % (
            G.n(p), G.ql(U), G.n(n), G.Q(u), G.n(out["bin"]["ok"]), G.n(p), G.ql(U), G.n(n), G.Q(u), G.n(out["lin"]["ok"]))

    def oracle(self, c, out):
        if "ok" not in out["lin"]:
            return "span-linear: failed on a valid input %s" % (out["lin"],)
        if "ok" not in out["bin"]:
            return "span-binary: find_span_binsearch fails where find_span_linear succeeds: %s" % (out["bin"],)
        if out["bin"]["ok"] != out["lin"]["ok"]:
            return "span-binary: find_span_binsearch returns %s, find_span_linear returns %s (p=%d, u=%r, knots %s)" % (
                out["bin"]["ok"], out["lin"]["ok"], c["p"], c["u"], c["U"])
        U = gc.fr(c["U"])
        k = gc.exact_span(U, c["p"], len(U) - c["p"] - 1, F(c["u"]))
        if out["lin"]["ok"] != k:
            return "span-linear: returned %s, the knot interval containing u is %s" % (out["lin"]["ok"], k)
        if "ok" not in out["spans"] or out["spans"]["ok"][0] != k:
            return "span-binary: find_spans(func=find_span_binsearch) gives %s, expected %s first" % (out["spans"], k)
        return None

    def nontrivial(self, c, out):
        return "ok" in out["lin"] and "ok" in out["bin"] and len(c["U"]) > 2 * (c["p"] + 1)

    def stratum(self, c, out):
        return "%s/%s" % (c["kind"], c["cls"])


# =====================================================================================================================
def _near_end_shape(rng, kind):
    """low continuity just before the domain end: a knot of multiplicity p (or degree 1) within 1e-5 of the end"""
    s = T.random_shape(rng, kind=kind, kvkinds=["uniform"], maxdeg=2)
    d = rng.randrange(len(s["degree"]))
    p = s["degree"][d]
    U = s["kv"][d]
    k = 1.0 - 2.0 ** -rng.choice([18, 19, 20])
    # replace the last p control-point slots' knots: keep the length (same number of control points)
    n = len(U) - p - 1
    if n - p - 1 >= p:
        U = U[:n - p] + [k] * p + [1.0] * (p + 1)
    elif n > p + 1:
        U = U[:n - 1] + [k] + [1.0] * (p + 1)
    else:
        return s, None
    if sorted(U) != U:
        return s, None
    s["kv"][d] = U
    s["kvkind"][d] = "near-end"
    return s, (d, k)


class SpanFunc(Family):
    """evaluation with find_span_func = find_span_binsearch against the default (linear)"""
    name = "spanfunc"
    imports = ("Model.Basis", "Model.Knots", "Model.Eval", "Model.Homog", "Model.Config")
    count = {"quick": 110, "thorough": 1100}
    has_oracle = True

    def gen(self, rng, n):
        out = []
        for i in range(n):
            kind = rng.choice(["curve", "curve", "surface", "surface", "volume"])
            near = None
            if i % 4 == 0:
                s, near = _near_end_shape(rng, kind)
            else:
                s = T.random_shape(rng, kind=kind)
            pd = T.PD[kind]
            params = [T.corner_params(s, (0,) * pd), T.corner_params(s, (1,) * pd)]
            for _ in range(3):
                params.append(T.random_params(rng, s, cls=rng.choice(["knot", "interior", "third", None]))[0])
            if near is not None:
                d, k = near
                for t in (1.0 - (1.0 - k) * 1.5, 1.0 - (1.0 - k) * 0.5):
                    prm = T.random_params(rng, s)[0]
                    prm[d] = t
                    params.append(prm)
            out.append({"shape": s, "params": params, "sample": rng.choice([3, 4, 5]), "order": rng.choice([1, 2]), "near": near is not None})
        return out

    def _run(self, c, fn):
        s = c["shape"]

        def f():
            o = T.build(s, find_span_func=fn) if fn is not None else T.build(s)
            if not T.kv_unchanged(o, s):
                return {"skip": 1}
            r = {"pts": [T.eval_single(o, p) for p in c["params"]]}
            o.sample_size = c["sample"]
            r["evalpts"] = [list(p) for p in o.evalpts]
            kw = {"find_span_func": fn} if fn is not None else {}
            if s["kind"] == "curve":
                r["ders"] = [[list(d) for d in o.derivatives(p[0], order=c["order"])] for p in c["params"]]
                r["window"] = [[list(q) for q in operations.find_ctrlpts(o, p[0], **kw)] for p in c["params"]]
            elif s["kind"] == "surface":
                r["ders"] = [[[list(d) for d in row] for row in o.derivatives(p[0], p[1], order=c["order"])] for p in c["params"]]
                r["window"] = [[[list(q) for q in row] for row in operations.find_ctrlpts(o, p[0], p[1], **kw)] for p in c["params"]]
            return r
        return call(f)

    def impl(self, c):
        return {"linear": self._run(c, None), "binary": self._run(c, helpers.find_span_binsearch)}

    def coq(self, c, out):
        b = out["binary"]
        if "ok" not in b or "skip" in b["ok"]:
            return None
        s = c["shape"]
        if s["kind"] == "volume":
            pts = "[" + "; ".join(T.coq_point(s, p) for p in c["params"]) + "]"
            return "(" + T.coq_shape_lets(s) + "closeLL %s %s)" % (pts, G.sll(b["ok"]["pts"]))
        dim = s["dim"] + (1 if s["rational"] else 0)
        net = "Pw" if s["rational"] else "P"
        fin = "res_map (project Qops)" if s["rational"] else ""
        parts = []
        for p, pt in zip(c["params"], b["ok"]["pts"]):
            if s["kind"] == "curve":
                t = "curve_point_sp Qops (find_span_binsearch_fix Qops) %s %s U0 %s %s" % (G.n(dim), G.n(s["degree"][0]), net, G.Q(p[0]))
            else:
                t = "surface_point_sp Qops (find_span_binsearch_fix Qops) %s %s %s U0 U1 %s %s %s %s %s" % (
                    G.n(dim), G.n(s["degree"][0]), G.n(s["degree"][1]), G.n(s["size"][0]), G.n(s["size"][1]), net, G.Q(p[0]), G.Q(p[1]))
            parts.append("res_cmp closeL (%s (%s)) (Ok %s)" % (fin, t, G.sl(pt)))
        e = parts[0]
        for q in parts[1:]:
            e = "andb (%s) (%s)" % (e, q)
        return "(" + T.coq_shape_lets(s) + e + ")"

    def oracle(self, c, out):
        a, b = out["linear"], out["binary"]
        if "ok" not in a:
            return "spanfunc: evaluation failed with the default span function on a valid shape: %s" % (a,)
        if "skip" in a["ok"]:
            return None
        if "ok" not in b:
            return "spanfunc-fails: find_span_func=find_span_binsearch makes a valid call fail: %s" % (b,)
        s = c["shape"]
        for key in ("pts", "evalpts", "ders", "window"):
            if key in a["ok"] and not _same(a["ok"][key], b["ok"][key]):
                bad = ""
                if key == "pts":
                    for p, x, y in zip(c["params"], a["ok"]["pts"], b["ok"]["pts"]):
                        if not _same(x, y):
                            bad = " at %s: linear %s binary %s" % (p, x, y)
                            break
                return "spanfunc-%s: %s %s differ between find_span_linear and find_span_binsearch%s" % (key, s["kind"], key, bad)
        for p, x in zip(c["params"], a["ok"]["pts"]):
            if not T.close_pt(T.fr_point(x), T.eval_exact(s, p)):
                return "spanfunc-definition: point at %s is %s, the definition gives %s" % (p, x, [float(t) for t in T.eval_exact(s, p)])
        return None

    def nontrivial(self, c, out):
        return all("ok" in out[k] and "skip" not in out[k]["ok"] for k in ("linear", "binary"))

    def stratum(self, c, out):
        s = c["shape"]
        return "%s/%s/%s" % (s["kind"], "rat" if s["rational"] else "poly", "near-end" if c["near"] else "+".join(sorted(set(s["kvkind"]))))


# =====================================================================================================================
class Evaluator(Family):
    """default evaluators against CurveEvaluator2 / SurfaceEvaluator2 (non-rational shapes)"""
    name = "evaluator"
    imports = ("Model.Basis", "Model.Knots", "Model.Eval", "Model.Homog")
    count = {"quick": 90, "thorough": 900}
    has_oracle = True

    def gen(self, rng, n):
        out = []
        for i in range(n):
            kind = rng.choice(["curve", "surface"])
            s = T.random_shape(rng, kind=kind, rational=False, maxdeg=4 if kind == "curve" else 3)
            pd = T.PD[kind]
            params = [T.corner_params(s, (0,) * pd), T.corner_params(s, (1,) * pd)] + [T.random_params(rng, s)[0] for _ in range(3)]
            maxp = max(s["degree"])
            order = rng.choice([0, 1, 2, min(s["degree"]) + 1, maxp + 1]) if i % 3 == 0 else rng.randint(0, max(1, min(s["degree"])))
            out.append({"shape": s, "params": params, "order": order, "sample": rng.choice([3, 4, 6])})
        return out

    def _run(self, c, alt):
        s = c["shape"]

        def f():
            o = T.build(s)
            if alt:
                o.evaluator = evaluators.CurveEvaluator2() if s["kind"] == "curve" else evaluators.SurfaceEvaluator2()
            if not T.kv_unchanged(o, s):
                return {"skip": 1}
            r = {"pts": [T.eval_single(o, p) for p in c["params"]]}
            o.sample_size = c["sample"]
            r["evalpts"] = [list(p) for p in o.evalpts]
            if s["kind"] == "curve":
                r["ders"] = [[list(d) for d in o.derivatives(p[0], order=c["order"])] for p in c["params"]]
            else:
                r["ders"] = [[[list(d) for d in row] for row in o.derivatives(p[0], p[1], order=c["order"])] for p in c["params"]]
            return r
        return call(f)

    def impl(self, c):
        return {"default": self._run(c, False), "alt": self._run(c, True)}

    def coq(self, c, out):
        b = out["alt"]
        if "ok" not in b or "skip" in b["ok"]:
            return None
        s = c["shape"]
        pts = "[" + "; ".join(T.coq_point(s, p) for p in c["params"]) + "]"
        return "(" + T.coq_shape_lets(s) + "closeLL %s %s)" % (pts, G.sll(b["ok"]["pts"]))

    def oracle(self, c, out):
        a, b = out["default"], out["alt"]
        if "ok" not in a:
            return "evaluator: the default evaluator failed on a valid query: %s" % (a,)
        if "skip" in a["ok"]:
            return None
        s = c["shape"]
        if "ok" not in b:
            return "evaluator-fails: selecting %sEvaluator2 makes a valid call fail (derivative order %d, degrees %s): %s" % (
                "Curve" if s["kind"] == "curve" else "Surface", c["order"], s["degree"], b)
        for key in ("pts", "evalpts"):
            if not _same(a["ok"][key], b["ok"][key]):
                return "evaluator-%s: %s %s differ between the default and the alternative evaluator" % (key, s["kind"], key)
        for p, x, y in zip(c["params"], a["ok"]["ders"], b["ok"]["ders"]):
            if s["kind"] == "curve":
                ok = _same(x, y, 1e-8)
            else:
                # SKL[k][l] is requested for total order k + l <= order only (A3.6 / A3.8 fill exactly that triangle)
                ok = len(x) == len(y) and all(_same(x[k][l], y[k][l], 1e-8) for k in range(len(x)) for l in range(len(x[k])) if k + l <= c["order"])
            if not ok:
                return "evaluator-ders: %s derivatives up to order %d at %s differ between the default and the alternative evaluator" % (s["kind"], c["order"], p)
        return None

    def nontrivial(self, c, out):
        return all("ok" in out[k] and "skip" not in out[k]["ok"] for k in ("default", "alt"))

    def stratum(self, c, out):
        s = c["shape"]
        return "%s/p%s/order%d%s" % (s["kind"], "".join(map(str, s["degree"])), c["order"], ">p" if c["order"] > min(s["degree"]) else "")


# =====================================================================================================================
class Normalize(Family):
    """normalize_kv=True against normalize_kv=False on an affine knot range (parameters mapped affinely)"""
    name = "normalize"
    imports = ("Model.Basis", "Model.Knots", "Model.Eval", "Model.Homog", "Model.Config")
    count = {"quick": 110, "thorough": 1100}
    has_oracle = True

    def gen(self, rng, n):
        out = []
        for i in range(n):
            kind = rng.choice(["curve", "curve", "surface", "surface", "volume"])
            s = T.random_shape(rng, kind=kind, kvkinds=["uniform", "mult", "mult"])
            pd = T.PD[kind]
            ab = [(rng.choice([2.0, 3.0, 0.5, 4.0, 1.5, 1.0]), rng.choice([-1.0, 0.25, 2.0, 0.0, -3.5])) for _ in range(pd)]
            params = [T.corner_params(s, (0,) * pd), T.corner_params(s, (1,) * pd)] + [T.random_params(rng, s)[0] for _ in range(3)]
            sample = rng.choice([2, 3, 5, 8, 30]) if kind == "curve" else (rng.choice([2, 3, 5]) if kind == "surface" else rng.choice([2, 3]))
            samples = None
            if pd > 1 and rng.random() < 0.5:
                samples = [rng.choice([2, 3, 4]) for _ in range(pd)]     # one setter per direction
            out.append({"shape": s, "ab": ab, "params": params, "sample": sample, "samples": samples})
        return out

    def _scaled(self, c):
        s = dict(c["shape"])
        s["kv"] = [[a * k + b for k in U] for U, (a, b) in zip(c["shape"]["kv"], c["ab"])]
        return s

    def _run(self, c, normalize):
        s = c["shape"]
        s2 = self._scaled(c)

        def f():
            o = T.build(s2, normalize_kv=normalize)
            kvs = T.obj_kvs(o)
            if normalize and kvs != [list(U) for U in s["kv"]]:
                return {"badkv": kvs}
            prm = c["params"] if normalize else [[a * t + b for t, (a, b) in zip(p, c["ab"])] for p in c["params"]]
            r = {"pts": [T.eval_single(o, p) for p in prm], "kv": kvs}
            # the list entry point with the same (affinely mapped) parameters
            r["list"] = [list(x) for x in o.evaluate_list([p[0] if s["kind"] == "curve" else tuple(p) for p in prm])]
            if s["kind"] == "curve":
                r["ders"] = [[list(d) for d in o.derivatives(p[0], order=1)] for p in prm]
            elif s["kind"] == "surface":
                r["ders"] = [[[list(d) for d in row] for row in o.derivatives(p[0], p[1], order=1)] for p in prm]
            return r
        r = call(f)

        def g():
            o = T.build(s2, normalize_kv=normalize)
            if c.get("samples"):
                for suf, k in zip("uvw", c["samples"]):
                    setattr(o, "sample_size_" + suf, k)
            else:
                o.sample_size = c["sample"]
            ss = o.sample_size
            return {"evalpts": [list(p) for p in o.evalpts], "sample_size": [int(x) for x in ss] if isinstance(ss, (list, tuple)) else [int(ss)]}
        return {"point": r, "grid": call(g)}

    def impl(self, c):
        return {"norm": self._run(c, True), "raw": self._run(c, False)}

    def coq(self, c, out):
        a, b = out["norm"]["point"], out["raw"]["point"]
        if "ok" not in a or "badkv" in a["ok"] or "ok" not in b:
            return None
        s, s2 = c["shape"], self._scaled(c)
        pts_raw = "[" + "; ".join(T.coq_point(s2, [x * t + y for t, (x, y) in zip(p, c["ab"])], name="r") for p in c["params"]) + "]"
        # model of the normalised object: knotvector.normalize applied to the raw knot vectors
        norm_lets = T.coq_shape_lets(s, name="n")
        for i, U in enumerate(s2["kv"]):
            norm_lets += "let U%dn := match normalize Qops %s with Ok v => v | _ => [] end in " % (i, G.ql(U))
        pts_norm = "[" + "; ".join(T.coq_point(s, p, name="n") for p in c["params"]) + "]"
        e = "andb (closeLL %s %s) (closeLL %s %s)" % (pts_raw, G.sll(b["ok"]["pts"]), pts_norm, G.sll(a["ok"]["pts"]))
        g = out["raw"]["grid"]
        if "ok" in g:
            req = c.get("samples") or [c["sample"]] * len(g["ok"]["sample_size"])
            e = "andb (%s) (eqLnat (map (fun v => match delta_of_sample_size Qops v with Ok d => sample_size_of_delta Qops 64 d | _ => 0%%nat end) %s) %s)" % (
                e, G.nl(req), G.nl(g["ok"]["sample_size"]))
        return "(" + T.coq_shape_lets(s2, name="r") + norm_lets + e + ")"

    def oracle(self, c, out):
        a, b = out["norm"], out["raw"]
        s = c["shape"]
        if "ok" not in a["point"]:
            return "normalize: evaluation with normalize_kv=True failed on a valid shape: %s" % (a["point"],)
        if "badkv" in a["point"]["ok"]:
            return "normalize-kv: normalize_kv=True turns the knot vectors %s into %s, the affine normalisation to [0,1] is %s" % (
                self._scaled(c)["kv"], a["point"]["ok"]["badkv"], s["kv"])
        if "ok" not in b["point"]:
            return "normalize-fails: normalize_kv=False makes a valid evaluation fail (knot range %s): %s" % (c["ab"], b["point"])
        for nm, r in (("True", a["point"]["ok"]), ("False", b["point"]["ok"])):
            if "list" in r and not _same(r["list"], r["pts"]):
                return "normalize-list: evaluate_list with normalize_kv=%s returns %d points for %d parameters of the domain, or points differing from evaluate_single (knot range a,b %s)" % (
                    nm, len(r["list"]), len(r["pts"]), c["ab"])
        if not _same(a["point"]["ok"]["pts"], b["point"]["ok"]["pts"]):
            return "normalize-pts: points at affinely mapped parameters differ between normalize_kv=True and False (a,b per direction %s)" % (c["ab"],)
        for p, x in zip(c["params"], a["point"]["ok"]["pts"]):
            if not T.close_pt(T.fr_point(x), T.eval_exact(s, p)):
                return "normalize-definition: point at %s is %s, the definition gives %s" % (p, x, [float(t) for t in T.eval_exact(s, p)])
        if "ders" in a["point"]["ok"]:
            # chain rule: d/du' = (1/a) d/dt per direction
            da, db = a["point"]["ok"]["ders"], b["point"]["ok"]["ders"]
            for x, y in zip(da, db):
                if s["kind"] == "curve":
                    exp = [x[0], [F(t) / F(c["ab"][0][0]) for t in x[1]]]
                    if not _same(y, exp, 1e-8):
                        return "normalize-ders: first derivative does not scale by 1/a between normalize_kv=True and False"
                else:
                    au, av = F(c["ab"][0][0]), F(c["ab"][1][0])
                    exp = [[x[0][0], [F(t) / av for t in x[0][1]]], [[F(t) / au for t in x[1][0]], x[1][1] if len(x[1]) > 1 else None]]
                    if not (_same(y[0][0], exp[0][0], 1e-8) and _same(y[0][1], exp[0][1], 1e-8) and _same(y[1][0], exp[1][0], 1e-8)):
                        return "normalize-ders: first partial derivatives do not scale by 1/a between normalize_kv=True and False"
        if "ok" not in a["grid"]:
            return "normalize: evalpts with sample_size=%s failed with normalize_kv=True: %s" % (c.get("samples") or c["sample"], a["grid"])
        if "ok" not in b["grid"]:
            return "normalize-grid-fails: sample_size=%s is accepted with normalize_kv=True but fails with normalize_kv=False on knot range %s: %s" % (
                c.get("samples") or c["sample"], c["ab"], b["grid"])
        ga, gb = a["grid"]["ok"], b["grid"]["ok"]
        req = c.get("samples") or [c["sample"]] * len(ga["sample_size"])
        n_req = 1
        for k in req:
            n_req *= k
        for nm, g in (("True", ga), ("False", gb)):
            if g["sample_size"] != req or len(g["evalpts"]) != n_req:
                return "normalize-grid-count: sample_size=%s requested with normalize_kv=%s, reported %s, %d evaluated points" % (req, nm, g["sample_size"], len(g["evalpts"]))
        if ga["sample_size"] != gb["sample_size"] or len(ga["evalpts"]) != len(gb["evalpts"]):
            return "normalize-grid-size: sample_size=%s gives %s (%d points) with normalize_kv=True and %s (%d points) with False on knot range %s" % (
                c.get("samples") or c["sample"], ga["sample_size"], len(ga["evalpts"]), gb["sample_size"], len(gb["evalpts"]), c["ab"])
        if not _same(ga["evalpts"], gb["evalpts"]):
            return "normalize-grid: evalpts differ between normalize_kv=True and False"
        return None

    def nontrivial(self, c, out):
        return all("ok" in out[k]["point"] and "badkv" not in out[k]["point"]["ok"] for k in ("norm", "raw"))

    def stratum(self, c, out):
        s = c["shape"]
        return "%s/%s/k%d/%s" % (s["kind"], "rat" if s["rational"] else "poly", c["sample"], "unit" if all(x == (1.0, 0.0) for x in map(tuple, c["ab"])) else "affine")


# =====================================================================================================================
class Procs(Family):
    """num_procs in {1,2,4,8}: voxelisation (find_inouts) and container tessellation"""
    name = "procs"
    imports = ("Model.Config",)
    count = {"quick": 36, "thorough": 300}
    has_oracle = True
    timeout = 120

    def gen(self, rng, n):
        out = []
        for i in range(n):
            if i % 3 == 2:
                k = rng.randint(1, 5)
                shapes = [T.random_shape(rng, kind="surface", kvkinds=["uniform", "mult"], maxdeg=2) for _ in range(k)]
                out.append({"what": "tessellate", "shapes": shapes, "sample": rng.choice([3, 4])})
            else:
                kind = rng.choice(["surface", "surface", "volume"])
                s = T.random_shape(rng, kind=kind, kvkinds=["uniform", "mult"], maxdeg=2)
                out.append({"what": "voxelize", "shapes": [s], "sample": rng.choice([3, 4]) if kind == "surface" else 2,
                            "grid": rng.choice([[2, 2, 3], [3, 2, 2], [3, 3, 3], [2, 3, 4], [2, 2, 2], [4, 2, 3]]), "cubes": rng.random() < 0.3, "modelk": rng.choice([2, 4, 8]),
                            # a non-default padding tolerance (keyword tol), large enough to change the fill decision of some voxels
                            "tol": rng.choice([0.25, 0.125, 0.5]) if i % 6 == 1 else None})
        return out

    def _vox(self, c, k):
        def f():
            o = T.build(c["shapes"][0])
            o.sample_size = c["sample"]
            kw = {"tol": c["tol"]} if c.get("tol") else {}
            grid, filled = voxelize.voxelize(o, grid_size=tuple(c["grid"]), use_cubes=c["cubes"], num_procs=k, **kw)
            return {"grid": [[list(b[0]), list(b[1])] for b in grid], "filled": [int(x) for x in filled], "pts": [list(p) for p in o.evalpts]}
        return call(f)

    def _tess(self, c, k):
        def f():
            mc = multi.SurfaceContainer()
            for s in c["shapes"]:
                mc.add(T.build(s))
            mc.sample_size = c["sample"]
            mc.tessellate(num_procs=k, force=True)
            return {"verts": [list(v.data) for v in mc.vertices], "faces": [list(t.vertex_ids) for t in mc.faces],
                    "per_elem": [len(e.vertices) for e in mc]}
        return call(f)

    def impl(self, c):
        run = self._vox if c["what"] == "voxelize" else self._tess
        return dict((str(k), run(c, k)) for k in PROCS)

    def coq(self, c, out):
        if any("ok" not in out[str(k)] for k in PROCS):
            return None
        if c["what"] == "voxelize":
            o1 = out["1"]["ok"]
            if len(o1["grid"]) * len(o1["pts"]) > 500:
                return None
            k = c["modelk"]
            tl = G.Q(c["tol"]) if c.get("tol") else G.Q(TOL8)
            return "(let grid := %s in let pts := %s in andb (eqLnat (find_inouts Qops 1 %s grid pts) %s) (eqLnat (find_inouts Qops %s %s grid pts) %s))" % (
                G.qlll(o1["grid"]), G.qll(o1["pts"]), tl, G.nl(o1["filled"]), G.n(k), tl, G.nl(out[str(k)]["ok"]["filled"]))
        # tessellation: Pool.map over the elements is order preserving: element e contributes per_elem[e] vertices, in order
        o1 = out["1"]["ok"]
        parts = []
        for k in PROCS[1:]:
            parts.append("eqLnat (pool_map %s (fun e => nth e %s 0%%nat) (seq 0 %d)) %s" % (G.n(k), G.nl(o1["per_elem"]), len(o1["per_elem"]), G.nl(out[str(k)]["ok"]["per_elem"])))
        e = parts[0]
        for q in parts[1:]:
            e = "andb (%s) (%s)" % (e, q)
        return "(" + e + ")"

    def oracle(self, c, out):
        base = out["1"]
        if "ok" not in base:
            return "procs: %s with num_procs=1 failed on a valid input: %s" % (c["what"], base)
        for k in PROCS[1:]:
            o = out[str(k)]
            if "ok" not in o:
                return "procs-fails: %s with num_procs=%d fails where num_procs=1 succeeds: %s" % (c["what"], k, o)
            if c["what"] == "voxelize":
                if o["ok"]["filled"] != base["ok"]["filled"]:
                    d = [i for i, (x, y) in enumerate(zip(o["ok"]["filled"], base["ok"]["filled"])) if x != y]
                    return "procs-voxelize: filled voxels differ between num_procs=1 and num_procs=%d (first differing voxel %s of %d)" % (k, d[:1], len(base["ok"]["filled"]))
                if not _same(o["ok"]["grid"], base["ok"]["grid"]):
                    return "procs-voxelize: voxel grids differ between num_procs=1 and num_procs=%d" % k
            else:
                if o["ok"]["per_elem"] != base["ok"]["per_elem"] or o["ok"]["faces"] != base["ok"]["faces"] or not _same(o["ok"]["verts"], base["ok"]["verts"]):
                    return "procs-tessellate: vertices / faces of the container differ between num_procs=1 and num_procs=%d" % k
        return None

    def nontrivial(self, c, out):
        return all("ok" in out[str(k)] for k in PROCS)

    def stratum(self, c, out):
        return "%s/%s%d" % (c["what"], c["shapes"][0]["kind"], len(c["shapes"]))


# =====================================================================================================================
def _run_worker(env_value, cases, timeout=100):
    env = dict(os.environ)
    env.pop("GEOMDL_CACHE_SIZE", None)
    if env_value is not None:
        env["GEOMDL_CACHE_SIZE"] = env_value
    env["PYTHONPATH"] = REPO
    env["PYTHONHASHSEED"] = "0"
    env["PYTHONDONTWRITEBYTECODE"] = "1"
    try:
        p = subprocess.run([sys.executable, "-B", os.path.join(VERIF, "harness", "c17worker.py")], input=json.dumps({"cases": cases}).encode(),
                           stdout=subprocess.PIPE, stderr=subprocess.PIPE, env=env, timeout=timeout)
        return json.loads(p.stdout.decode())
    except Exception as e:
        return {"import_error": "worker: %s: %s" % (type(e).__name__, str(e)[:200]), "results": []}


class Cache(Family):
    """GEOMDL_CACHE_SIZE in {unset, 1, 16, 1024}; every value in a fresh process"""
    name = "cache"
    imports = ("Model.Config",)
    count = {"quick": 60, "thorough": 600}
    has_oracle = True
    timeout = 150

    def __init__(self):
        self._batch = None
        self._results = {}

    def gen(self, rng, n):
        out = []
        for i in range(n):
            c = {"id": i}
            # call sequences with repeats (hits) and more distinct keys than the small capacities (evictions)
            keys = [(rng.randint(0, 9), rng.randint(0, 9)) for _ in range(rng.choice([2, 3, 20]))]
            c["binomial"] = [list(rng.choice(keys)) for _ in range(rng.randint(4, 40))]
            ns = [rng.randint(1, 5) for _ in range(rng.choice([1, 3]))]
            c["identity"] = [rng.choice(ns) for _ in range(rng.randint(2, 8))]
            p = rng.randint(1, 4)
            U, _ = gc.knotvector(rng, p, kind="mult", nint=3)
            n_ = len(U) - p - 1
            alphas = []
            for _ in range(6):
                u, _c = gc.param(rng, U, p, "interior")
                k = gc.exact_span(gc.fr(U), p, n_, F(u))
                alphas.append([u, U, k, rng.randint(0, p - 1), k - p + 1])
            c["alpha"] = [alphas[rng.randrange(len(alphas))] for _ in range(10)]
            c["rem_i"] = [[a[0], p, U, 0, a[2] - p + a[3]] for a in c["alpha"][:5]]
            c["rem_j"] = [[a[0], p, U, 0, a[2] - a[3]] for a in c["alpha"][:5]]
            if i % 2 == 0:
                kind = rng.choice(["curve", "surface"])
                s = T.random_shape(rng, kind=kind, rational=rng.random() < 0.7, kvkinds=["uniform", "mult"], maxdeg=3)
                c["shape"] = s
                c["params"] = [T.random_params(rng, s)[0] for _ in range(3)]
                c["order"] = rng.choice([1, 2])
                if kind == "curve":
                    u, _c = gc.param(rng, s["kv"][0], s["degree"][0], "interior")
                    c["insert"] = {"params": [u], "num": [1]}
            out.append(c)
        self._batch = out
        self._results = {}
        return out

    def _ensure(self, c):
        key = json.dumps(c, sort_keys=True)
        if key in self._results:
            return self._results[key]
        batch = self._batch if (self._batch and any(x is c or x == c for x in self._batch)) else [c]
        per_env = dict((str(e), _run_worker(e, batch)) for e in CACHE_ENVS)
        for j, x in enumerate(batch):
            r = {}
            for e in CACHE_ENVS:
                w = per_env[str(e)]
                if w.get("import_error"):
                    r[str(e)] = {"crash": "import geomdl: " + w["import_error"]}
                elif j < len(w["results"]):
                    r[str(e)] = w["results"][j]
                else:
                    r[str(e)] = {"crash": "worker returned no result"}
            self._results[json.dumps(x, sort_keys=True)] = r
        return self._results[key]

    def impl(self, c):
        return self._ensure(c)

    def coq(self, c, out):
        parts = []
        for e, dflt_b, dflt_i in ((None, 128, 16), ("1", 1, 1), ("16", 16, 16), ("1024", 1024, 1024)):
            o = out[str(e)]
            if "ok" not in o:
                continue
            env = "None" if e is None else "(Some env%s)" % e
            calls = "[" + "; ".join("(%d, %d)" % (k, i) for k, i in c["binomial"]) + "]%nat"
            vals = [int(x) for x in o["ok"]["binomial"]]
            if any(float(v) != x for v, x in zip(vals, o["ok"]["binomial"])):
                return "false"
            parts.append("match cache_size_env %s %s with Ok cap => eqLnat (memo_run pair_eqb cap binomial %s) %s | _ => false end" % (env, G.n(dflt_b), calls, G.nl(vals)))
            ids = o["ok"]["identity"]
            parts.append("match cache_size_env %s %s with Ok cap => all2 eqLLnat (memo_run Nat.eqb cap identity_matrix %s) %s | _ => false end" % (
                env, G.n(dflt_i), G.nl(c["identity"]), "[" + "; ".join(G.nll([[int(x) for x in row] for row in m]) for m in ids) + "]"))
        if not parts:
            return None
        e = parts[0]
        for q in parts[1:]:
            e = "andb (%s) (%s)" % (e, q)
        return "(" + e + ")"

    def oracle(self, c, out):
        base = out[str(None)]
        if "ok" not in base:
            return "cache: queries fail with GEOMDL_CACHE_SIZE unset: %s" % (base,)
        for e in CACHE_ENVS[1:]:
            o = out[str(e)]
            if "ok" not in o:
                return "cache-size-fails: GEOMDL_CACHE_SIZE=%s makes a previously valid call fail: %s" % (e, o.get("crash") or o.get("rej"))
            for key, val in base["ok"].items():
                if key == "kv_ok":
                    continue
                if not self._eq(val, o["ok"].get(key)):
                    return "cache-size-%s: results of %s differ between GEOMDL_CACHE_SIZE unset and %s" % (key, key, e)
        # the memoised functions compute what their definitions say
        for (k, i), v in zip(c["binomial"], base["ok"]["binomial"]):
            if F(v) != (F(math.comb(k, i)) if i <= k else 0):
                return "cache-binomial: binomial_coefficient(%d, %d) = %r" % (k, i, v)
        for n, m in zip(c["identity"], base["ok"]["identity"]):
            if m != [[1.0 if a == b else 0.0 for a in range(n)] for b in range(n)]:
                return "cache-identity: matrix_identity(%d) = %s" % (n, m)
        return None

    def _eq(self, a, b):
        if isinstance(a, dict):
            return isinstance(b, dict) and set(a) == set(b) and all(self._eq(a[k], b[k]) for k in a)
        try:
            return gc.closel(a, b, 1e-12)
        except Exception:
            return a == b

    def nontrivial(self, c, out):
        return all("ok" in out[str(e)] for e in CACHE_ENVS)

    def stratum(self, c, out):
        return "%s/%s" % ("shape-" + c["shape"]["kind"] if "shape" in c else "calls", ",".join(_status(out[str(e)]) for e in CACHE_ENVS))


def families():
    return [Span(), SpanFunc(), Evaluator(), Normalize(), Procs(), Cache()]
