"""C10 — translation, rotation and scaling act on the shape as on its points; copy / in-place semantics."""
import math, copy
from fractions import Fraction as F
from core import Family, call
import gal as G
import gencommon as gc
import tpexact as T
from geomdl import operations, multi

RULE = ("structured generator over op {translate, rotate, scale} x single shape / container of 1..3 shapes x kind {curve, surface, "
        "volume} x rational {no, yes} x dimension {2, 3} (curves) x axis 0..2 x inplace {False, True} x cache {cold, warm}; "
        "parameters: all-start and all-end corners plus random ones per element; ~12 % malformed arguments (wrong vector length, "
        "empty vector, axis 3); non-trivial = the operation returned an object; distinct by case hash")
ASSUMPTIONS = ["floating point rounding below 1e-9 is not observable", "all weights are positive",
               "the sense of rotation is not fixed by the property text: the oracle uses the library's own convention "
               "(right-handed about x and z; about y the pinned code turns the other way: x' = x c - z s, z' = z c + x s)",
               "cos and sin of the angle are taken from Python's math.cos / math.sin (exact rationals of those doubles)",
               "a container never holds the same element object twice"]
THEOREM_NOTES = ("coq/Props/C10.v: evaluation commutes with every affine map of the control points for curves, surfaces, volumes and "
                 "rational shapes (weights unchanged) [G]; one shape-level theorem for all kinds [G]; translate / scale / rotate maps "
                 "are affine [G]; container operations act element-wise, rotation about the first element's start point [G]; "
                 "in-place returns and updates the same object, copy returns fresh objects and leaves every existing object "
                 "unchanged [G, provenance ids]")
LEVEL_TEXT = ("General theorems over the real-number instance of the model: all degrees, sorted knot vectors, parameters in the closed "
              "domain, dimensions, positive weights, any affine map; container and object-identity statements for every store.  "
              "What ties the model (Model/Transform.v: point maps, the NURBS weighted/unweighted round trip, the origin of rotation, "
              "argument checks, object store) to geomdl is the sampled correspondence of this check; cos/sin are inputs.  The cached "
              "`evalpts` of containers is not part of the model: it is checked by the oracle only.")
LEVEL_NOTE = "rotation angle enters only through c = cos, s = sin; the theorems hold for all c, s (a rotation when c^2 + s^2 = 1)"
# functions of the numerical core this property rests on that are also tied by the translator (tie theorems: Proofs/GenTie*.v, restated in Props/)
TRANSLATED = ["linalg.point_translate", "linalg.vector_generate"]
TECHNIQUE = "Coq proofs (linear-functional characterisation of the evaluators' accumulation loops, homogeneous lifting, store invariants) + exact Fraction oracles"

ANGLES = [30.0, 45.0, 90.0, 60.0, -120.0, 10.5, 180.0, 270.0, -33.0, 1.0]


def _cs(angle):
    r = math.radians(angle)
    return math.cos(r), math.sin(r)


def _elements(o):
    return [g for g in o]


def _snapshot(o):
    out = []
    for g in _elements(o):
        out.append((copy.deepcopy(list(g.ctrlptsw if g.rational else g.ctrlpts)), copy.deepcopy(T.obj_kvs(g)), list(g.degree) if g.pdimension > 1 else [g.degree]))
    return out


def _stored(g):
    return [list(p) for p in (g.ctrlptsw if g.rational else g.ctrlpts)]


def _map_exact(c, origin, x):
    """the point map of the operation in exact arithmetic (library convention for the sense of rotation)"""
    op = c["op"]
    x = [F(t) for t in x]
    if op == "translate":
        return [a + F(v) for a, v in zip(x, c["vec"])]
    if op == "scale":
        return [a * F(c["mult"]) for a in x]
    cs, sn = [F(t) for t in _cs(c["angle"])]
    dim = len(x)
    axis = 2 if dim == 2 else c["axis"]
    y = [a - o for a, o in zip(x, origin)]
    if axis == 0:
        r = [y[0], y[1] * cs - y[2] * sn, y[2] * cs + y[1] * sn]
    elif axis == 1:
        r = [y[0] * cs - y[2] * sn, y[1], y[2] * cs + y[0] * sn]
    else:
        r = [y[0] * cs - y[1] * sn, y[1] * cs + y[0] * sn] + y[2:]
    return [a + o for a, o in zip(r, origin)]


class Transform(Family):
    name = "transform"
    imports = ("Model.Basis", "Model.Knots", "Model.Eval", "Model.Homog", "Model.Transform")
    count = {"quick": 240, "thorough": 2400}
    has_oracle = True
    timeout = 30

    def gen(self, rng, n):
        out = []
        for i in range(n):
            # strata are enumerated, not drawn: every combination of op x inplace x single/container x cache state occurs
            op = ["translate", "rotate", "scale", "rotate"][i % 4]
            inplace = (i // 4) % 2 == 1
            is_multi = (i // 8) % 2 == 1
            warm = (i // 16) % 2 == 1
            neutral = i % 5 == 4          # zero vector / angle 0 / factor exactly 1 (int) or 1.0 (float)
            kind = rng.choice(["curve", "curve", "surface", "surface", "volume"])
            k = rng.randint(1, 3) if is_multi else 1
            dim = rng.choice([2, 3]) if kind == "curve" else 3
            shapes = [T.random_shape(rng, kind=kind, dim=dim, maxdeg={"curve": 4, "surface": 3, "volume": 2}[kind]) for _ in range(k)]
            pd = T.PD[kind]
            params = []
            for s in shapes:
                ps = [T.corner_params(s, (0,) * pd), T.corner_params(s, (1,) * pd)]
                for _ in range(2 if pd < 3 else 1):
                    ps.append(T.random_params(rng, s)[0])
                params.append(ps)
            c = {"shapes": shapes, "multi": is_multi, "op": op, "inplace": inplace, "params": params,
                 "warm": warm, "mal": "none", "neutral": neutral}
            if op == "translate":
                c["vec"] = [0.0] * dim if neutral else [rng.randint(-40, 40) / 8.0 for _ in range(dim)]
            elif op == "rotate":
                c["angle"] = rng.choice([0.0, 0, 360.0]) if neutral else rng.choice(ANGLES)
                c["axis"] = rng.randint(0, 2)
            else:
                c["mult"] = rng.choice([1, 1.0]) if neutral else rng.choice([2.0, 0.5, -1.5, 3, 0.25, -2])
            r = rng.random()
            if not neutral:
                if r < 0.06 and op == "translate":
                    c["mal"] = "vec-length"
                    c["vec"] = c["vec"] + [1.0] if rng.random() < 0.5 else c["vec"][:-1]
                elif r < 0.12 and op == "translate":
                    c["mal"] = "vec-empty"
                    c["vec"] = []
                elif r < 0.12 and op == "rotate" and dim == 3:
                    c["mal"] = "axis"
                    c["axis"] = 3
            out.append(c)
        return out

    def _build(self, c):
        objs = [T.build(s) for s in c["shapes"]]
        if not c["multi"]:
            return objs[0], objs
        cont = {"curve": multi.CurveContainer, "surface": multi.SurfaceContainer, "volume": multi.VolumeContainer}[c["shapes"][0]["kind"]]()
        for o in objs:
            cont.add(o)
        return cont, objs

    def _apply(self, c, obj):
        if c["op"] == "translate":
            return operations.translate(obj, c["vec"], inplace=c["inplace"])
        if c["op"] == "rotate":
            return operations.rotate(obj, c["angle"], axis=c["axis"], inplace=c["inplace"])
        return operations.scale(obj, c["mult"], inplace=c["inplace"])

    def impl(self, c):
        def f():
            obj, objs = self._build(c)
            for o, s in zip(objs, c["shapes"]):
                if not T.kv_unchanged(o, s):
                    return {"skip": "knot vector altered by normalisation"}
            before = _snapshot(obj)
            ev_before = None
            if c["multi"]:
                obj.sample_size = 3
                if c["warm"]:
                    _ = obj.evalpts                      # the container cache and the caches of its elements are filled
                    ev_before = [[list(p) for p in g.evalpts] for g in _elements(obj)]
            elif c["warm"]:
                obj.sample_size = 2 if obj.pdimension == 3 else 3
                ev_before = [[list(p) for p in obj.evalpts]]
            res = self._apply(c, obj)
            if not c["inplace"] and not c["warm"]:
                # cold caches: read the INPUT's views before anything of the result is read (a copy sharing a cache object with its
                # source would now serve the input's views to the result)
                for g in _elements(obj):
                    _ = (g.ctrlpts, g.weights if g.rational else None, g.bbox)
            after = _snapshot(obj)
            r_el, o_el = _elements(res), _elements(obj)
            out = {"same": res is obj, "elem_same": [a is b for a, b in zip(r_el, o_el)], "n_elems": len(r_el),
                   "input_unchanged": before == after, "type_same": type(res) is type(obj), "elems": []}
            for g, ps in zip(r_el, c["params"]):
                out["elems"].append({"stored": _stored(g), "ctrlpts": [list(p) for p in g.ctrlpts],
                                     "weights": list(g.weights) if g.rational else None, "kv": T.obj_kvs(g),
                                     "degree": list(g.degree) if g.pdimension > 1 else [g.degree],
                                     "eval": [T.eval_single(g, p) for p in ps]})
            if c["warm"]:
                out["evalpts_before"] = ev_before
                out["evalpts_after"] = [[list(p) for p in g.evalpts] for g in r_el]
                out["input_evalpts_after"] = [[list(p) for p in g.evalpts] for g in o_el]
            if c["multi"]:
                # container-level evaluated points of the returned object (fresh expectation: its elements' own points)
                try:
                    got = [list(p) for p in res.evalpts]
                except Exception as e:
                    got = "%s: %s" % (type(e).__name__, e)
                exp = []
                for g in r_el:
                    exp += [list(p) for p in g.evalpts]
                out["container_evalpts"] = {"got": got, "elements": exp}
            if not c["inplace"] and not out["same"]:
                # a later in-place edit of the result must not reach the input
                dim_ = c["shapes"][0]["dim"]
                # read every view of the input first: a copy that shares hidden state with its source would pick it up
                for g in o_el:
                    _ = (g.ctrlpts, g.bbox, g.weights if g.rational else None)
                operations.translate(res, [1.0] * dim_, inplace=True)
                out["input_unchanged_after_edit"] = _snapshot(obj) == before
                out["result_after_edit"] = [[list(p) for p in g.ctrlpts] for g in _elements(res)]
            return out
        return call(f)

    # ---------------------------------------------------------------- model
    def _coq_shapes(self, c):
        lets, names = "", []
        for k, s in enumerate(c["shapes"]):
            nm = "sh%d" % k
            pts = G.qll(T.weighted(s))
            lets += "let %s := mkShape %s %s [%s] %s %s in " % (nm, G.b(s["rational"]), G.nl(s["degree"]), "; ".join(G.ql(U) for U in s["kv"]), G.nl(s["size"]), pts)
            names.append(nm)
        return lets, names

    def _coq_op(self, c, names):
        elems = "[" + "; ".join(names) + "]"
        if c["op"] == "translate":
            return "translate_elems Qops %s %s" % (G.ql(c["vec"]), elems)
        if c["op"] == "scale":
            return "scale_elems Qops %s %s" % (G.Q(float(c["mult"])), elems)
        cs, sn = _cs(c["angle"])
        return "rotate_elems Qops %s %s %s %s" % (G.n(c["axis"]), G.Q(cs), G.Q(sn), elems)

    def _coq_store(self, c, o):
        k = len(c["shapes"])
        if c["multi"]:
            objs = "[(%d, Multi %s)" % (k, G.nl(range(k))) + "".join("; (%d, Single %d)" % (j, 10 * j) for j in range(k)) + "]%nat"
            i, nxt = k, k + 1
        else:
            objs, i, nxt = "[(0, Single 0)]%nat", 0, 1
        return ("(let h := mkStore %s %s in match apply_op %s Datatypes.S h %s with "
                "| Some (h', r) => andb (Bool.eqb (Nat.eqb r %s) %s) (andb (eqLbool (map (fun p => Nat.eqb (fst p) (snd p)) (combine (elems_of h' r) (elems_of h %s))) %s) "
                "(andb (orb %s (Bool.eqb (eqLnat (content h' %s) (content h %s)) %s)) (eqLnat (content h' r) (map Datatypes.S (content h %s))))) "
                "| None => false end)") % (objs, G.n(nxt), G.b(c["inplace"]), G.n(i), G.n(i), G.b(o["same"]), G.n(i), G.bl(o["elem_same"]),
                                           G.b(c["inplace"]), G.n(i), G.n(i), G.b(o["input_unchanged"]), G.n(i))

    def coq(self, c, out):
        lets, names = self._coq_shapes(c)
        op = self._coq_op(c, names)
        if c["mal"] != "none":
            if "ok" in out and "skip" in out["ok"]:
                return None
            return "(%smatch %s with Rejected => %s | _ => false end)" % (lets, op, G.b("rej" in out))
        if "ok" not in out or "skip" in out["ok"]:
            return None
        o = out["ok"]
        pat = " :: ".join("o%d" % k for k in range(len(names))) + " :: nil"
        parts = []
        for k, (e, ps) in enumerate(zip(o["elems"], c["params"])):
            parts.append("closeLL (sh_pts o%d) %s" % (k, G.sll(e["stored"])))
            for p, pt in zip(ps, e["eval"]):
                parts.append("res_cmp closeL (sh_eval Qops o%d %s) (Ok %s)" % (k, G.ql(p), G.sl(pt)))
        body = parts[0]
        for q in parts[1:]:
            body = "andb (%s) (%s)" % (body, q)
        return "(andb (%smatch %s with Ok (%s) => %s | _ => false end) %s)" % (lets, op, pat, body, self._coq_store(c, o))

    def coq_show(self, c, out):
        lets, names = self._coq_shapes(c)
        return "(%sres_map (map (fun s => sh_pts s)) (%s))" % (lets, self._coq_op(c, names))

    # ---------------------------------------------------------------- property oracle
    def oracle(self, c, out):
        if c["mal"] != "none":
            if "ok" in out and "skip" in out["ok"]:
                return None
            return None if "rej" in out else "arguments: malformed argument (%s) was not rejected: %s" % (c["mal"], str(out)[:200])
        if "ok" not in out:
            return "%s: operation failed on a valid input: %s" % (c["op"], out)
        o = out["ok"]
        if "skip" in o:
            return None
        shapes = c["shapes"]
        tag = "%s/%s/%s" % (c["op"], "container" if c["multi"] else "single", "inplace" if c["inplace"] else "copy")
        if not o["type_same"] or o["n_elems"] != len(shapes):
            return "%s: result has another type or another number of elements" % tag
        if c["inplace"]:
            if not o["same"] or not all(o["elem_same"]):
                return "%s-identity: inplace=True did not return / update the same object(s): same=%s elements=%s" % (tag, o["same"], o["elem_same"])
        else:
            if o["same"] or any(o["elem_same"]):
                return "%s-identity: inplace=False returned the input object or shares element objects with it: same=%s elements=%s" % (tag, o["same"], o["elem_same"])
            if not o["input_unchanged"]:
                return "%s-input: inplace=False modified the input object" % tag
        s0 = shapes[0]
        origin = T.eval_exact(s0, [d[0] for d in T.domain(s0)]) if c["op"] == "rotate" else None
        for k, (s, e, ps) in enumerate(zip(shapes, o["elems"], c["params"])):
            if e["kv"] != [list(U) for U in s["kv"]] or e["degree"] != list(s["degree"]):
                return "%s-structure: knot vectors or degrees of element %d changed" % (tag, k)
            if s["rational"] and [F(w) for w in e["weights"]] != [F(w) for w in s["weights"]]:
                return "%s-weights: weights of element %d changed: %s -> %s" % (tag, k, s["weights"], e["weights"])
            if len(e["ctrlpts"]) != len(s["ctrlpts"]):
                return "%s-structure: number of control points of element %d changed" % (tag, k)
            for p, got in zip(ps, e["eval"]):
                exp = _map_exact(c, origin, T.eval_exact(s, p))
                # exact evaluation of the returned element from its own control points and weights
                new = T.eval_exact(s, p, ctrlpts=e["ctrlpts"], weights=e["weights"])
                if not T.close_pt(new, exp, 1e-9):
                    return "%s-points: element %d at %s: point of the transformed shape %s, map applied to the original point %s" % (
                        tag, k, p, [float(x) for x in new], [float(x) for x in exp])
                if not T.close_pt(T.fr_point(got), exp, 1e-9):
                    return "%s-evaluate: element %d at %s: evaluate_single of the result gives %s, map applied to the original point %s" % (
                        tag, k, p, got, [float(x) for x in exp])
        if not c["inplace"] and o.get("input_unchanged_after_edit") is False:
            return "%s-aliasing: an in-place edit of the returned object changed the input object" % tag
        if not c["inplace"] and "result_after_edit" in o:
            # the returned copy, translated in place by (1,..,1) after the input's views were read, must be its own control points + 1
            for k, (el, aft) in enumerate(zip(o["elems"], o["result_after_edit"])):
                exp_pts = [[x + 1.0 for x in p] for p in el["ctrlpts"]]
                if not gc.closel(aft, exp_pts):
                    return "%s-copy-independent: after reading the input's views, an in-place translation of the returned copy does not move the copy's own control points (element %d): the copy shares hidden state with its source" % (c["op"], k)
        if c["warm"] and o.get("evalpts_before") is not None:
            for k, (bef, aft, inp) in enumerate(zip(o["evalpts_before"], o["evalpts_after"], o["input_evalpts_after"])):
                if len(bef) != len(aft):
                    return "%s-evalpts: element %d has %d evaluated points before and %d after the operation" % (tag, k, len(bef), len(aft))
                for x, y in zip(bef, aft):
                    if not T.close_pt(T.fr_point(y), _map_exact(c, origin, x), 1e-9):
                        return "%s-evalpts: evalpts of element %d were read before the operation; afterwards the result still reports %s where the map of the old point %s is %s" % (
                            tag, k, y, x, [float(t) for t in _map_exact(c, origin, x)])
                if not c["inplace"] and not all(T.close_pt(T.fr_point(a), T.fr_point(b), 1e-12) for a, b in zip(bef, inp)):
                    return "%s-input-evalpts: inplace=False changed the evaluated points of the input (element %d)" % (tag, k)
        if c["multi"]:
            ce = o["container_evalpts"]
            if isinstance(ce["got"], str):
                return "%s-container-evalpts: evalpts of the returned container raises %s" % (tag, ce["got"])
            if len(ce["got"]) != len(ce["elements"]) or not all(T.close_pt(T.fr_point(a), T.fr_point(b), 1e-9) for a, b in zip(ce["got"], ce["elements"])):
                return "%s-container-evalpts: evalpts of the returned container are not the evaluated points of its (transformed) elements (%s cache)" % (
                    tag, "warm" if c["warm"] else "cold")
        return None

    def nontrivial(self, c, out):
        return "ok" in out and "skip" not in out["ok"]

    def stratum(self, c, out):
        s = c["shapes"][0]
        return "%s%s/%s%d/%s/%s/%s/%s" % (c["op"], "-neutral" if c.get("neutral") else "", s["kind"], s["dim"], "multi%d" % len(c["shapes"]) if c["multi"] else "single",
                                         "inplace" if c["inplace"] else "copy", "warm" if c["warm"] else "cold",
                                         c["mal"] if c["mal"] != "none" else ("rat" if any(x["rational"] for x in c["shapes"]) else "poly"))


def families():
    return [Transform()]
