"""C13 - one control-net layout convention across all modules (v fastest, then u, then w)."""
import copy
from fractions import Fraction as F
from core import Family, call
import gal as G
import gencommon as gc
from geomdl import BSpline, NURBS, multi, construct, sweeping, operations, compatibility, control_points, knotvector
from geomdl.exceptions import GeomdlException

RULE = ("structured generator: surface / volume nets with pairwise different sizes per direction (2..6), degrees 1..3 "
        "per direction, rational (dyadic weights) or not, clamped knot vectors with repeated interior knots; point (u,v,w) "
        "carries coordinates derived from (u,v,w) and every control point is decoded to its flat input index, so the "
        "comparison with the model is exact; all construction / extraction directions; ~12 % malformed inputs "
        "(short lists, out-of-range indices, mismatching sections, bad direction, too high degree). "
        "non-trivial = the implementation returned a value and at least two sizes differ; distinct by case hash")
ASSUMPTIONS = ["knot vectors are generated already normalised to [0,1] (the knot-vector setters' normalisation is then the identity)",
               "rational and polynomial sections are not mixed in one construct_* call",
               "points are lists of floats; dyadic weights make weighting/unweighting exact in binary floating point"]
THEOREM_NOTES = ("coq/Props/C13.v: 12 theorems, all [G] (all sizes, all nets, any point type); 11 are pure nat/list and axiom-free, "
                 "C13_transpose_evaluates_swapped (tensor-product sums over R, S^T(v,u)=S(u,v) for arbitrary coefficient families) uses the "
                 "standard real-number axioms; construct_volume 'u'/'v' and sweep_vector(curve) are modelled in their repaired form "
                 "(fixes/C13-*.diff, committed to /repo)")
LEVEL_TEXT = ("Coq theorems (all general, no bound on sizes/degrees, axiom-free) about the Gallina model coq/Model/Layout.v of the "
              "layout code: index maps are bijections onto [0,su*sv*sw); grid view, managers, flips, transpose, extract/construct "
              "address nth(idx) ; flip_ctrlpts o flip_ctrlpts_u = id; transpose involutive and role-swapping; extract then construct "
              "along the matching direction = original; sweep boundary sections. The model is tied to /repo by an exact (label-level) "
              "correspondence check on every run. S^T(v,u)=S(u,v) is proved for the tensor-product definition with arbitrary coefficient "
              "families (the basis values); that geomdl's evaluator computes that definition is C01's subject and is here only tied by the "
              "exact Fraction oracle (evaluate_single on the transposed / swept shapes, evaluator subscripts at the knots of degree-1 shapes).")
LEVEL_NOTE = ("Trusted: Coq 8.16.1 kernel incl. vm_compute; no axioms for 11 of 12 theorems (closed under the global context), the standard "
              "real-number axioms (sig_forall_dec, functional_extensionality_dep) for C13_transpose_evaluates_swapped; the "
              "hand-written model's fidelity is sampled by the correspondence check (exact comparison of decoded point labels, "
              "degrees, sizes and knot vectors); knot-vector normalisation and float conversion inside setters are not modelled "
              "(inputs are normalised floats).")
# functions of the numerical core this property rests on that are also tied by the translator (tie theorems: Proofs/GenTie*.v, restated in Props/)
TRANSLATED = ["compatibility.flip_ctrlpts_u", "compatibility.flip_ctrlpts", "compatibility.flip_ctrlpts2d"]
TECHNIQUE = "machine-checked proof in Coq (nat/list, lia/nia + list induction) over a hand-written Gallina model + exact correspondence check evaluated by coqc"

WTS = [0.5, 1.0, 2.0, 4.0, 0.25]
DIRS = {"u": "DU", "v": "DV", "w": "DW"}


# ------------------------------------------------------------------ data
def coords(u, v, w, dim):
    return [u + 0.25, 2.0 * v + 0.5, 3.0 * w + 0.125 * u - 0.0625 * v][:dim]


def weight(u, v, w):
    return WTS[(u + 2 * v + 3 * w) % 5]


def net(su, sv, sw, dim, rat):
    """flat net, v fastest then u then w; homogeneous [x*w,...,w] when rational"""
    out = []
    for w in range(max(sw, 1)):
        for u in range(su):
            for v in range(sv):
                c = coords(u, v, w, dim)
                if rat:
                    wt = weight(u, v, w)
                    c = [x * wt for x in c] + [wt]
                out.append(c)
    return out


def curve_net(n, dim, rat, tag=0):
    out = []
    for i in range(n):
        c = coords(i, tag, 5 * tag, dim)
        if rat:
            wt = weight(i, tag, 0)
            c = [x * wt for x in c] + [wt]
        out.append(c)
    return out


def kvec(rng, p, n):
    """clamped, normalised, interior knots on the 1/16 grid with multiplicity <= p"""
    m = n - p - 1
    interior = []
    while len(interior) < m:
        k = rng.randint(1, 15)
        if interior.count(k) < p:
            interior.append(k)
    return [0.0] * (p + 1) + [k / 16.0 for k in sorted(interior)] + [1.0] * (p + 1)


def sizes(rng, k):
    return rng.sample([2, 3, 4, 5, 6], k)


def deg(rng, n, hi=3):
    return rng.randint(1, min(hi, n - 1))


def labeller(pts, offset=0):
    tab = {}
    for i, p in enumerate(pts):
        tab[tuple(p)] = i + 1 + offset
    return tab


def lab(tab, p):
    return tab.get(tuple(p), 9999)


def hom(obj):
    return [list(map(float, p)) for p in (obj.ctrlptsw if obj.rational else obj.ctrlpts)]


def mk_curve(p, U, pts, rat):
    c = NURBS.Curve() if rat else BSpline.Curve()
    c.degree = p
    c.set_ctrlpts(copy.deepcopy(pts))
    c.knotvector = list(U)
    return c


def mk_surf(d, pts=None):
    s = NURBS.Surface() if d["rat"] else BSpline.Surface()
    s.degree_u, s.degree_v = d["pu"], d["pv"]
    s.set_ctrlpts(copy.deepcopy(pts if pts is not None else net(d["su"], d["sv"], 0, d["dim"], d["rat"])), d["su"], d["sv"])
    s.knotvector_u, s.knotvector_v = list(d["Uu"]), list(d["Uv"])
    return s


def mk_vol(d):
    b = NURBS.Volume() if d["rat"] else BSpline.Volume()
    b.degree_u, b.degree_v, b.degree_w = d["pu"], d["pv"], d["pw"]
    b.set_ctrlpts(net(d["su"], d["sv"], d["sw"], 3, d["rat"]), d["su"], d["sv"], d["sw"])
    b.knotvector_u, b.knotvector_v, b.knotvector_w = list(d["Uu"]), list(d["Uv"]), list(d["Uw"])
    return b


def gen_surf(rng, hi=3, dims=(3, 3, 2), square=0.0):
    su, sv = sizes(rng, 2)
    if rng.random() < square:
        sv = su = max(su, 3)
    pu, pv = deg(rng, su, hi), deg(rng, sv, hi)
    return {"su": su, "sv": sv, "pu": pu, "pv": pv, "Uu": kvec(rng, pu, su), "Uv": kvec(rng, pv, sv),
            "rat": rng.random() < 0.5, "dim": rng.choice(dims)}


def gen_vol(rng, hi=2):
    su, sv, sw = sizes(rng, 3)
    pu, pv, pw = deg(rng, su, hi), deg(rng, sv, hi), deg(rng, sw, hi)
    return {"su": su, "sv": sv, "sw": sw, "pu": pu, "pv": pv, "pw": pw, "Uu": kvec(rng, pu, su), "Uv": kvec(rng, pv, sv),
            "Uw": kvec(rng, pw, sw), "rat": rng.random() < 0.5, "dim": 3}


def canon_crv(c, tab):
    pts = hom(c)
    return {"p": c.degree, "U": list(c.knotvector), "P": [lab(tab, p) for p in pts], "pts": pts, "rat": bool(c.rational)}


def canon_surf(s, tab):
    pts = hom(s)
    return {"pu": s.degree_u, "pv": s.degree_v, "Uu": list(s.knotvector_u), "Uv": list(s.knotvector_v),
            "su": s.ctrlpts_size_u, "sv": s.ctrlpts_size_v, "P": [lab(tab, p) for p in pts], "pts": pts, "rat": bool(s.rational),
            "v2d": [[lab(tab, p) for p in row] for row in s.ctrlpts2d]}


def canon_vol(b, tab):
    pts = hom(b)
    return {"pu": b.degree_u, "pv": b.degree_v, "pw": b.degree_w, "Uu": list(b.knotvector_u), "Uv": list(b.knotvector_v),
            "Uw": list(b.knotvector_w), "su": b.ctrlpts_size_u, "sv": b.ctrlpts_size_v, "sw": b.ctrlpts_size_w,
            "P": [lab(tab, p) for p in pts], "pts": pts, "rat": bool(b.rational)}


# ------------------------------------------------------------------ Gallina rendering
def g_crv(c):
    return "(mkCrv %s %s %s)" % (G.n(c["p"]), G.ql(c["U"]), G.nl(c["P"]))


def g_surf(s):
    return "(mkSurf %s %s %s %s %s %s %s)" % (G.n(s["pu"]), G.n(s["pv"]), G.ql(s["Uu"]), G.ql(s["Uv"]), G.n(s["su"]), G.n(s["sv"]), G.nl(s["P"]))


def g_vol(b):
    return "(mkVol %s %s %s %s %s %s %s %s %s %s)" % (G.n(b["pu"]), G.n(b["pv"]), G.n(b["pw"]), G.ql(b["Uu"]), G.ql(b["Uv"]), G.ql(b["Uw"]),
                                                   G.n(b["su"]), G.n(b["sv"]), G.n(b["sw"]), G.nl(b["P"]))


def g_list(xs, f):
    return "[" + "; ".join(f(x) for x in xs) + "]"


def in_surf(d):
    n = d["su"] * d["sv"]
    return dict(d, P=list(range(1, n + 1)))


def in_vol(d):
    n = d["su"] * d["sv"] * d["sw"]
    return dict(d, P=list(range(1, n + 1)))


def conj(parts):
    e = parts[0]
    for p in parts[1:]:
        e = "andb (%s) (%s)" % (e, p)
    return "(" + e + ")"


# ------------------------------------------------------------------ exact evaluation (oracle side, own index formula)
def basis_exact(U, p, n, u):
    k = gc.exact_span(U, p, n, u)
    if u >= U[n]:
        return k, gc.basis_closed(U, p, k, u)
    return k, [gc.cdb(U, p, k - p + j, u) for j in range(p + 1)]


def eval_exact(degs, kvs, szs, pts, par, rat):
    """tensor product definition with P(u,v,w) = pts[v + sv*(u + su*w)]; returns Fractions"""
    nd = len(degs)
    kvs = [gc.fr(U) for U in kvs]
    bs = [basis_exact(kvs[i], degs[i], szs[i], F(par[i])) for i in range(nd)]
    su = szs[0]
    sv = szs[1] if nd > 1 else 1
    dim = len(pts[0])
    acc = [F(0)] * dim
    rng_w = range(degs[2] + 1) if nd > 2 else [0]
    rng_v = range(degs[1] + 1) if nd > 1 else [0]
    for a in range(degs[0] + 1):
        iu = bs[0][0] - degs[0] + a
        for b in rng_v:
            iv = (bs[1][0] - degs[1] + b) if nd > 1 else 0
            for c in rng_w:
                iw = (bs[2][0] - degs[2] + c) if nd > 2 else 0
                coef = bs[0][1][a] * (bs[1][1][b] if nd > 1 else 1) * (bs[2][1][c] if nd > 2 else 1)
                if nd == 1:
                    pt = pts[iu]
                else:
                    pt = pts[iv + sv * (iu + su * iw)]
                for t in range(dim):
                    acc[t] += coef * F(pt[t])
    if rat:
        return [x / acc[-1] for x in acc[:-1]]
    return acc


def params(U, p, n):
    ds = sorted(set(U[p:n + 1]))
    out = [ds[0], ds[-1]]
    for a, b in zip(ds, ds[1:]):
        out.append((a + b) / 2.0)
    out += ds[1:-1][:2]
    return out


def closev(a, b, tol=1e-9):
    return len(a) == len(b) and all(gc.close(x, y, tol) for x, y in zip(a, b))


# ================================================================== families
class Managers(Family):
    """control_points.SurfaceManager / VolumeManager: find_index, set_ctrlpt, get_ctrlpt"""
    name = "managers"
    imports = ("Model.Layout", "Run.LayoutH")
    count = {"quick": 60, "thorough": 600}
    has_oracle = True

    def gen(self, rng, n):
        out = []
        for i in range(n):
            three = i % 2 == 1
            sz = sizes(rng, 3 if three else 2)
            tot = 1
            for s in sz:
                tot *= s
            order = list(range(tot))
            rng.shuffle(order)
            ops, qs = [], []
            # set every grid position once (shuffled) with the label of its position, plus some out-of-range calls
            for t in order:
                if three:
                    u, v, w = (t // sz[1]) % sz[0], t % sz[1], t // (sz[0] * sz[1])
                    ops.append([u, v, w, 1 + t])
                else:
                    ops.append([t // sz[1], t % sz[1], 1 + t])
            for _ in range(rng.randint(0, 4)):
                pos = [rng.randint(0, s + 1) for s in sz]
                ops.insert(rng.randrange(len(ops) + 1), pos + [5000 + rng.randint(0, 99)])
            if rng.random() < 0.3:  # partially filled array
                ops = ops[:rng.randint(0, len(ops))]
            for _ in range(8):
                qs.append([rng.randint(0, s + (1 if rng.random() < 0.3 else -1)) for s in sz])
            out.append({"sz": sz, "ops": ops, "qs": qs})
        return out

    def impl(self, c):
        sz = c["sz"]

        def f():
            m = control_points.SurfaceManager(*sz) if len(sz) == 2 else control_points.VolumeManager(*sz)
            if len(sz) == 2:
                tbl = [m.find_index(u, v) for u in range(sz[0]) for v in range(sz[1])]
            else:
                tbl = [m.find_index(u, v, w) for u in range(sz[0]) for v in range(sz[1]) for w in range(sz[2])]
            rej = []
            for op in c["ops"]:
                try:
                    m.set_ctrlpt([float(op[-1])], *op[:-1])
                    rej.append(0)
                except GeomdlException:
                    rej.append(1)
            final = [int(p[0]) if p else 0 for p in m.ctrlpts]
            gets = []
            for q in c["qs"]:
                g = m.get_ctrlpt(*q)
                gets.append(None if g is None else (int(g[0]) if g else 0))
            # iteration (twice: the index is reset), len, reversed and a deep copy of the manager see the points in flat-index order
            it1 = [int(p[0]) if p else 0 for p in m]
            it2 = [int(p[0]) if p else 0 for p in m]
            rv = [int(p[0]) if p else 0 for p in reversed(m)]
            import copy as _copy
            cp = _copy.deepcopy(m)
            cpl = [int(p[0]) if p else 0 for p in cp.ctrlpts]
            cp.set_ctrlpt([float(777)], *([0] * len(sz)))
            views = {"iter": it1 == final and it2 == final, "len": len(m) == len(final), "rev": rv == final[::-1], "copy": cpl == final,
                     "copy_indep": [int(p[0]) if p else 0 for p in m.ctrlpts] == final}
            return {"tbl": tbl, "final": final, "gets": gets, "rej": rej, "views": views}
        return call(f)

    def coq(self, c, out):
        if "ok" not in out:
            return "false"
        o, sz = out["ok"], c["sz"]
        ops = "[" + "; ".join("(" + ",".join(str(x) for x in op) + ")" for op in c["ops"]) + "]%nat"
        qs = "[" + "; ".join("(" + ",".join(str(x) for x in q) + ")" for q in c["qs"]) + "]%nat"
        gets = "[" + "; ".join(G.opt(g, G.n) for g in o["gets"]) + "]"
        fn = "chk_mgr2" if len(sz) == 2 else "chk_mgr3"
        return "(%s %s %s %s %s %s %s)" % (fn, " ".join(G.n(s) for s in sz), G.nl(o["tbl"]), ops, G.nl(o["final"]), qs, gets)

    def oracle(self, c, out):
        if "ok" not in out:
            return "managers: failed: %s" % (out,)
        o, sz = out["ok"], c["sz"]
        su, sv = sz[0], sz[1]
        if len(sz) == 2:
            exp = [v + sv * u for u in range(su) for v in range(sv)]
        else:
            exp = [v + sv * (u + su * w) for u in range(su) for v in range(sv) for w in range(sz[2])]
        if o["tbl"] != exp:
            return "find_index: manager addresses %s, the convention v + size_v*(u + size_u*w) gives %s" % (o["tbl"], exp)
        tot = len(exp)
        # replay the session on the reference layout
        ref = [0] * tot
        for op, r in zip(c["ops"], o["rej"]):
            pos = op[:-1]
            inside = all(0 <= p < s for p, s in zip(pos, sz))
            if inside:
                i = pos[1] + sv * (pos[0] + su * (pos[2] if len(sz) == 3 else 0))
                ref[i] = op[-1]
                if r:
                    return "set_ctrlpt: valid position %s rejected" % (pos,)
        # out-of-grid positions may alias into the array (not part of the property): only compare cells never aliased
        alias = set()
        for op in c["ops"]:
            pos = op[:-1]
            if not all(0 <= p < s for p, s in zip(pos, sz)):
                i = pos[1] + sv * (pos[0] + su * (pos[2] if len(sz) == 3 else 0))
                alias.add(i)
        if not alias and o["final"] != ref:
            return "set_ctrlpt: array %s, expected %s" % (o["final"], ref)
        for q, g in zip(c["qs"], o["gets"]):
            if all(0 <= p < s for p, s in zip(q, sz)):
                i = q[1] + sv * (q[0] + su * (q[2] if len(sz) == 3 else 0))
                if g != o["final"][i]:
                    return "get_ctrlpt%s = %s, array holds %s there" % (tuple(q), g, o["final"][i])
        return None

    def nontrivial(self, c, out):
        return "ok" in out and len(c["ops"]) > 3

    def stratum(self, c, out):
        inside = all(all(0 <= p < s for p, s in zip(op[:-1], c["sz"])) for op in c["ops"])
        return "%dD/%s" % (len(c["sz"]), "in-grid" if inside else "with-out-of-grid-calls")


class GridView(Family):
    """Surface.ctrlpts2d view and setter, evaluator subscripts (degree-1 shapes evaluated at their knots)"""
    name = "gridview"
    imports = ("Model.Layout", "Run.LayoutH")
    count = {"quick": 50, "thorough": 500}
    has_oracle = True

    def gen(self, rng, n):
        out = []
        for i in range(n):
            three = i % 3 == 2
            sz = sizes(rng, 3 if three else 2)
            a, b = sizes(rng, 2)
            out.append({"sz": sz, "rat": rng.random() < 0.5, "dim": 3 if three else rng.choice([2, 3]), "ab": [a, b]})
        return out

    def impl(self, c):
        sz, rat, dim = c["sz"], c["rat"], c["dim"]

        def f():
            kv = [knotvector.generate(1, s) for s in sz]
            if len(sz) == 2:
                d = {"su": sz[0], "sv": sz[1], "pu": 1, "pv": 1, "Uu": kv[0], "Uv": kv[1], "rat": rat, "dim": dim}
                s = mk_surf(d)
                tab = labeller(hom(s))
                view = [[lab(tab, p) for p in row] for row in s.ctrlpts2d]
                # setter with an a x b nested list
                a, b = c["ab"]
                pts = net(a, b, 0, dim, rat)
                tab2 = labeller(pts)
                s2 = NURBS.Surface() if rat else BSpline.Surface()
                s2.degree_u, s2.degree_v = 1, 1
                s2.ctrlpts2d = [[pts[v + b * u] for v in range(b)] for u in range(a)]
                setr = {"P": [lab(tab2, p) for p in hom(s2)], "su": s2.ctrlpts_size_u, "sv": s2.ctrlpts_size_v,
                        "view": [[lab(tab2, p) for p in row] for row in s2.ctrlpts2d]}
                ev = [s.evaluate_single((ku, kvv)) for ku in kv[0][1:-1] for kvv in kv[1][1:-1]]
                ev += [s.derivatives(ku, kvv, order=1)[0][0] for ku in kv[0][1:-1] for kvv in kv[1][1:-1]]
                cart = dict((tuple(gc.fr(p[:-1])[i] / F(p[-1]) for i in range(dim)) if rat else tuple(gc.fr(p)), l) for p, l in zip(hom(s), range(1, len(tab) + 1)))
            else:
                d = {"su": sz[0], "sv": sz[1], "sw": sz[2], "pu": 1, "pv": 1, "pw": 1, "Uu": kv[0], "Uv": kv[1], "Uw": kv[2], "rat": rat, "dim": 3}
                s = mk_vol(d)
                tab = labeller(hom(s))
                view, setr = None, None
                ev = [s.evaluate_single((a_, b_, c_)) for a_ in kv[0][1:-1] for b_ in kv[1][1:-1] for c_ in kv[2][1:-1]]
                cart = dict((tuple(gc.fr(p[:-1])[i] / F(p[-1]) for i in range(3)) if rat else tuple(gc.fr(p)), l) for p, l in zip(hom(s), range(1, len(tab) + 1)))
            evl = []
            for p in ev:
                best = 9999
                for key, l in cart.items():
                    if all(abs(F(x) - y) <= F(1, 10 ** 9) for x, y in zip(p, key)):
                        best = l
                evl.append(best)
            if len(sz) == 2:
                return {"view": view, "set": setr, "ev": evl[:len(evl) // 2], "der": evl[len(evl) // 2:]}
            return {"view": view, "set": setr, "ev": evl}
        return call(f)

    def coq(self, c, out):
        if "ok" not in out:
            return "false"
        o, sz = out["ok"], c["sz"]
        n = 1
        for s in sz:
            n *= s
        P = G.nl(range(1, n + 1))
        if len(sz) == 2:
            a, b = c["ab"]
            V = G.nll([[1 + v + b * u for v in range(b)] for u in range(a)])
            parts = ["eqLLnat (view2d 0%%nat %s %s %s) %s" % (G.n(sz[0]), G.n(sz[1]), P, G.nll(o["view"])),
                     "set2d_eqb (set2d 0%%nat %s) %s %s %s" % (V, G.nl(o["set"]["P"]), G.n(o["set"]["su"]), G.n(o["set"]["sv"])),
                     "eqLnat (eval_knots2 0%%nat %s %s %s) %s" % (G.n(sz[0]), G.n(sz[1]), P, G.nl(o["ev"])),
                     "eqLnat (eval_knots2 0%%nat %s %s %s) %s" % (G.n(sz[0]), G.n(sz[1]), P, G.nl(o["der"]))]
        else:
            parts = ["eqLnat (eval_knots3 0%%nat %s %s %s %s) %s" % (G.n(sz[0]), G.n(sz[1]), G.n(sz[2]), P, G.nl(o["ev"]))]
        return conj(parts)

    def oracle(self, c, out):
        if "ok" not in out:
            return "gridview: failed: %s" % (out,)
        o, sz = out["ok"], c["sz"]
        su, sv = sz[0], sz[1]
        if len(sz) == 2:
            exp = [[1 + v + sv * u for v in range(sv)] for u in range(su)]
            if o["view"] != exp:
                return "ctrlpts2d: view[u][v] is not ctrlpts[v + size_v*u]: %s" % (o["view"],)
            a, b = c["ab"]
            st = o["set"]
            if (st["su"], st["sv"]) != (a, b) or st["P"] != list(range(1, a * b + 1)):
                return "ctrlpts2d setter: value[u][v] not stored at v + size_v*u: sizes %s,%s list %s" % (st["su"], st["sv"], st["P"])
            if st["view"] != [[1 + v + b * u for v in range(b)] for u in range(a)]:
                return "ctrlpts2d setter: view after set differs from the assigned grid"
            expev = [1 + v + sv * u for u in range(su) for v in range(sv)]
        else:
            expev = [1 + v + sv * (u + su * w) for u in range(su) for v in range(sv) for w in range(sz[2])]
        if len(sz) == 2 and o["der"] != expev:
            return "evaluator: derivatives(order 0) of a degree-1 surface at knot (i,j) is not control point v + size_v*u: %s" % (o["der"],)
        if o["ev"] != expev:
            return "evaluator: degree-1 shape evaluated at knot (i,j,k) is not control point v + size_v*(u + size_u*w): %s" % (o["ev"],)
        return None

    def stratum(self, c, out):
        return "%dD/%s" % (len(c["sz"]), "rat" if c["rat"] else "poly")


class Flips(Family):
    """compatibility.flip_ctrlpts, flip_ctrlpts_u, flip_ctrlpts2d"""
    name = "flips"
    imports = ("Model.Layout", "Run.LayoutH")
    count = {"quick": 60, "thorough": 600}
    has_oracle = True

    def gen(self, rng, n):
        out = []
        for i in range(n):
            su, sv = sizes(rng, 2)
            extra = 0
            r = rng.random()
            if r < 0.12:
                extra = -rng.randint(1, 2)      # list too short: IndexError
            elif r < 0.2:
                extra = rng.randint(1, 3)       # longer list: tail ignored
            out.append({"su": su, "sv": sv, "extra": extra, "auto": rng.random() < 0.4, "rat": rng.random() < 0.5})
        return out

    def impl(self, c):
        su, sv = c["su"], c["sv"]
        n = su * sv + c["extra"]
        pts = [[float(i + 1), 0.5 * i] + ([2.0] if c["rat"] else []) for i in range(n)]
        tab = labeller(pts)
        V = [[pts[v + sv * u] for v in range(sv)] for u in range(su)] if c["extra"] >= 0 else None

        def f():
            r = {"f": call(lambda: [lab(tab, p) for p in compatibility.flip_ctrlpts(pts, su, sv)]),
                 "fu": call(lambda: [lab(tab, p) for p in compatibility.flip_ctrlpts_u(pts, su, sv)])}
            if c["extra"] >= 0:
                r["ffu"] = [lab(tab, p) for p in compatibility.flip_ctrlpts(compatibility.flip_ctrlpts_u(pts[:su * sv], su, sv), su, sv)]
                r["fuf"] = [lab(tab, p) for p in compatibility.flip_ctrlpts_u(compatibility.flip_ctrlpts(pts[:su * sv], su, sv), su, sv)]
                if c["auto"]:
                    r["f2d"] = [[lab(tab, p) for p in row] for row in compatibility.flip_ctrlpts2d(V)]
                else:
                    r["f2d"] = [[lab(tab, p) for p in row] for row in compatibility.flip_ctrlpts2d(V, su, sv)]
            return r
        return call(f)

    def coq(self, c, out):
        if "ok" not in out:
            return None
        o, su, sv = out["ok"], c["su"], c["sv"]
        n = su * sv + c["extra"]
        P = G.nl(range(1, n + 1))
        parts = ["res_cmp eqLnat (flip_ctrlpts_res 0%%nat %s %s %s) %s" % (P, G.n(su), G.n(sv), G.res(o["f"], G.nl)),
                 "res_cmp eqLnat (flip_ctrlpts_u_res 0%%nat %s %s %s) %s" % (P, G.n(su), G.n(sv), G.res(o["fu"], G.nl))]
        if "f2d" in o:
            V = G.nll([[1 + v + sv * u for v in range(sv)] for u in range(su)])
            parts.append("eqLLnat (flip_ctrlpts2d 0%%nat %s %s %s) %s" % (V, G.n(0 if c["auto"] else su), G.n(0 if c["auto"] else sv), G.nll(o["f2d"])))
        return conj(parts)

    def oracle(self, c, out):
        if "ok" not in out:
            return "flips: failed: %s" % (out,)
        o, su, sv = out["ok"], c["su"], c["sv"]
        if c["extra"] < 0:
            return None
        if "ok" not in o["f"] or "ok" not in o["fu"]:
            return "flips: raised on a complete net: %s %s" % (o["f"], o["fu"])
        # flip_ctrlpts: v-fastest -> u-fastest ; flip_ctrlpts_u: u-fastest -> v-fastest
        expf = [1 + v + sv * u for v in range(sv) for u in range(su)]
        expfu = [1 + u + su * v for u in range(su) for v in range(sv)]
        if o["f"]["ok"] != expf:
            return "flip_ctrlpts: output[u + size_u*v] is not input[v + size_v*u]: %s" % (o["f"]["ok"],)
        if o["fu"]["ok"] != expfu:
            return "flip_ctrlpts_u: output[v + size_v*u] is not input[u + size_u*v]: %s" % (o["fu"]["ok"],)
        ident = list(range(1, su * sv + 1))
        if o["ffu"] != ident or o["fuf"] != ident:
            return "flip_ctrlpts and flip_ctrlpts_u are not inverse to each other"
        if o["f2d"] != [[1 + v + sv * u for u in range(su)] for v in range(sv)]:
            return "flip_ctrlpts2d: out[v][u] is not in[u][v]: %s" % (o["f2d"],)
        return None

    def stratum(self, c, out):
        return "short" if c["extra"] < 0 else ("long" if c["extra"] > 0 else "exact")


class Transpose(Family):
    """operations.transpose and operations.flip on surfaces (and surface containers)"""
    name = "transpose"
    imports = ("Model.Layout", "Run.LayoutH")
    count = {"quick": 50, "thorough": 500}
    has_oracle = True

    def gen(self, rng, n):
        out = []
        for i in range(n):
            d = gen_surf(rng, square=0.15)
            d["container"] = rng.random() < 0.2
            d["inplace"] = rng.random() < 0.3
            out.append(d)
        return out

    def impl(self, c):
        def f():
            s = mk_surf(c)
            tab = labeller(hom(s))
            obj = multi.SurfaceContainer(s, mk_surf(c)) if c["container"] else s
            t = operations.transpose(obj, inplace=c["inplace"])
            t0 = t[0] if c["container"] else t
            res = {"T": canon_surf(t0, tab)}
            par = [(a, b) for a in params(c["Uv"], c["pv"], c["sv"])[:4] for b in params(c["Uu"], c["pu"], c["su"])[:4]]
            res["ev"] = [[a, b, t0.evaluate_single((a, b))] for a, b in par]
            tt = operations.transpose(t0)
            res["TT"] = canon_surf(tt, tab)
            s2 = mk_surf(c)
            fl = operations.flip(multi.SurfaceContainer(s2, mk_surf(c)) if c["container"] else s2, inplace=c["inplace"])
            res["F"] = canon_surf(fl[0] if c["container"] else fl, tab)
            if c["container"]:
                res["T1"] = canon_surf(t[1], tab)
            res["orig_after"] = canon_surf(s, tab)
            return res
        return call(f)

    def coq(self, c, out):
        if "ok" not in out:
            return "false"
        o = out["ok"]
        for nm, okv in (o.get("views") or {}).items():
            if not okv:
                return "managers-%s: the %s view of the manager does not show the control points in flat-index order / a deep copy is not independent" % (nm, nm)
        S = g_surf(in_surf(c))
        parts = ["surf_eqb (transpose 0%%nat %s) %s" % (S, g_surf(o["T"])),
                 "eqLLnat (view2d 0%%nat %s %s %s) %s" % (G.n(o["T"]["su"]), G.n(o["T"]["sv"]), G.nl(o["T"]["P"]), G.nll(o["T"]["v2d"])),
                 "surf_eqb (transpose 0%%nat (transpose 0%%nat %s)) %s" % (S, g_surf(o["TT"])),
                 "surf_eqb (flip %s) %s" % (S, g_surf(o["F"]))]
        return conj(parts)

    def oracle(self, c, out):
        if "ok" not in out:
            return "transpose: failed on a valid surface: %s" % (out,)
        o = out["ok"]
        T = o["T"]
        su, sv = c["su"], c["sv"]
        pts = net(su, sv, 0, c["dim"], c["rat"])
        if (T["pu"], T["pv"], T["su"], T["sv"]) != (c["pv"], c["pu"], sv, su) or T["Uu"] != c["Uv"] or T["Uv"] != c["Uu"]:
            return "transpose-roles: degrees/knots/sizes of u and v are not swapped: %s" % ({k: T[k] for k in ("pu", "pv", "su", "sv")},)
        # control net: T(u', v') = S(v', u')
        for a in range(sv):
            for b in range(su):
                if T["pts"][b + su * a] != pts[a + sv * b]:
                    return "transpose-net: T(%d,%d) is not S(%d,%d)" % (a, b, b, a)
        # exact: S^T(a,b) = S(b,a), on the definition, and the implementation's evaluator on the transposed surface
        for a, b, pt in o["ev"]:
            ref = eval_exact([c["pu"], c["pv"]], [c["Uu"], c["Uv"]], [su, sv], pts, [b, a], c["rat"])
            got = eval_exact([T["pu"], T["pv"]], [T["Uu"], T["Uv"]], [T["su"], T["sv"]], T["pts"], [a, b], T["rat"])
            if got != ref:
                return "transpose-eval: S^T(%s,%s) != S(%s,%s) exactly" % (a, b, b, a)
            if not closev(pt, ref):
                return "transpose-evaluator: evaluate_single on the transposed surface at (%s,%s) = %s, S(v,u) = %s" % (a, b, pt, [float(x) for x in ref])
        TT = o["TT"]
        if (TT["pu"], TT["pv"], TT["su"], TT["sv"], TT["Uu"], TT["Uv"], TT["pts"]) != (c["pu"], c["pv"], su, sv, c["Uu"], c["Uv"], pts):
            return "transpose-involution: transposing twice does not give the original surface back"
        Fl = o["F"]
        if Fl["pts"] != pts[::-1] or (Fl["su"], Fl["sv"]) != (su, sv):
            return "flip: F(u,v) is not S(size_u-1-u, size_v-1-v)"
        if not c["inplace"] and o["orig_after"]["pts"] != pts:
            return "transpose(inplace=False) changed its input"
        if c["container"] and o["T1"]["pts"] != T["pts"]:
            return "transpose: second container element differs"
        return None

    def stratum(self, c, out):
        return "%s/%dx%d/%s" % ("rat" if c["rat"] else "poly", c["su"], c["sv"], "cont" if c["container"] else "single")


class Extract(Family):
    """construct.extract_curves / extract_surfaces"""
    name = "extract"
    imports = ("Model.Layout", "Run.LayoutH")
    count = {"quick": 50, "thorough": 500}
    has_oracle = True

    def gen(self, rng, n):
        out = []
        for i in range(n):
            if i % 2:
                d = gen_vol(rng)
                d["kind"] = "vol"
            else:
                d = gen_surf(rng)
                d["kind"] = "surf"
            out.append(d)
        return out

    def impl(self, c):
        def f():
            if c["kind"] == "surf":
                s = mk_surf(c)
                tab = labeller(hom(s))
                ex = construct.extract_curves(s)
                res = {"u": [canon_crv(x, tab) for x in ex["u"]], "v": [canon_crv(x, tab) for x in ex["v"]]}
                # the documented selection keywords: each family alone, none
                opt = []
                for eu, ev in ((True, False), (False, True), (False, False)):
                    e2 = construct.extract_curves(s, extract_u=eu, extract_v=ev)
                    opt.append([eu, ev, [canon_crv(x, tab) for x in e2["u"]] == (res["u"] if eu else []),
                                [canon_crv(x, tab) for x in e2["v"]] == (res["v"] if ev else [])])
                res["opt"] = opt
                return res
            b = mk_vol(c)
            tab = labeller(hom(b))
            ex = construct.extract_surfaces(b)
            res = {k: [canon_surf(x, tab) for x in ex[k]] for k in ("uv", "uw", "vw")}
            # the six boundary surfaces: first and last member of every family, in the documented order
            iso = [canon_surf(x, tab) for x in construct.extract_isosurface(b)]
            res["iso_ok"] = iso == [res["uv"][0], res["uv"][-1], res["uw"][0], res["uw"][-1], res["vw"][0], res["vw"][-1]]
            return res
        return call(f)

    def coq(self, c, out):
        if "ok" not in out:
            return "false"
        o = out["ok"]
        if c["kind"] == "surf":
            return ("(match extract_curves 0%%nat %s with (cu, cv) => andb (crvs_eqb cu %s) (crvs_eqb cv %s) end)"
                    % (g_surf(in_surf(c)), g_list(o["u"], g_crv), g_list(o["v"], g_crv)))
        return ("(match extract_surfaces 0%%nat %s with (uv, uw, vw) => andb (surfs_eqb uv %s) (andb (surfs_eqb uw %s) (surfs_eqb vw %s)) end)"
                % (g_vol(in_vol(c)), g_list(o["uv"], g_surf), g_list(o["uw"], g_surf), g_list(o["vw"], g_surf)))

    def oracle(self, c, out):
        if "ok" not in out:
            return "extract: failed on a valid shape: %s" % (out,)
        o = out["ok"]
        su, sv = c["su"], c["sv"]
        if c["kind"] == "surf":
            pts = net(su, sv, 0, c["dim"], c["rat"])
            if len(o["u"]) != sv or len(o["v"]) != su:
                return "extract_curves: wrong number of curves"
            for v, cr in enumerate(o["u"]):
                if cr["p"] != c["pu"] or cr["U"] != c["Uu"] or cr["pts"] != [pts[v + sv * u] for u in range(su)] or cr["rat"] != c["rat"]:
                    return "extract_curves['u'][%d]: not the row P(.,%d) with the u degree/knots" % (v, v)
            for u, cr in enumerate(o["v"]):
                if cr["p"] != c["pv"] or cr["U"] != c["Uv"] or cr["pts"] != [pts[v + sv * u] for v in range(sv)] or cr["rat"] != c["rat"]:
                    return "extract_curves['v'][%d]: not the row P(%d,.) with the v degree/knots" % (u, u)
            for eu, ev, oku, okv in o.get("opt", []):
                if not (oku and okv):
                    return "extract_curves(extract_u=%s, extract_v=%s): the %s family is not exactly the requested one" % (eu, ev, "u" if not oku else "v")
            return None
        sw = c["sw"]
        if o.get("iso_ok") is False:
            return "extract_isosurface: not (uv[0], uv[-1], uw[0], uw[-1], vw[0], vw[-1]) of extract_surfaces"
        pts = net(su, sv, sw, 3, c["rat"])
        P = lambda u, v, w: pts[v + sv * (u + su * w)]
        spec = {"uv": (sw, su, sv, "pu", "pv", "Uu", "Uv", lambda k, a, b: P(a, b, k)),
                "uw": (sv, su, sw, "pu", "pw", "Uu", "Uw", lambda k, a, b: P(a, k, b)),
                "vw": (su, sv, sw, "pv", "pw", "Uv", "Uw", lambda k, a, b: P(k, a, b))}
        for key, (cnt, na, nb, pa, pb, Ua, Ub, g) in spec.items():
            if len(o[key]) != cnt:
                return "extract_surfaces['%s']: %d surfaces, expected %d" % (key, len(o[key]), cnt)
            for k, s in enumerate(o[key]):
                if (s["pu"], s["pv"], s["su"], s["sv"]) != (c[pa], c[pb], na, nb) or s["Uu"] != c[Ua] or s["Uv"] != c[Ub] or s["rat"] != c["rat"]:
                    return "extract_surfaces['%s'][%d]: degrees/knots/sizes are not those of the two remaining directions" % (key, k)
                for a in range(na):
                    for b in range(nb):
                        if s["pts"][b + nb * a] != g(k, a, b):
                            return "extract_surfaces['%s'][%d]: point (%d,%d) is not the volume point of the same (u,v,w)" % (key, k, a, b)
        return None

    def stratum(self, c, out):
        return "%s/%s" % (c["kind"], "rat" if c["rat"] else "poly")


class Construct(Family):
    """construct.construct_surface / construct_volume in every direction, and extract -> construct round trips"""
    name = "construct"
    imports = ("Model.Layout", "Run.LayoutH")
    count = {"quick": 90, "thorough": 900}
    has_oracle = True
    MAL = ["none"] * 15 + ["dir", "one", "degree", "size", "highdeg", "kvlen", "deg0"]

    def gen(self, rng, n):
        out = []
        for i in range(n):
            if i % 2:
                d = gen_vol(rng)
                d["kind"] = "vol"
                d["dir"] = ["u", "v", "w"][(i // 2) % 3]
            else:
                d = gen_surf(rng)
                d["kind"] = "surf"
                d["dir"] = ["u", "v"][(i // 2) % 2]
            d["mal"] = rng.choice(self.MAL)
            d["defaults"] = rng.random() < 0.25    # no degree/knotvector keyword arguments
            out.append(d)
        return out

    # which extraction feeds which construction direction
    SRC = {("surf", "u"): "v", ("surf", "v"): "u", ("vol", "u"): "vw", ("vol", "v"): "uw", ("vol", "w"): "uv"}

    def _other(self, c):
        """(degree, knot vector, count) of the stacking direction in the original shape"""
        dr = c["dir"]
        return c["p" + dr], c["U" + dr], c["s" + dr]

    def impl(self, c):
        def f():
            kind, dr, mal = c["kind"], c["dir"], c["mal"]
            if kind == "surf":
                shp = mk_surf(c)
                ex = construct.extract_curves(shp)
                fn = construct.construct_surface
            else:
                shp = mk_vol(c)
                ex = construct.extract_surfaces(shp)
                fn = construct.construct_volume
            tab = labeller(hom(shp))
            secs = list(ex[self.SRC[(kind, dr)]])
            p_o, U_o, n_o = self._other(c)
            kw = {} if c["defaults"] else {"degree": p_o, "knotvector": list(U_o)}
            d_used = kw.get("degree", 2 if kind == "surf" else 1)
            if mal == "dir":
                dr = "w" if kind == "surf" else "x"
            elif mal == "one":
                secs = secs[:1]
            elif mal == "degree":
                other = secs[1]
                if kind == "surf":
                    other.degree = other.degree + 1 if other.degree + 1 <= other.ctrlpts_size - 1 else max(1, other.degree - 1)
                else:
                    other.degree_u = other.degree_u + 1 if other.degree_u + 1 <= other.ctrlpts_size_u - 1 else max(1, other.degree_u - 1)
            elif mal == "size":
                if kind == "surf":
                    pts = hom(secs[1])
                    secs[1] = mk_curve(1, knotvector.generate(1, len(pts) + 1), pts + [pts[0]], c["rat"])
                    secs[1].degree = secs[0].degree
                else:
                    secs = secs[:1] + [list(construct.extract_surfaces(shp)[{"vw": "uw", "uw": "vw", "uv": "uw"}[self.SRC[(kind, dr)]]])[0]] + secs[2:]
            elif mal == "highdeg":
                kw = {"degree": n_o + 1}
                d_used = n_o + 1
            elif mal == "kvlen":
                kw = {"degree": p_o, "knotvector": list(U_o) + [1.0]}
                d_used = p_o
            elif mal == "deg0":
                kw = {"degree": 0, "knotvector": list(U_o)}
                d_used = 0
            secs_c = [canon_crv(x, tab) if kind == "surf" else canon_surf(x, tab) for x in secs]
            if "knotvector" in kw:
                kv_used = kw["knotvector"]
            else:
                g = call(knotvector.generate, d_used, len(secs))
                kv_used = g.get("ok", [])
            r = call(lambda: (canon_surf if kind == "surf" else canon_vol)(fn(dr, *secs, **kw), tab))
            return {"secs": secs_c, "deg": d_used, "kv": kv_used, "dir": dr, "res": r}
        return call(f)

    def coq(self, c, out):
        if "ok" not in out:
            return None
        o = out["ok"]
        dr = DIRS.get(o["dir"], "DBad")
        if c["kind"] == "surf":
            if o["dir"] == "w":
                dr = "DBad"
            return "(res_cmp surf_eqb (csurf %s %s %s %s) %s)" % (dr, G.n(o["deg"]), G.ql(o["kv"]), g_list(o["secs"], g_crv), G.res(o["res"], g_surf))
        return "(res_cmp vol_eqb (cvol %s %s %s %s) %s)" % (dr, G.n(o["deg"]), G.ql(o["kv"]), g_list(o["secs"], g_surf), G.res(o["res"], g_vol))

    def oracle(self, c, out):
        if "ok" not in out:
            return "construct: harness call failed: %s" % (out,)
        o = out["ok"]
        r = o["res"]
        mal = c["mal"]
        if mal == "degree":
            key = "p" if c["kind"] == "surf" else "pu"
            if len(set(x[key] for x in o["secs"])) == 1:
                mal = "none"        # the section could not be given another degree (2 control points)
        if mal != "none":
            if "ok" in r:
                return "construct: malformed input (%s) accepted" % mal
            return None
        kind, dr = c["kind"], c["dir"]
        p_o, U_o, n_o = self._other(c)
        if c["defaults"]:
            dd = 2 if kind == "surf" else 1
            if n_o < dd + 1:
                return None if "rej" in r else "construct: default degree %d with %d sections not rejected: %s" % (dd, n_o, r)
        if "ok" not in r:
            return "construct-%s('%s'): raised on sections extracted from a valid %s: %s" % (kind, dr, kind, r)
        R = r["ok"]
        if kind == "surf":
            pts = net(c["su"], c["sv"], 0, c["dim"], c["rat"])
            keys = ("su", "sv")
            full = ("pu", "pv", "Uu", "Uv")
        else:
            pts = net(c["su"], c["sv"], c["sw"], 3, c["rat"])
            keys = ("su", "sv", "sw")
            full = ("pu", "pv", "pw", "Uu", "Uv", "Uw")
        if tuple(R[k] for k in keys) != tuple(c[k] for k in keys):
            return "construct-%s('%s') after extract: sizes %s, original %s" % (kind, dr, [R[k] for k in keys], [c[k] for k in keys])
        if R["pts"] != pts:
            bad = [i for i, (a, b) in enumerate(zip(R["pts"], pts)) if a != b][:1]
            return "construct-%s('%s') after extract: control net differs from the original (first at flat index %s)" % (kind, dr, bad)
        if R["rat"] != c["rat"]:
            return "construct: rational flag lost"
        if not c["defaults"]:
            for k in full:
                if R[k] != c[k]:
                    return "construct-%s('%s') after extract: %s = %s, original %s" % (kind, dr, k, R[k], c[k])
        else:
            for k in full:
                if k[1] != dr and R[k] != c[k]:
                    return "construct-%s('%s') after extract: %s = %s, original %s" % (kind, dr, k, R[k], c[k])
        return None

    def nontrivial(self, c, out):
        return "ok" in out and "ok" in out["ok"]["res"]

    def stratum(self, c, out):
        return "%s/%s/%s/%s" % (c["kind"], c["dir"], "rat" if c["rat"] else "poly", c["mal"])


class Sweep(Family):
    """sweeping.sweep_vector on curves and surfaces"""
    name = "sweep"
    imports = ("Model.Layout", "Run.LayoutH")
    count = {"quick": 40, "thorough": 400}
    has_oracle = True
    VECS = [[0.5, 0.25, 100.0], [-3.0, 64.0, 0.125], [128.0, 0.0, 0.0]]

    def gen(self, rng, n):
        out = []
        for i in range(n):
            if i % 2:
                d = gen_surf(rng, dims=(3,))
                d["kind"] = "surf"
            else:
                nn = rng.randint(2, 7)
                p = deg(rng, nn, 4)
                d = {"kind": "curve", "n": nn, "p": p, "U": kvec(rng, p, nn), "rat": rng.random() < 0.5, "dim": rng.choice([2, 3])}
            d["vec"] = rng.choice(self.VECS)[:d["dim"]]
            if i % 13 == 12:
                d = gen_vol(rng)
                d["kind"] = "vol"
                d["vec"] = self.VECS[0]
            out.append(d)
        return out

    def _obj(self, c):
        if c["kind"] == "curve":
            return mk_curve(c["p"], c["U"], curve_net(c["n"], c["dim"], c["rat"]), c["rat"])
        if c["kind"] == "surf":
            return mk_surf(c)
        return mk_vol(c)

    def _trans(self, c, pts):
        out = []
        for p in pts:
            if c["rat"]:
                w = p[-1]
                out.append([(x / w + t) * w for x, t in zip(p[:-1], c["vec"])] + [w])
            else:
                out.append([x + t for x, t in zip(p, c["vec"])])
        return out

    def impl(self, c):
        def f():
            obj = self._obj(c)
            pts = hom(obj)
            tab = labeller(pts)
            tab.update(labeller(self._trans(c, pts), offset=len(pts)))
            kv2 = knotvector.generate(1, 2)
            before = hom(obj)
            r = call(lambda: sweeping.sweep_vector(obj, c["vec"]))
            if "ok" in r:
                sw = r["ok"]
                cn = canon_surf(sw, tab) if c["kind"] == "curve" else canon_vol(sw, tab)
                if c["kind"] == "curve":
                    ts = params(c["U"], c["p"], c["n"])[:5]
                    cn["ev"] = [[t, sw.evaluate_single((0.0, t)), sw.evaluate_single((1.0, t))] for t in ts]
                else:
                    ts = [(a, b) for a in params(c["Uu"], c["pu"], c["su"])[:3] for b in params(c["Uv"], c["pv"], c["sv"])[:3]]
                    cn["ev"] = [[list(t), sw.evaluate_single((t[0], t[1], 0.0)), sw.evaluate_single((t[0], t[1], 1.0))] for t in ts]
                r = {"ok": cn}
            return {"res": r, "kv2": kv2, "input_unchanged": hom(obj) == before}
        return call(f)

    def coq(self, c, out):
        if "ok" not in out or c["kind"] == "vol":
            return None
        o = out["ok"]
        if c["kind"] == "curve":
            n = c["n"]
            cin = g_crv({"p": c["p"], "U": c["U"], "P": list(range(1, n + 1))})
            return "(res_cmp surf_eqb (swc %s %s %s) %s)" % (G.n(n), G.ql(o["kv2"]), cin, G.res(o["res"], g_surf))
        n = c["su"] * c["sv"]
        return "(res_cmp vol_eqb (sws %s %s %s) %s)" % (G.n(n), G.ql(o["kv2"]), g_surf(in_surf(c)), G.res(o["res"], g_vol))

    def oracle(self, c, out):
        if "ok" not in out:
            return "sweep: harness call failed: %s" % (out,)
        o = out["ok"]
        r = o["res"]
        if c["kind"] == "vol":
            return None if "rej" in r else "sweep_vector: volume input not rejected"
        if "ok" not in r:
            return "sweep_vector(%s): raised on a valid %s: %s" % (c["kind"], c["kind"], r)
        R = r["ok"]
        if not o["input_unchanged"]:
            return "sweep_vector changed its input"
        if c["kind"] == "curve":
            pts = curve_net(c["n"], c["dim"], c["rat"])
            n = c["n"]
            tr = self._trans(c, pts)
            if (R["su"], R["sv"]) != (2, n) or R["pv"] != c["p"] or R["Uv"] != c["U"]:
                return "sweep-curve: swept surface must have 2 sections of the input's size/degree/knots: %s" % ({k: R[k] for k in ("su", "sv", "pu", "pv")},)
            if [R["pts"][v + n * 0] for v in range(n)] != pts:
                return "sweep-curve: boundary section u=0 is not the input curve"
            if [R["pts"][v + n * 1] for v in range(n)] != tr:
                return "sweep-curve: boundary section u=1 is not the translated input curve"
            for t, a, b in R["ev"]:
                ref = eval_exact([c["p"]], [c["U"]], [n], pts, [t], c["rat"])
                if not closev(a, ref) or not closev(b, [x + F(y) for x, y in zip(ref, c["vec"])]):
                    return "sweep-curve: S(0,%s), S(1,%s) are not C(%s) and C(%s)+vec" % (t, t, t, t)
            return None
        su, sv = c["su"], c["sv"]
        pts = net(su, sv, 0, 3, c["rat"])
        n = su * sv
        tr = self._trans(c, pts)
        if (R["su"], R["sv"], R["sw"]) != (su, sv, 2) or (R["pu"], R["pv"]) != (c["pu"], c["pv"]) or R["Uu"] != c["Uu"] or R["Uv"] != c["Uv"]:
            return "sweep-surface: swept volume must have 2 w-layers of the input's sizes/degrees/knots"
        if R["pts"][:n] != pts:
            return "sweep-surface: boundary section w=0 is not the input surface"
        if R["pts"][n:] != tr:
            return "sweep-surface: boundary section w=1 is not the translated input surface"
        for t, a, b in R["ev"]:
            ref = eval_exact([c["pu"], c["pv"]], [c["Uu"], c["Uv"]], [su, sv], pts, t, c["rat"])
            if not closev(a, ref) or not closev(b, [x + F(y) for x, y in zip(ref, c["vec"])]):
                return "sweep-surface: V(u,v,0), V(u,v,1) are not S(u,v) and S(u,v)+vec at %s" % (t,)
        return None

    def nontrivial(self, c, out):
        return "ok" in out and "ok" in out["ok"]["res"]

    def stratum(self, c, out):
        return "%s/%s" % (c["kind"], "rat" if c["rat"] else "poly")


def families():
    return [Managers(), GridView(), Flips(), Transpose(), Extract(), Construct(), Sweep()]
