"""C06 - removing a removable knot is exact and inverts insertion."""
import copy
from fractions import Fraction as F
from core import Family, call
import gal as G
import gencommon as gc
from props import c67util as S
from geomdl import helpers, operations
from geomdl.exceptions import GeomdlException

TOL8 = S.TOL8
TOL2 = S.TOLREM2

RULE = ("structured generator: kind {curve, surface, volume} x rational {no, yes} x every direction (single, and several at once) x "
        "how the knot became removable {1..p-s insertions inside a span (dyadic and non-dyadic) or on a knot of multiplicity 1..p-1, "
        "knot refinement of density 1, not removable at all (an original knot of random data)} x removal count {1..inserted, more than "
        "inserted, more than the multiplicity, 0, negative, wrong-length list} x degrees 1..5 (curves) / 1..4 (surfaces) / 1..3 (volumes) x "
        "pairwise different sizes per direction x normalised / affine knot vectors; helper called directly on point lists; object "
        "wrappers incl. parameters outside [0,1]; non-trivial = the implementation removed at least one knot; distinct by case hash")
ASSUMPTIONS = ["floating point rounding below 1e-9 (model vs implementation) / 1e-7 (restored control points after insert+remove) is not observable",
               "knot vectors are clamped with interior multiplicities <= degree; the knot to remove is an interior knot",
               "removal parameters are at least 1/128 away from every knot they do not coincide with (multiplicity tolerance 1e-7 is not probed)",
               "control data are such that the Eq. 5.30 distance is either < 1e-9 (removable) or far above the tolerance 1e-3 (random data); the "
               "tolerance boundary itself is not probed",
               "the statements are about the tree with fixes/C06-knot-removal.diff applied (the pinned helpers.knot_removal returns wrong control points)"]
THEOREM_NOTES = "see coq/Props/C06.v"
LEVEL_TEXT = ("Coq theorems over the reals about the executable Gallina model of the repaired helpers.knot_removal / knot_removal_kv and "
              "the per-direction net functions of operations.remove_knot (coq/Props/C06.v): [G] knot_removal_kv inverts knot_insertion_kv, and "
              "removing j <= r of r inserted copies leaves exactly r - j (knot vector reduced by exactly the count); [G] the control net is "
              "reduced by exactly the count for every removal count 1..s; [G] remove1_insert1_id: for every degree, sorted knot vector, "
              "multiplicity s < p and position, the model of knot_removal (num = 1) applied to the model of knot_insertion (num = 1) returns "
              "exactly the original net, and [G] the Eq. 5.30 test distance is exactly 0 (field algebra on the two sweeps of Eq. 5.28, "
              "independent of Boehm's identity); [G] the same for surfaces in the u and in the v direction (gather/scatter incl. "
              "flip_ctrlpts_u, sizes su, sv independent); [G] removal_exact_when_test_is_zero: for ANY net (not only one produced by "
              "insertion) whose test distance is 0, re-inserting the removed knot into the result of one removal reproduces the net before "
              "removal exactly, hence (C04) the curve is unchanged. Round 2 (Proofs/KnotRemGeneral*.v), all [G]: for EVERY count r (1 <= r <= p - s) "
              "inserting r times and removing r times restores the control points exactly; removing j <= r copies leaves the (r-j)-fold insertion "
              "result; at every pass the Eq. 5.30 test distance is exactly 0 (a previously inserted knot is found removable for any tolerance); the "
              "evaluated points are unchanged; the same for surfaces (u, v) and volumes (u, v, w). Bounded: removal after refinement only for one "
              "refined knot. Round 3 (Proofs/KnotRemMultiDir.v, [G]): several directions in ONE insert_knot call followed by ONE remove_knot call "
              "with the same parameters and counts returns the original record (degrees, knot vectors, sizes, whole net) for surfaces and volumes - "
              "insertions in different directions commute on control nets, and the tolerance-based multiplicity / span lookups of remove_knot "
              "answer s + r and k + r after the insertion; with SMALLER removal counts the call returns exactly the insertion result for the "
              "differences (Proofs/KnotRemMore.v). Removal after a GENERAL refinement (Proofs/KnotRemMoreRefine/Order.v): A5.4 with any admissible "
              "X equals the chain of single insertions in any order, and removing the refined knots in ANY order and grouping never raises, "
              "restores control points and knot vector exactly and leaves the curve unchanged after every step; removing some of them gives the "
              "refinement by the rest (curves; also at knot_refinement / refine_knotvector level), and the same for SURFACES and VOLUMES with the "
              "removal calls of all directions interleaved in any order (Proofs/KnotRemRefineLift.v: stage algebra of three commuting "
              "directions + fibre-wise insertion chains). Tied by correspondence/oracle only: the object wrappers.")
LEVEL_NOTE = ("The model describes helpers.knot_removal after fixes/C06-knot-removal.diff (alignment with Algorithm A5.8). It is tied to /repo by the "
              "sampled correspondence check (tolerance 1e-9). Shape preservation in the theorems is stated on control nets (insertion of the "
              "removed knot gives back the net); its equivalence with equality of evaluated points is C04's insertion theorem.")
# functions of the numerical core this property rests on that are also tied by the translator (tie theorems: Proofs/GenTie*.v, restated in Props/)
TRANSLATED = ["helpers.find_span_linear", "helpers.find_spans", "helpers.find_multiplicity", "helpers.knot_removal_kv", "helpers.knot_insertion", "helpers.knot_insertion_kv", "helpers.knot_removal", "helpers.knot_removal_alpha_i", "helpers.knot_removal_alpha_j"]
TECHNIQUE = "Coq proof (field algebra on the Eq. 5.28 sweeps, list induction) + Gallina model executed by vm_compute against geomdl outputs + exact Fraction oracle"


# ------------------------------------------------------------------ generators
def pick_insert(rng, kv, p, want_knot=None):
    """(u, class, s0, r): a parameter strictly inside the domain where 1 <= r <= p - s0 insertions are admissible"""
    n = len(kv) - p - 1
    lo, hi = kv[p], kv[n]
    interior = sorted(set(k for k in kv if lo < k < hi and S.mult(kv, k) < p))
    use_knot = (rng.random() < 0.35) if want_knot is None else want_knot
    if use_knot and interior:
        u = rng.choice(interior)
        cls = "knot"
    else:
        ds = sorted(set(kv))
        i = rng.randrange(len(ds) - 1)
        if rng.random() < 0.25:
            t = rng.choice([1 / 3.0, 0.3, 0.7, 0.6])
            cls = "span3"
        else:
            t = rng.choice([0.5, 0.25, 0.75, 0.125, 0.875])
            cls = "span"
        u = ds[i] + (ds[i + 1] - ds[i]) * t
    s0 = S.mult(kv, u)
    r = rng.randint(1, p - s0)
    if rng.random() < 0.3:
        r = p - s0
    return u, cls, s0, r


def pick_count(rng, r, s):
    """(removal count, class) given r removable copies among multiplicity s"""
    x = rng.random()
    if x < 0.72:
        k = rng.randint(1, r)
        return k, ("all" if k == r else "part")
    if x < 0.82 and s > r:
        return rng.randint(r + 1, s), "beyond"       # more than inserted: not removable, only structure is compared
    if x < 0.92:
        return s + rng.randint(1, 2), "toomany"      # rejected
    if x < 0.96:
        return 0, "zero"
    return r, "all"


def gen_ops_case(rng, pdim, rational, mode):
    """one operations.remove_knot case. mode: insert | refine | none"""
    normalize = rng.random() < 0.8
    if mode == "refine":
        sh = S.gen_shape(rng, pdim, rational, maxdeg={1: 4, 2: 3, 3: 2}[pdim], maxint={1: 2, 2: 1, 3: 1}[pdim],
                         normalize=normalize, budget={1: 12, 2: 20, 3: 30}[pdim], maxmult=2)
    else:
        sh = S.gen_shape(rng, pdim, rational, normalize=normalize, nondyadic=rng.random() < 0.2,
                         maxint=None if mode == "insert" else {1: 4, 2: 3, 3: 2}[pdim])
    degs, kvs = sh["deg"], sh["kv"]
    subsets = [[d] for d in range(pdim)] * 3 + [[d for d in range(pdim) if (m >> d) & 1] for m in range(1, 2 ** pdim)]
    dirs = rng.choice(subsets)
    prep = {"mode": mode, "params": [None] * pdim, "nums": [0] * pdim}
    rem_p, rem_n, cls = [None] * pdim, [0] * pdim, []
    if mode == "insert":
        for d in dirs:
            u, c, s0, r = pick_insert(rng, kvs[d], degs[d])
            prep["params"][d], prep["nums"][d] = u, r
            k, kc = pick_count(rng, r, s0 + r)
            rem_p[d], rem_n[d] = u, k
            cls.append("%s-%s-r%d-%s" % (S.DIRS[d], c, r, kc))
    elif mode == "refine":
        prep["nums"] = [1 if d in dirs else 0 for d in range(pdim)]
        # the knot to remove is chosen in impl-independent fashion: index into the sorted list of refined knots
        for d in dirs:
            rem_p[d] = ("pick", rng.randrange(64))
            rem_n[d] = ("pick", rng.randrange(64), rng.random() < 0.75)
            cls.append("%s-refined" % S.DIRS[d])
    else:
        for d in dirs:
            interior = sorted(set(k for k in kvs[d] if kvs[d][degs[d]] < k < kvs[d][-degs[d] - 1]))
            if not interior:
                continue
            u = rng.choice(interior)
            s = S.mult(kvs[d], u)
            k, kc = pick_count(rng, s, s)
            rem_p[d], rem_n[d] = u, k
            cls.append("%s-orig-%s" % (S.DIRS[d], kc))
    mal = "none"
    x = rng.random()
    if x < 0.03 and mode != "refine":
        rem_n = rem_n[:-1] if rng.random() < 0.5 else rem_n + [1]
        mal = "numlen"
    elif x < 0.06 and mode != "refine":
        d = rng.randrange(pdim)
        rem_n[d] = -1
        mal = "negative"
    return {"shape": sh, "prep": prep, "params": rem_p, "nums": rem_n, "cls": "+".join(cls) or "nothing", "mal": mal}


def resolve_refined(case, kv_before, kv_orig):
    """for refine cases: turn the ('pick', ..) placeholders into a concrete knot and count using the refined knot vectors"""
    params, nums = list(case["params"]), list(case["nums"])
    info = [None] * len(params)
    for d in range(len(params)):
        if isinstance(params[d], (list, tuple)) and params[d][0] == "pick":
            p = case["shape"]["deg"][d]
            kvb, kvo = kv_before[d], kv_orig[d]
            lo, hi = kvb[p], kvb[len(kvb) - p - 1]
            cands = []
            for k in sorted(set(kvb)):
                if lo < k < hi:
                    gained = S.mult(kvb, k) - S.mult(kvo, k)
                    if gained > 0:
                        cands.append((k, gained))
            if not cands:
                params[d], nums[d] = None, 0
                continue
            k, gained = cands[params[d][1] % len(cands)]
            cnt = 1 + (nums[d][1] % gained) if nums[d][2] else gained
            params[d], nums[d] = k, cnt
            info[d] = gained
    return params, nums, info


def apply_prep(obj, case):
    prep = case["prep"]
    if prep["mode"] == "insert":
        operations.insert_knot(obj, prep["params"], prep["nums"])
    elif prep["mode"] == "refine":
        operations.refine_knotvector(obj, prep["nums"])


class Ops(Family):
    """operations.remove_knot on curves, surfaces and volumes"""
    name = "ops"
    imports = ("Model.KnotIns", "Model.InsertKnot", "Model.KnotRem", "Run.SplitH")
    count = {"quick": 330, "thorough": 2600}
    has_oracle = True
    timeout = 60

    def gen(self, rng, n):
        out = []
        for i in range(n):
            pdim = [1, 2, 2, 3, 1, 2, 3, 2][i % 8]
            rational = (i // 8) % 2 == 1 if i % 3 else rng.random() < 0.5
            x = rng.random()
            mode = "insert" if x < 0.72 else ("refine" if x < 0.86 else "none")
            out.append(gen_ops_case(rng, pdim, rational, mode))
        return out

    def impl(self, c):
        obj = S.build(c["shape"])
        orig = S.snapshot(obj)
        apply_prep(obj, c)
        before = S.snapshot(obj)
        params, nums, info = resolve_refined(c, before["kv"], orig["kv"])
        raised = False
        try:
            operations.remove_knot(obj, params, nums)
        except GeomdlException:
            raised = True
        return {"ok": {"orig": orig, "before": before, "after": S.snapshot(obj), "raised": raised, "params": params, "nums": nums, "gained": info}}

    def coq(self, c, out):
        if "ok" not in out:
            return None
        o = out["ok"]
        fn = ["", "remove_knot_curve", "remove_knot_surf", "remove_knot_vol"][c["shape"]["pdim"]]
        return "(let r := %s Qops %s %s true %s %s %s in andb (Bool.eqb (snd r) %s) %s)" % (
            fn, G.Q(TOL8), G.Q(TOL2), S.g_geom(o["before"]), S.g_optQl(o["params"]), S.g_zl(o["nums"]),
            G.b(o["raised"]), S.g_cmp("(fst r)", o["after"]))

    def coq_show(self, c, out):
        o = out["ok"]
        fn = ["", "remove_knot_curve", "remove_knot_surf", "remove_knot_vol"][c["shape"]["pdim"]]
        return "(%s Qops %s %s true %s %s %s)" % (fn, G.Q(TOL8), G.Q(TOL2), S.g_geom(o["before"]), S.g_optQl(o["params"]), S.g_zl(o["nums"]))

    def oracle(self, c, out):
        if "ok" not in out:
            return "remove: the operation failed unexpectedly: %s" % (out,)
        o = out["ok"]
        sh, before, after = c["shape"], o["before"], o["after"]
        pd = sh["pdim"]
        params, nums = o["params"], o["nums"]
        if c["mal"] != "none":
            if not o["raised"]:
                return "remove-validate: malformed count list %s accepted" % (nums,)
            return None if after == before else "remove-validate: object changed although the call was rejected"
        # expected admissibility per direction
        active = [d for d in range(pd) if params[d] is not None and nums[d] > 0]
        mults = [S.mult(before["kv"][d], params[d]) if d in active else 0 for d in range(pd)]
        if any(nums[d] > mults[d] for d in active):
            if not o["raised"]:
                return "remove-toomany: removing a knot more often than its multiplicity was accepted (%s, multiplicities %s)" % (nums, mults)
            if len(active) == 1 and after != before:
                return "remove-toomany: object changed although the removal was rejected"
            return None
        if o["raised"]:
            return "remove: admissible removal %s x %s was rejected" % (params, nums)
        msg = S.structure_ok(after)
        if msg:
            return "remove-structure: " + msg
        removable = True
        for d in range(pd):
            k = nums[d] if d in active else 0
            if after["size"][d] != before["size"][d] - k:
                return "remove-count: size_%s went from %d to %d for %d removals" % (S.DIRS[d], before["size"][d], after["size"][d], k)
            exp = list(before["kv"][d])
            for _ in range(k):
                exp.remove(params[d])
            if after["kv"][d] != exp:
                return "remove-kv: knot vector %s is %s, expected %s" % (S.DIRS[d], after["kv"][d], exp)
            if d in active:
                if c["prep"]["mode"] == "insert":
                    removable = removable and c["prep"]["params"][d] == params[d] and k <= c["prep"]["nums"][d]
                elif c["prep"]["mode"] == "refine":
                    removable = removable and o["gained"][d] is not None and k <= o["gained"][d]
                else:
                    removable = False
        if after["deg"] != before["deg"]:
            return "remove: degrees changed"
        if not removable or not active:
            if not active and after != before:
                return "remove-noop: object changed by an empty removal"
            return None
        # the knot was removable: evaluated points unchanged
        msg = S.same_shape(before, after)
        if msg:
            return "remove-shape: %s (removed %s x %s)" % (msg, params, nums)
        if c["prep"]["mode"] == "insert" and all(nums[d] == c["prep"]["nums"][d] for d in range(pd)):
            if not gc.closel(after["P"], o["orig"]["P"], 1e-7) or after["kv"] != o["orig"]["kv"]:
                worst = max(abs(a - b) for x, y in zip(after["P"], o["orig"]["P"]) for a, b in zip(x, y)) if len(after["P"]) == len(o["orig"]["P"]) else "size"
                return "remove-inverts-insert: inserting %s x %s and removing it again does not restore the control points (max deviation %s)" % (
                    params, nums, worst)
        return None

    def nontrivial(self, c, out):
        return "ok" in out and out["ok"]["after"]["size"] != out["ok"]["before"]["size"]

    def stratum(self, c, out):
        sh = c["shape"]
        return "%s%s/%s/%s%s" % (["", "curve", "surface", "volume"][sh["pdim"]], "-rat" if sh["rational"] else "", c["prep"]["mode"],
                                 "+".join(x.split("-r")[0] for x in c["cls"].split("+")) if c["mal"] == "none" else c["mal"],
                                 "" if sh["normalize"] else "/affine")


class Helper(Family):
    """helpers.knot_removal / knot_removal_kv called directly on lists of points"""
    name = "helper"
    imports = ("Model.KnotIns", "Model.KnotRem")
    count = {"quick": 200, "thorough": 2000}
    has_oracle = True

    def gen(self, rng, n):
        out = []
        for i in range(n):
            p = 1 + i % 5
            kv = S.clamped_kv(rng, p, rng.randint(0, 4), grid=32 if rng.random() < 0.3 else 16)
            size = len(kv) - p - 1
            dim = rng.choice([1, 2, 3, 4])
            P = gc.points(rng, size, dim)
            if rng.random() < 0.8 or len(kv) == 2 * p + 2:
                u, cls, s0, r = pick_insert(rng, kv, p)
                k = rng.randint(1, r) if rng.random() < 0.85 or s0 == 0 else rng.randint(r + 1, s0 + r)
                out.append({"p": p, "kv": kv, "P": P, "u": u, "r": r, "k": k, "cls": cls, "s0": s0})
            else:
                interior = sorted(set(kv[p + 1:-p - 1]))
                u = rng.choice(interior)
                s0 = S.mult(kv, u)
                out.append({"p": p, "kv": kv, "P": P, "u": u, "r": 0, "k": rng.randint(1, s0), "cls": "orig", "s0": s0})
        return out

    def _prep(self, c):
        p, kv, P, u, r = c["p"], c["kv"], c["P"], c["u"], c["r"]
        if r > 0:
            span = helpers.find_span_linear(p, kv, len(P), u)
            P1 = helpers.knot_insertion(p, kv, P, u, num=r, s=c["s0"], span=span)
            kv1 = helpers.knot_insertion_kv(kv, u, span, r)
        else:
            P1, kv1 = [list(x) for x in P], list(kv)
        return kv1, P1

    def impl(self, c):
        def f():
            p, u, k = c["p"], c["u"], c["k"]
            kv1, P1 = self._prep(c)
            s = c["s0"] + c["r"]
            span = helpers.find_span_linear(p, kv1, len(P1), u)
            Pin = copy.deepcopy(P1)
            kvin = list(kv1)
            if c["k"] % 2:
                Q = helpers.knot_removal(p, kv1, P1, u, num=k, s=s, span=span)
            else:
                Q = helpers.knot_removal(p, kv1, P1, u, num=k)       # multiplicity and span found by the helper
            kvq = helpers.knot_removal_kv(kv1, span, k)
            return {"kv1": kvin, "P1": Pin, "span": span, "s": s, "Q": Q, "kvq": kvq, "unchanged": P1 == Pin and kv1 == kvin}
        return call(f)

    def coq(self, c, out):
        if "ok" not in out:
            return None
        o = out["ok"]
        dim = len(c["P"][0])
        return "(andb (closeLL (knot_removal Qops %s %s %s %s %s %s %s %s %s) %s) (closeL (knot_removal_kv %s %s %s) %s))" % (
            G.n(dim), G.Q(TOL2), G.n(c["p"]), G.ql(o["kv1"]), G.qll(o["P1"]), G.Q(c["u"]), G.n(c["k"]), G.n(o["s"]), G.n(o["span"]),
            G.sll(o["Q"]), G.ql(o["kv1"]), G.n(o["span"]), G.n(c["k"]), G.sl(o["kvq"]))

    def coq_show(self, c, out):
        o = out["ok"]
        return "(knot_removal Qops %s %s %s %s %s %s %s %s %s)" % (
            G.n(len(c["P"][0])), G.Q(TOL2), G.n(c["p"]), G.ql(o["kv1"]), G.qll(o["P1"]), G.Q(c["u"]), G.n(c["k"]), G.n(o["s"]), G.n(o["span"]))

    def oracle(self, c, out):
        if "ok" not in out:
            return "helper: knot_removal failed: %s" % (out,)
        o = out["ok"]
        p, k, r = c["p"], c["k"], c["r"]
        if not o["unchanged"]:
            return "helper-input: knot_removal modified its input lists"
        if len(o["Q"]) != len(o["P1"]) - k:
            return "helper-count: %d control points after %d removals from %d" % (len(o["Q"]), k, len(o["P1"]))
        exp = list(o["kv1"])
        for _ in range(k):
            exp.remove(c["u"])
        if o["kvq"] != exp:
            return "helper-kv: knot_removal_kv returned %s, expected %s" % (o["kvq"], exp)
        if k > r:
            return None
        before = {"pdim": 1, "rational": False, "deg": [p], "kv": [o["kv1"]], "size": [len(o["P1"])], "P": o["P1"]}
        after = {"pdim": 1, "rational": False, "deg": [p], "kv": [o["kvq"]], "size": [len(o["Q"])], "P": o["Q"]}
        msg = S.same_shape(before, after)
        if msg:
            return "helper-shape: %s (inserted %d, removed %d of %s)" % (msg, r, k, c["u"])
        if k == r and not gc.closel(o["Q"], c["P"], 1e-7):
            worst = max(abs(a - b) for x, y in zip(o["Q"], c["P"]) for a, b in zip(x, y))
            return "helper-inverts-insert: insert %d x %s then remove %d does not restore the control points (max deviation %r)" % (r, c["u"], k, worst)
        return None

    def nontrivial(self, c, out):
        return "ok" in out

    def stratum(self, c, out):
        return "p%d/%s/%s" % (c["p"], c["cls"], "all" if c["k"] == c["r"] else ("part" if c["k"] < c["r"] else "beyond"))


class Wrapper(Family):
    """Curve/Surface/Volume.remove_knot object methods"""
    name = "wrapper"
    imports = ("Model.KnotIns", "Model.InsertKnot", "Model.KnotRem", "Run.SplitH")
    count = {"quick": 90, "thorough": 600}
    has_oracle = True
    timeout = 60

    def gen(self, rng, n):
        out = []
        for i in range(n):
            pdim = [1, 2, 3][i % 3]
            c = gen_ops_case(rng, pdim, rng.random() < 0.4, "insert" if rng.random() < 0.85 else "none")
            c["mal"] = "none"
            c["nums"] = [max(0, int(x)) for x in c["nums"]][:pdim] + [0] * (pdim - len(c["nums"]))
            x = rng.random()
            if x < 0.12:
                d = rng.randrange(pdim)
                c["params"][d] = rng.choice([-0.25, 1.5, 2.0])
                c["nums"][d] = max(1, c["nums"][d])
                c["mal"] = "outside"
            out.append(c)
        return out

    def _kwargs(self, c):
        pd = c["shape"]["pdim"]
        params, nums = c["params"], c["nums"]
        if pd == 1:
            return (params[0],), {"num": nums[0]}
        kw = {}
        for d in range(pd):
            kw["uvw"[d]] = params[d]
            kw["num_" + "uvw"[d]] = nums[d]
        return (), kw

    def impl(self, c):
        obj = S.build(c["shape"])
        orig = S.snapshot(obj)
        apply_prep(obj, c)
        before = S.snapshot(obj)
        a, kw = self._kwargs(c)
        if c["shape"]["pdim"] == 1 and a[0] is None:
            return {"ok": {"skip": True}}
        r = call(lambda: S.quiet(obj.remove_knot, *a, **kw))
        if "crash" in r:
            return r
        return {"ok": {"orig": orig, "before": before, "after": S.snapshot(obj), "rejected": "rej" in r}}

    def coq(self, c, out):
        if "ok" not in out or out["ok"].get("skip"):
            return None
        o = out["ok"]
        pd = c["shape"]["pdim"]
        fn = ["", "curve_remove_knot", "surf_remove_knot", "vol_remove_knot"][pd]
        args = " ".join(S.g_optQ(x) for x in c["params"]) + " " + " ".join("(%d)%%Z" % x for x in c["nums"])
        term = "(%s Qops %s %s %s %s %s true)" % (fn, G.Q(TOL8), G.Q(TOL2), G.b(c["shape"]["normalize"]), S.g_geom(o["before"]), args)
        if o["rejected"]:
            return "(match %s with Rejected => true | _ => false end)" % term
        return "(match %s with Ok g => %s | _ => false end)" % (term, S.g_cmp("g", o["after"]))

    def oracle(self, c, out):
        if "ok" not in out:
            return "wrapper: remove_knot crashed: %s" % (out,)
        o = out["ok"]
        if o.get("skip"):
            return None
        pd = c["shape"]["pdim"]
        before, after = o["before"], o["after"]
        if c["mal"] == "outside" and c["shape"]["normalize"]:
            if not o["rejected"]:
                return "wrapper-outside: a parameter outside [0,1] was accepted"
            return None if after == before else "wrapper-outside: object changed by a rejected call"
        if c["mal"] == "outside":
            return None
        if o["rejected"]:
            return "wrapper: valid call rejected"
        params, nums = c["params"], c["nums"]
        active = [d for d in range(pd) if params[d] is not None and nums[d] > 0]
        mults = [S.mult(before["kv"][d], params[d]) if d in active else 0 for d in range(pd)]
        if any(nums[d] > mults[d] for d in active):
            if len(active) == 1 and after != before:
                return "wrapper-toomany: object changed although the removal is impossible"
            return None
        for d in range(pd):
            k = nums[d] if d in active else 0
            if after["size"][d] != before["size"][d] - k:
                return "wrapper-count: size_%s went from %d to %d for %d removals" % (S.DIRS[d], before["size"][d], after["size"][d], k)
        removable = c["prep"]["mode"] == "insert" and all(c["prep"]["params"][d] == params[d] and nums[d] <= c["prep"]["nums"][d] for d in active)
        if removable and active:
            msg = S.same_shape(before, after)
            if msg:
                return "wrapper-shape: " + msg
        return None

    def nontrivial(self, c, out):
        return "ok" in out and not out["ok"].get("skip") and out["ok"]["after"]["size"] != out["ok"]["before"]["size"]

    def stratum(self, c, out):
        return "%s/%s" % (["", "curve", "surface", "volume"][c["shape"]["pdim"]], c["mal"] if c["mal"] != "none" else "+".join(x.split("-r")[0] for x in c["cls"].split("+")))


def families():
    return [Ops(), Helper(), Wrapper()]
