"""C08 - degree elevation preserves a Bezier shape and reduction inverts it."""
from fractions import Fraction as F
from math import comb
from core import Family, call
import gal as G
import gencommon as gc
from geomdl import helpers, operations, BSpline, NURBS

RULE = ("structured generator over degree 1..8 (plus 0 and 9..12 for reduction) x elevation count 1..4 x coordinate kind "
        "{Cartesian 1..4 coordinates, homogeneous (xw..,w) with weights in [1/8,4], rows of 2..4 points flattened to one "
        "coordinate list (up to 16 coordinates)}; dyadic control values; ~15 % malformed (non-Bezier length, count <= 0, "
        "degree < 2 for reduction); reduction is run on the implementation's own elevation (t reductions after an elevation by t), "
        "on exactly representable exact elevations and on arbitrary polygons; non-trivial = input accepted and degree >= 2 or "
        "count >= 2; distinct by case hash")
ASSUMPTIONS = ["floating point rounding below 1e-9 is not observable",
               "a 'row of points' is one control point whose coordinate list is the concatenation of the row (helpers.degree_elevation "
               "cannot zip nested rows itself: float * list raises TypeError)",
               "degree_reduction is modelled as repaired by fixes/C08-degree-reduction-backward-loop.diff"]
THEOREM_NOTES = ("see coq/Props/C08.v: [F] elevation_preserves_bezier and reduction_inverts_elevation exhaust degrees 1..8 x counts 1..4 "
                 "(field on a symbolic polygon) for points of every dimension via the coordinate-wise lift [G]; end points, rejection [G]")
LEVEL_TEXT = ("proof: for EVERY degree p >= 1 and EVERY elevation count t >= 1 (general theorems, Proofs/DegreeGeneral.v: binomial theorem on "
              "(x + (1-x))^t, sum re-indexing) the elevated polygon of the model defines exactly the same Bezier curve, for all real control values "
              "and points of any dimension; t reductions of the (repaired) degree_reduction return the original polygon for every p, t (loop "
              "invariant of the two sweeps + elevation by t = t elevations by one); the model's binomial coefficient is k!/(i!(k-i)!); end points "
              "and the rejection rules hold for all inputs.  The property's own finite range (degree 1..8, count 1..4) is additionally exhausted "
              "by field as an independent cross-check")
LEVEL_NOTE = ("theorems are about the hand-written Gallina model of helpers.degree_elevation/degree_reduction (reduction as repaired), tied "
              "to the Python code by the sampled correspondence check; the Bernstein specification is stated in Coq (bernstein/bezier), its "
              "link to the B-spline evaluator on a Bezier knot vector is only observed through operations.degree_operations cases")
# functions of the numerical core this property rests on that are also tied by the translator (tie theorems: Proofs/GenTie*.v, restated in Props/)
TRANSLATED = ["helpers.degree_reduction", "helpers.degree_elevation", "linalg.binomial_coefficient"]
TECHNIQUE = "Coq 8.16: general induction / finite-sum algebra (binomial theorem) for all degrees and counts; field on symbolic polygons per (degree,count) as cross-check; Paramcoq free theorem for the coordinate-wise lift; exact Fraction oracle via power-basis conversion"


# ------------------------------------------------------------------ exact oracle helpers
def power_coeffs(P):
    """power-basis coefficients a_k (vectors) of the Bezier curve with control points P (Fractions)"""
    p = len(P) - 1
    dim = len(P[0])
    return [[comb(p, k) * sum((-1) ** (k - i) * comb(k, i) * P[i][c] for i in range(k + 1)) for c in range(dim)] for k in range(p + 1)]


def exact_elevation(P, t):
    """the unique polygon of degree p+t with the same polynomial (computed through the power basis, not Eq. 5.36)"""
    p = len(P) - 1
    n = p + t
    a = power_coeffs(P)
    dim = len(P[0])
    return [[sum(F(comb(i, k), comb(n, k)) * a[k][c] for k in range(min(i, p) + 1)) for c in range(dim)] for i in range(n + 1)]


def bezier_eval(P, x):
    """de Casteljau in exact arithmetic"""
    Q = [list(pt) for pt in P]
    while len(Q) > 1:
        Q = [[(1 - x) * a + x * b for a, b in zip(Q[i], Q[i + 1])] for i in range(len(Q) - 1)]
    return Q[0]


def is_float_exact(x):
    return F(float(x)) == x


def gen_polygon(rng, p, kind=None):
    kind = kind or rng.choice(["cartesian", "cartesian", "homogeneous", "homogeneous", "rows"])
    n = p + 1
    if kind == "cartesian":
        dim = rng.randint(1, 4)
        return gc.points(rng, n, dim), kind
    if kind == "homogeneous":
        dim = rng.randint(2, 3)
        pts = gc.points(rng, n, dim)
        ws = gc.weights(rng, n)
        return [[c * w for c in pt] + [w] for pt, w in zip(pts, ws)], kind
    k = rng.randint(2, 4)
    dim = rng.randint(2, 4)
    rat = rng.random() < 0.4
    rows = []
    for _ in range(n):
        row = []
        for pt in gc.points(rng, k, dim):
            if rat:
                w = gc.weights(rng, 1)[0]
                pt = [c * w for c in pt[:-1]] + [w]
            row += pt
        rows.append(row)
    return rows, kind


def cmp_elev(p, P, num, out):
    return "(res_cmp closeLL (degree_elevation_pts Qops %s %s %s) %s)" % (G.n(p), G.qll(P), G.z(num), G.res(out, G.sll))


def cmp_red(p, P, out):
    return "(res_cmp closeLL (degree_reduction_pts Qops %s %s) %s)" % (G.n(p), G.qll(P), G.res(out, G.sll))


def conj(parts):
    e = parts[0]
    for q_ in parts[1:]:
        e = "andb (%s) (%s)" % (e, q_)
    return "(" + e + ")"


# ------------------------------------------------------------------ families
class Elevate(Family):
    name = "elevate"
    imports = ("Model.Degree",)
    count = {"quick": 260, "thorough": 2500}
    has_oracle = True

    def gen(self, rng, n):
        out = []
        pairs = [(p, t) for p in range(1, 9) for t in range(1, 5)]
        for i in range(n):
            p, t = pairs[i % len(pairs)] if i < 3 * len(pairs) else (rng.randint(0, 9), rng.randint(1, 5))
            P, kind = gen_polygon(rng, p)
            mal = "none"
            r = rng.random()
            if r < 0.07:
                mal = "length"
                if rng.random() < 0.5 and len(P) > 1:
                    P = P[:-1]
                else:
                    P = P + [list(P[0])]
            elif r < 0.14:
                mal = "count"
                t = rng.choice([0, 0, -1, -3])
            out.append({"p": p, "t": t, "P": P, "kind": kind, "mal": mal})
        return out

    def impl(self, c):
        return call(helpers.degree_elevation, c["p"], c["P"], num=c["t"])

    def coq(self, c, out):
        return cmp_elev(c["p"], c["P"], c["t"], out)

    def coq_show(self, c, out):
        return "(degree_elevation_pts Qops %s %s %s)" % (G.n(c["p"]), G.qll(c["P"]), G.z(c["t"]))

    def oracle(self, c, out):
        p, t, P = c["p"], c["t"], gc.fr(c["P"])
        if c["mal"] != "none":
            return None if "rej" in out else "elevate-reject: %s input was not rejected: %s" % (
                "non-Bezier" if c["mal"] == "length" else "non-positive count", str(out)[:100])
        if "ok" not in out:
            return "elevate: failed on a valid Bezier polygon: %s" % (out,)
        Q = out["ok"]
        if len(Q) != p + t + 1 or any(len(q) != len(P[0]) for q in Q):
            return "elevate-shape: %d points returned for degree %d + %d" % (len(Q), p, t)
        if not gc.closel(Q[0], P[0], 1e-12) or not gc.closel(Q[-1], P[-1], 1e-12):
            return "elevate-endpoints: end points changed: %s %s" % (Q[0], Q[-1])
        E = exact_elevation(P, t)
        for i in range(len(Q)):
            if not gc.closel(Q[i], E[i]):
                return "elevate-curve: control point %d = %s, the degree-%d polygon of the same curve has %s" % (
                    i, Q[i], p + t, [float(x) for x in E[i]])
        # independent of the conversion above: same curve at two exact parameters
        Qf = gc.fr(Q)
        for x in (F(1, 3), F(5, 8)):
            if not gc.closel(bezier_eval(Qf, x), bezier_eval(P, x)):
                return "elevate-eval: curves differ at x=%s" % x
        return None

    def nontrivial(self, c, out):
        return "ok" in out and (c["p"] >= 2 or c["t"] >= 2)

    def stratum(self, c, out):
        return "p%d/t%d/%s/%s" % (c["p"], c["t"], c["kind"], c["mal"]) if c["mal"] != "none" else "p%d/t%d/%s" % (c["p"], c["t"], c["kind"])


class Reduce(Family):
    name = "reduce"
    imports = ("Model.Degree",)
    count = {"quick": 220, "thorough": 2200}
    has_oracle = True

    def gen(self, rng, n):
        out = []
        pairs = [(p, t) for p in range(1, 9) for t in range(1, 5)]
        for i in range(n):
            r = rng.random()
            if i < 2 * len(pairs) or r < 0.45:
                p, t = pairs[i % len(pairs)] if i < 2 * len(pairs) else rng.choice(pairs)
                P, kind = gen_polygon(rng, p)
                out.append({"mode": "roundtrip", "p": p, "t": t, "P": P, "kind": kind})
            elif r < 0.65:
                # exact elevation by one, exactly representable: control values are multiples of (p+1)/8
                p = rng.randint(1, 8)
                dim = rng.randint(1, 3)
                P = [[(p + 1) * rng.randint(-40, 40) / 8.0 for _ in range(dim)] for _ in range(p + 1)]
                E = exact_elevation(gc.fr(P), 1)
                assert all(is_float_exact(x) for pt in E for x in pt)
                out.append({"mode": "exact", "p": p, "t": 1, "P": P, "Q": [[float(x) for x in pt] for pt in E], "kind": "cartesian"})
            elif r < 0.85:
                q = rng.randint(2, 12)
                P, kind = gen_polygon(rng, q)
                out.append({"mode": "arbitrary", "q": q, "P": P, "kind": kind})
            else:
                q = rng.choice([0, 1, 1, 2, 3, 5, 6])
                P, kind = gen_polygon(rng, q)
                mal = "degree" if q < 2 else "length"
                if mal == "length":
                    P = P[:-1] if rng.random() < 0.5 else P + [list(P[-1])]
                out.append({"mode": "malformed", "q": q, "P": P, "kind": kind, "mal": mal})
        return out

    def impl(self, c):
        m = c["mode"]
        if m in ("arbitrary", "malformed"):
            return call(helpers.degree_reduction, c["q"], c["P"])

        def f():
            p, t = c["p"], c["t"]
            Q = c["Q"] if m == "exact" else helpers.degree_elevation(p, c["P"], num=t)
            chain = []
            cur = Q
            for s in range(t):
                cur = helpers.degree_reduction(p + t - s, cur)
                cur = [list(pt) for pt in cur]
                chain.append(cur)
            return {"elev": [list(q) for q in Q], "chain": chain}
        return call(f)

    def coq(self, c, out):
        m = c["mode"]
        if m in ("arbitrary", "malformed"):
            return cmp_red(c["q"], c["P"], out)
        if "ok" not in out:
            return None      # the oracle reports it
        p, t = c["p"], c["t"]
        o = out["ok"]
        parts = []
        cur = o["elev"]
        for s in range(t):
            parts.append(cmp_red(p + t - s, cur, {"ok": o["chain"][s]}))
            cur = o["chain"][s]
        return conj(parts)

    def coq_show(self, c, out):
        if c["mode"] in ("arbitrary", "malformed"):
            return "(degree_reduction_pts Qops %s %s)" % (G.n(c["q"]), G.qll(c["P"]))
        return "(degree_reduction_pts Qops %s %s)" % (G.n(c["p"] + c["t"]), G.qll(out["ok"]["elev"]))

    def oracle(self, c, out):
        m = c["mode"]
        if m == "malformed":
            return None if "rej" in out else "reduce-reject: %s not rejected: %s" % (c["mal"], str(out)[:100])
        if "ok" not in out:
            return "reduce: failed on a valid Bezier polygon: %s" % (out,)
        if m == "arbitrary":
            R, P, q = out["ok"], c["P"], c["q"]
            if len(R) != q:
                return "reduce-shape: %d points for degree %d" % (len(R), q)
            if not gc.closel(list(R[0]), P[0], 1e-12) or not gc.closel(list(R[-1]), P[-1], 1e-12):
                return "reduce-endpoints: end points changed"
            return None
        p, t, P = c["p"], c["t"], gc.fr(c["P"])
        o = out["ok"]
        for s in range(t):
            if len(o["chain"][s]) != p + t - s:
                return "reduce-shape: step %d returned %d points" % (s, len(o["chain"][s]))
        # every intermediate polygon is the exact elevation of P by the remaining count
        for s in range(t):
            left = t - s - 1
            E = exact_elevation(P, left) if left > 0 else P
            R = o["chain"][s]
            for i in range(len(R)):
                if not gc.closel(R[i], E[i], 1e-8):
                    return "reduce-inverse: reducing degree %d -> %d of an elevated polygon: point %d = %s, expected %s" % (
                        p + t - s, p + t - s - 1, i, R[i], [float(x) for x in E[i]])
        return None

    def nontrivial(self, c, out):
        return "ok" in out and c["mode"] != "malformed"

    def stratum(self, c, out):
        if c["mode"] in ("arbitrary", "malformed"):
            return "%s/q%d/%s" % (c["mode"], c["q"], c["kind"])
        return "%s/p%d/t%d/%s" % (c["mode"], c["p"], c["t"], c["kind"])


XS = [0.0, 0.3125, 0.7, 1.0]


class DegreeOps(Family):
    """operations.degree_operations on Bezier curves (glue: weighted control points, knot vector padding)"""
    name = "degree_ops"
    imports = ("Model.Degree",)
    count = {"quick": 90, "thorough": 700}
    has_oracle = True

    def gen(self, rng, n):
        out = []
        for i in range(n):
            rational = rng.random() < 0.5
            if rng.random() < 0.6:
                p = rng.randint(1, 8)
                t = rng.randint(1, 4)
                P, _ = gen_polygon(rng, p, "homogeneous" if rational else "cartesian")
                if not rational and len(P[0]) < 2:
                    P = [pt + [1.0] for pt in P]
                out.append({"op": "elevate", "p": p, "t": t, "P": P, "rational": rational})
                if i % 4 == 1:
                    out[-1]["range"] = rng.choice([[2.0, 5.0], [-1.0, 1.0], [0.5, 4.5], [-3.0, -1.0]])
            else:
                p = rng.randint(1, 8)
                dim = rng.randint(2, 3)
                P0 = [[(p + 1) * rng.randint(-40, 40) / 8.0 for _ in range(dim)] for _ in range(p + 1)]
                if rational:
                    P0 = [pt + [(p + 1) * rng.randint(1, 16) / 8.0] for pt in P0]
                E = exact_elevation(gc.fr(P0), 1)
                out.append({"op": "reduce", "p": p + 1, "t": -1, "P": [[float(x) for x in pt] for pt in E], "orig": P0, "rational": rational})
                if i % 4 == 2:
                    out[-1]["range"] = rng.choice([[2.0, 5.0], [-1.0, 1.0], [0.5, 4.5], [-3.0, -1.0]])
        return out

    def impl(self, c):
        def f():
            p = c["p"]
            lo, hi = c.get("range") or (0.0, 1.0)
            kw = {"normalize_kv": False} if c.get("range") else {}
            crv = NURBS.Curve(**kw) if c["rational"] else BSpline.Curve(**kw)
            crv.degree = p
            if c["rational"]:
                crv.ctrlptsw = [list(pt) for pt in c["P"]]
            else:
                crv.ctrlpts = [list(pt) for pt in c["P"]]
            crv.knotvector = [lo] * (p + 1) + [hi] * (p + 1)
            operations.degree_operations(crv, [c["t"]])
            pts = crv.ctrlptsw if c["rational"] else crv.ctrlpts
            # "kv" is reported on [0, 1] (the model's and the oracle's frame); "range" = the ends the object reports
            kvr = [float(k) for k in crv.knotvector]
            return {"degree": crv.degree, "P": [list(pt) for pt in pts], "kv": [(k - lo) / (hi - lo) for k in kvr], "range": [kvr[0], kvr[-1]],
                    "evals": [list(crv.evaluate_single(lo + (hi - lo) * x)) for x in XS]}
        return call(f)

    def coq(self, c, out):
        if "ok" not in out:
            return None
        o = out["ok"]
        p = c["p"]
        kv = [0.0] * (p + 1) + [1.0] * (p + 1)
        if c["op"] == "elevate":
            return conj([cmp_elev(p, c["P"], c["t"], {"ok": o["P"]}),
                         "closeL (elevate_kv Qops %s %s) %s" % (G.ql(kv), G.n(c["t"]), G.sl(o["kv"]))])
        return conj([cmp_red(p, c["P"], {"ok": o["P"]}), "closeL (reduce_kv %s) %s" % (G.ql(kv), G.sl(o["kv"]))])

    def oracle(self, c, out):
        if "ok" not in out:
            return "degree_operations: failed on a Bezier curve: %s" % (out,)
        o = out["ok"]
        p, t = c["p"], c["t"]
        nd = p + t
        if o["degree"] != nd:
            return "degree_operations-degree: degree %d after param %d on degree %d" % (o["degree"], t, p)
        if o["kv"] != [0.0] * (nd + 1) + [1.0] * (nd + 1):
            return "degree_operations-kv: %s" % o["kv"]
        if c.get("range") and o.get("range") != list(c["range"]):
            return "degree_operations-domain: a curve on the knot range %s (normalize_kv=False) has the range %s afterwards" % (c["range"], o.get("range"))
        E = exact_elevation(gc.fr(c["P"]), t) if t > 0 else gc.fr(c["orig"])
        if len(o["P"]) != nd + 1:
            return "degree_operations-shape: %d control points" % len(o["P"])
        for i in range(nd + 1):
            if not gc.closel(o["P"][i], E[i], 1e-8):
                return "degree_operations-curve: control point %d = %s expected %s" % (i, o["P"][i], [float(x) for x in E[i]])
        # the object itself (B-spline / NURBS evaluator on the new Bezier knot vector) still evaluates to the original curve
        P0 = gc.fr(c["P"]) if t > 0 else E
        for x, got in zip(XS, o.get("evals", [])):
            pt = bezier_eval(P0, F(x))
            if c["rational"]:
                pt = [v / pt[-1] for v in pt[:-1]]
            if not gc.closel(got, pt, 1e-8):
                return "degree_operations-shape: curve point at %r is %s after the operation, the original curve has %s" % (x, got, [float(v) for v in pt])
        return None

    def stratum(self, c, out):
        return "%s/p%d/%s" % (c["op"], c["p"], "nurbs" if c["rational"] else "bspline")


def families():
    return [Elevate(), Reduce(), DegreeOps()]
