"""C20 - planar predicates and spatial queries agree with exact arithmetic.

Families: rays (ray.Ray / ray.intersect, 2-D and 3-D lattice pairs), planar (linalg.is_left / wn_poly on simple
integer-grid polygons), hull (linalg.convex_hull), voxel (_voxelize.generate_voxel_grid / find_inouts_st / find_inouts_mp
and voxelize.voxelize with 1..4 processes), findctrl (operations.find_ctrlpts on curves and surfaces)."""
import sys
from fractions import Fraction as F
from core import Family, call
import gal as G
import gencommon as gc
from geomdl import ray, linalg, voxelize, _voxelize, operations, helpers, BSpline, NURBS

RAY_TOL = (1 << 8) * sys.float_info.epsilon       # default of ray.intersect
VOX_TOL = 10e-8                                     # default padding of _voxelize
TOL5 = 10e-6
FUEL = 400

RULE = ("rays: ordered pairs of rays through points of a small integer lattice (scaled/shifted by dyadic factors), strata crossing / "
        "parallel / coincident / skew / degenerate, 2-D and 3-D, plus malformed dimensions; planar: simple polygons (star-shaped around "
        "a random centre and rectilinear histogram polygons, both orientations, closed) on an integer grid with all grid query points "
        "off the boundary; hull: point sets of 1..12 grid points incl. duplicates and colinear runs; voxel: grid sizes 2..8 per axis, "
        "cuboid and cube voxels, integer point clouds and real surfaces/volumes, 1 and 2..4 processes; findctrl: B-spline/NURBS curves "
        "and surfaces of degree 1..5 with structured knot vectors and parameter classes; non-trivial = implementation returned a value "
        "and the stratum is not degenerate; distinct by case hash")
ASSUMPTIONS = ["inputs lie on integer/dyadic grids so that the float predicates are evaluated without rounding (the property's own domain: points off the boundary)",
               "sqrt is modelled: |a-b| < tol as |a-b|^2 < tol^2, vector_magnitude(c)**2 as c.c",
               "multiprocessing.Pool.map is modelled as an order-preserving map",
               "voxel bounding boxes have extents that are dyadic multiples of (size-1), so that frange's float accumulation is exact"]
THEOREM_NOTES = ("coq/Props/C20.v (all over R, Rops instance of the executable model): C20_is_left_twice_signed_area, C20_is_left_antisymmetric [G, ring]; "
                 "C20_intersect_2d_params_correct [G, field], C20_intersect_3d_meeting_rays [G, nsatz+field], C20_intersect_status_meaning [G, by definition], "
                 "C20_parallel_rays_colinear [G]; C20_wn_rectangle_partial [B: axis-parallel rectangles, both orientations; general simple polygons = "
                 "Definition C20_wn_simple_polygon_full, not proved]; C20_hull_subset, C20_hull_strict_left_turns [G]; C20_hull_contains_all_points_full "
                 "(Definition, not proved); C20_voxel_filled_iff_some_point_inside, C20_find_inouts_pointwise, C20_voxel_grid_covers_bbox [G]; "
                 "C20_find_ctrlpts_window, C20_find_ctrlpts_surface_window [G, by definition], C20_find_ctrlpts_is_active_window [G, uses C03 span search + Cox-de Boor support]")
LEVEL_TEXT = ("Coq theorems over the reals about the executable Gallina model (coq/Model/Geom2D.v, Voxel.v): [G] is_left = twice the signed area, antisymmetry; "
              "[G] ray.intersect: in 2-D, whenever the direction cross product is not below the tolerance, the status is INTERSECT and the returned parameters "
              "are the unique solution with eval r1 t1 = eval r2 t2; in 3-D, if the lines meet the returned parameters are exactly the meeting parameters "
              "and the status is INTERSECT; status COLINEAR iff all cross-product components are below the tolerance, INTERSECT/SKEW iff the evaluated "
              "points are closer than / at least the tolerance; proportional directions give COLINEAR; [G] convex_hull returns a subset of the input and "
              "both half hulls turn strictly left at every vertex, and EVERY INPUT POINT LIES ON OR LEFT OF EVERY DIRECTED HULL EDGE (round 2, Proofs/HullContains.v, "
              "monotone-chain stack invariant; points need the two coordinates the code reads); [G] a voxel is marked 1 iff some point lies in its padded half-open box, flags are "
              "computed voxel by voxel (multi-process = single-process function), the generated grid covers the bounding box; [G] find_ctrlpts returns the "
              "p+1 points starting at span-p and every control point with a non-zero Cox-de Boor basis function at the parameter is among them. "
              "the winding test on every strictly convex polygon (either orientation) and every triangle: for points off the boundary wn_poly is true "
              "exactly for the interior points, the count being +1/-1/0 (round 2, Proofs/WindingConvex.v; axis-parallel rectangles additionally with the "
              "half-open boundary rule). 3-D non-parallel rays (round 2, Proofs/RaySkew.v): the returned parameters are the feet of the common perpendicular "
              "(unique, distance-minimising), status SKEW iff the line distance |triple product|/|d1 x d2| is >= tol, INTERSECT iff it is < tol, and in "
              "exact terms the lines meet iff the triple product vanishes (with the literal tol = 0 the code always answers SKEW: refuted/recorded). "
              "BOUNDED/PARTIAL: non-convex simple "
              "polygons are checked by the exact Fraction oracles on "
              "every run, not proved.")
LEVEL_NOTE = ("Trusted: Coq 8.16.1 kernel incl. vm_compute; standard-library real-number axioms as printed by Print Assumptions; the model is tied "
              "to /repo by the sampled correspondence check; float predicates are compared on integer/dyadic inputs where they are exact (the property's own "
              "domain: points off the boundary); sqrt (distance < tol as squared distance) and multiprocessing.Pool.map (order-preserving map) are modelled, "
              "not verified.")
# functions of the numerical core this property rests on that are also tied by the translator (tie theorems: Proofs/GenTie*.v, restated in Props/)
TRANSLATED = ["linalg.is_left", "linalg.wn_poly", "linalg.convex_hull", "_voxelize.is_point_inside_voxel", "_voxelize.find_inouts_st", "_operations.find_ctrlpts_curve", "_operations.find_ctrlpts_surface", "_voxelize.generate_voxel_grid", "linalg.vector_generate"]
TECHNIQUE = "machine-checked proof in Coq (ring/field/nsatz/lra over R) on a Gallina model + vm_compute correspondence with geomdl + exact Fraction oracles"


def fr(x):
    return [F(v) for v in x]


def cross3(a, b):
    return [a[1] * b[2] - a[2] * b[1], a[2] * b[0] - a[0] * b[2], a[0] * b[1] - a[1] * b[0]]


def dot(a, b):
    return sum(x * y for x, y in zip(a, b))


def sub(a, b):
    return [x - y for x, y in zip(a, b)]


# ------------------------------------------------------------------------------------------------ rays
class Rays(Family):
    name = "rays"
    imports = ("Model.Geom2D", "Run.GeomH")
    count = {"quick": 520, "thorough": 6000}
    has_oracle = True

    def gen(self, rng, n):
        out = []
        for i in range(n):
            r = rng.random()
            dim = 2 if i % 2 == 0 else 3
            L = rng.choice([2, 2, 3])           # lattice 0..L
            sc = rng.choice([1.0, 1.0, 0.5, 2.0, 0.25, 3.0])
            sh = [rng.choice([0.0, 0.0, -1.0, 2.5, -0.75]) for _ in range(dim)]

            def pt():
                return [rng.randint(0, L) for _ in range(dim)]
            p1, p2, q1, q2 = pt(), pt(), pt(), pt()
            kind = "random"
            if r < 0.12:     # parallel (distinct lines, mostly)
                kind = "parallel"
                d = sub(p2, p1)
                q2 = [a + b for a, b in zip(q1, d)]
                if rng.random() < 0.5:
                    q2 = [a - b for a, b in zip(q1, d)]
            elif r < 0.22:   # coincident lines
                kind = "coincident"
                d = sub(p2, p1)
                k1, k2 = rng.randint(-1, 2), rng.randint(-1, 2)
                if k1 == k2:
                    k2 += 1
                q1 = [a + k1 * b for a, b in zip(p1, d)]
                q2 = [a + k2 * b for a, b in zip(p1, d)]
            elif r < 0.34 and dim == 3:   # crossing in space: both through a common lattice point
                kind = "crossing3d"
                c = pt()
                p1 = pt()
                q1 = pt()
                k1, k2 = rng.choice([1, 2, -1]), rng.choice([1, 2, -1, 3])
                p2 = [a + k1 * (b - a) for a, b in zip(p1, c)]
                q2 = [a + k2 * (b - a) for a, b in zip(q1, c)]
            elif r < 0.40:
                kind = "degenerate"       # zero-length ray
                p2 = list(p1)
            elif r < 0.46:
                kind = "malformed"
                m = rng.choice(["dims", "dim4", "len"])
                if m == "dims":
                    q1, q2 = q1 + [1], q2 + [2]
                elif m == "dim4":
                    p1, p2, q1, q2 = [p + [rng.randint(0, 2)] * (4 - dim) for p in (p1, p2, q1, q2)]
                else:
                    p2 = p2 + [1]
                kind = "malformed-" + m
            tr = lambda p: [sc * c + (sh[k] if k < dim else 0.0) for k, c in enumerate(p)]
            out.append({"p1": tr(p1), "p2": tr(p2), "q1": tr(q1), "q2": tr(q2), "kind": kind, "dim": dim})
        return out

    def impl(self, c):
        def f():
            r1 = ray.Ray(c["p1"], c["p2"])
            r2 = ray.Ray(c["q1"], c["q2"])
            t1, t2, st = ray.intersect(r1, r2)
            return {"t1": t1, "t2": t2, "st": st, "e1": list(r1.eval(t1)), "e2": list(r2.eval(t2)),
                    "d1": list(r1.d), "pts": [list(x) for x in r1.points]}
        return call(f)

    def _term(self, c):
        return ("(res_bind (mk_ray %s %s) (fun r1 => res_bind (mk_ray %s %s) (fun r2 => intersect Qops %s r1 r2)))"
                % (G.ql(c["p1"]), G.ql(c["p2"]), G.ql(c["q1"]), G.ql(c["q2"]), G.Q(RAY_TOL)))

    def coq(self, c, out):
        if "ok" in out:
            o = out["ok"]
            impl = "(Ok (%s, %s, %s))" % (G.z(G.scaled(o["t1"])), G.z(G.scaled(o["t2"])), G.n(o["st"]))
            ev = ("(andb (closeL (ray_eval Qops (%s, %s) %s) %s) (closeL (ray_d Qops (%s, %s)) %s))"
                  % (G.ql(c["p1"]), G.ql(c["p2"]), G.Q(o["t1"]), G.sl(o["e1"]), G.ql(c["p1"]), G.ql(c["p2"]), G.sl(o["d1"])))
            return "(andb (isect_cmp %s %s) %s)" % (self._term(c), impl, ev)
        impl = "Rejected" if "rej" in out else "Crash"
        return "(isect_cmp %s %s)" % (self._term(c), impl)

    def coq_show(self, c, out):
        return self._term(c)

    def oracle(self, c, out):
        if c["kind"].startswith("malformed"):
            return None if "ok" not in out else "rays-malformed: inconsistent dimensions accepted: %s" % (out,)
        if "ok" not in out:
            return "rays: intersect failed on valid rays: %s" % (out,)
        o = out["ok"]
        dim = c["dim"]
        p1, p2, q1, q2 = fr(c["p1"]), fr(c["p2"]), fr(c["q1"]), fr(c["q2"])
        pad = lambda v: v + [F(0)] * (3 - len(v))
        d1, d2 = pad(sub(p2, p1)), pad(sub(q2, q1))
        w = pad(sub(q1, p1))
        cr = cross3(d1, d2)
        st = o["st"]
        if all(x == 0 for x in cr):
            exp = ray.RayIntersection.COLINEAR
        elif dot(w, cr) == 0:
            exp = ray.RayIntersection.INTERSECT
        else:
            exp = ray.RayIntersection.SKEW
        if st != exp:
            return "rays-status: status %s, exact arithmetic gives %s" % (st, exp)
        if exp == ray.RayIntersection.INTERSECT:
            t1, t2 = F(o["t1"]), F(o["t2"])
            a = [x + t1 * y for x, y in zip(p1, d1)]
            b = [x + t2 * y for x, y in zip(q1, d2)]
            if any(abs(x - y) > F(1, 10 ** 9) for x, y in zip(a, b)):
                return "rays-params: ray1(t1) = %s but ray2(t2) = %s" % ([float(x) for x in a], [float(x) for x in b])
            # the exact parameters (unique solution)
            n2 = dot(cr, cr)
            e1 = dot(cross3(w, d2), cr) / n2
            e2 = dot(cross3(w, d1), cr) / n2
            if not (gc.close(o["t1"], e1) and gc.close(o["t2"], e2)):
                return "rays-params: (t1, t2) = (%r, %r), exact (%s, %s)" % (o["t1"], o["t2"], e1, e2)
            if not (gc.closel(o["e1"], a[:dim]) and gc.closel(o["e2"], b[:dim])):
                return "rays-eval: Ray.eval differs from p + t d"
        return None

    def nontrivial(self, c, out):
        return "ok" in out and c["kind"] != "degenerate"

    def stratum(self, c, out):
        st = out["ok"]["st"] if "ok" in out else ("rej" if "rej" in out else "crash")
        return "%dd/%s/%s" % (c["dim"], c["kind"], st)


# ------------------------------------------------------------------------------------------------ polygons
def seg_intersect(a, b, c, d):
    """closed segments ab and cd share a point (exact)"""
    def orient(p, q, r):
        v = (q[0] - p[0]) * (r[1] - p[1]) - (r[0] - p[0]) * (q[1] - p[1])
        return (v > 0) - (v < 0)

    def on(p, q, r):
        return min(p[0], q[0]) <= r[0] <= max(p[0], q[0]) and min(p[1], q[1]) <= r[1] <= max(p[1], q[1])
    o1, o2, o3, o4 = orient(a, b, c), orient(a, b, d), orient(c, d, a), orient(c, d, b)
    if o1 != o2 and o3 != o4:
        return True
    return (o1 == 0 and on(a, b, c)) or (o2 == 0 and on(a, b, d)) or (o3 == 0 and on(c, d, a)) or (o4 == 0 and on(c, d, b))


def is_simple(poly):
    """poly: open vertex list (no repeated closing vertex); exact test that non-adjacent edges are disjoint and adjacent
    edges only share their common vertex"""
    n = len(poly)
    if n < 3 or len(set(map(tuple, poly))) != n:
        return False
    for i in range(n):
        a, b = poly[i], poly[(i + 1) % n]
        for j in range(i + 1, n):
            c, d = poly[j], poly[(j + 1) % n]
            if j == i + 1 or (i == 0 and j == n - 1):
                # adjacent: must not overlap colinearly
                shared = b if j == i + 1 else a
                other1 = a if j == i + 1 else b
                other2 = d if j == i + 1 else c
                v = (other1[0] - shared[0]) * (other2[1] - shared[1]) - (other2[0] - shared[0]) * (other1[1] - shared[1])
                if v == 0 and (other1[0] - shared[0]) * (other2[0] - shared[0]) + (other1[1] - shared[1]) * (other2[1] - shared[1]) > 0:
                    return False
                continue
            if seg_intersect(a, b, c, d):
                return False
    return True


def on_boundary(poly, p):
    n = len(poly)
    for i in range(n):
        a, b = poly[i], poly[(i + 1) % n]
        v = (b[0] - a[0]) * (p[1] - a[1]) - (p[0] - a[0]) * (b[1] - a[1])
        if v == 0 and min(a[0], b[0]) <= p[0] <= max(a[0], b[0]) and min(a[1], b[1]) <= p[1] <= max(a[1], b[1]):
            return True
    return False


def inside_exact(poly, p):
    """crossing number along the ray p + s*(1009, 1), s > 0: it cannot pass through a vertex of a polygon whose coordinates
    (and p's) are multiples of 1/4 with absolute value < 100, so every crossing is transversal. Independent of the winding rule."""
    d = (F(1009), F(1))
    cnt = 0
    n = len(poly)
    for i in range(n):
        a, b = poly[i], poly[(i + 1) % n]
        e = (b[0] - a[0], b[1] - a[1])
        den = d[0] * e[1] - d[1] * e[0]
        if den == 0:
            continue
        w = (a[0] - p[0], a[1] - p[1])
        s = (w[0] * e[1] - w[1] * e[0]) / den         # along the ray
        t = (w[0] * d[1] - w[1] * d[0]) / den         # along the edge
        if s > 0 and 0 <= t <= 1:
            assert 0 < t < 1, "ray through a vertex"
            cnt += 1
    return cnt % 2 == 1


def gen_polygon(rng):
    kind = rng.choice(["star", "star", "histogram", "rect", "triangle"])
    while True:
        if kind == "star":
            k = rng.randint(3, 9)
            pts = list(set((rng.randint(0, 8), rng.randint(0, 8)) for _ in range(k)))
            if len(pts) < 3:
                continue
            cx_ = F(sum(p[0] for p in pts), len(pts)) + F(1, 7)
            cy_ = F(sum(p[1] for p in pts), len(pts)) + F(1, 11)
            import math
            pts.sort(key=lambda p: math.atan2(float(p[1] - cy_), float(p[0] - cx_)))
            poly = [list(p) for p in pts]
        elif kind == "histogram":
            w = rng.randint(2, 5)
            hs = [rng.randint(1, 5) for _ in range(w)]
            poly = [[0, 0], [w, 0]]
            for i in range(w - 1, -1, -1):
                for q in ([i + 1, hs[i]], [i, hs[i]]):
                    if poly[-1] != q:
                        poly.append(q)
            if poly[-1] == poly[0]:
                poly.pop()
            # drop duplicated consecutive points
        elif kind == "rect":
            x0, y0 = rng.randint(0, 4), rng.randint(0, 4)
            x1, y1 = x0 + rng.randint(1, 5), y0 + rng.randint(1, 5)
            poly = [[x0, y0], [x1, y0], [x1, y1], [x0, y1]]
        else:
            poly = [[rng.randint(0, 8), rng.randint(0, 8)] for _ in range(3)]
        if is_simple(poly):
            break
    if rng.random() < 0.4:
        poly.reverse()
    s = rng.randrange(len(poly))
    poly = poly[s:] + poly[:s]
    sc = rng.choice([1.0, 1.0, 0.5, 2.0, 0.25])
    sh = (rng.choice([0.0, -3.0, 1.5]), rng.choice([0.0, -2.0, 0.25]))
    poly = [[sc * p[0] + sh[0], sc * p[1] + sh[1]] for p in poly]
    return poly, kind, sc, sh


class Planar(Family):
    name = "planar"
    imports = ("Model.Geom2D", "Run.GeomH")
    count = {"quick": 160, "thorough": 2000}
    has_oracle = True

    def gen(self, rng, n):
        out = []
        for _ in range(n):
            poly, kind, sc, sh = gen_polygon(rng)
            fp = [fr(p) for p in poly]
            xs = [p[0] for p in poly]
            ys = [p[1] for p in poly]
            cand = []
            step = sc * rng.choice([1.0, 0.5])
            x = min(xs) - step
            while x <= max(xs) + step:
                y = min(ys) - step
                while y <= max(ys) + step:
                    if not on_boundary(fp, (F(x), F(y))):
                        cand.append([x, y])
                    y += step
                x += step
            rng.shuffle(cand)
            pts = cand[:14]
            # orientation triples for is_left: polygon vertices and query points
            tri = []
            allp = poly + pts
            for _k in range(6):
                tri.append([rng.choice(allp), rng.choice(allp), rng.choice(allp)])
            out.append({"poly": poly + [poly[0]], "pts": pts, "tri": tri, "kind": kind})
        return out

    def impl(self, c):
        return call(lambda: {"wn": [bool(linalg.wn_poly(p, c["poly"])) for p in c["pts"]],
                             "left": [linalg.is_left(*t) for t in c["tri"]]})

    def coq(self, c, out):
        if "ok" not in out:
            return None
        o = out["ok"]
        poly = G.qll(c["poly"])
        e1 = "eqLbool (map (fun p => wn_poly Qops p %s) %s) %s" % (poly, G.qll(c["pts"]), G.bl(o["wn"]))
        lefts = "[" + "; ".join("is_left Qops %s %s %s" % (G.ql(a), G.ql(b), G.ql(p)) for a, b, p in c["tri"]) + "]"
        e2 = "eqLQ %s %s" % (lefts, G.ql(o["left"]))
        return "(andb (%s) (%s))" % (e1, e2)

    def coq_show(self, c, out):
        return "(map (fun p => wn_poly Qops p %s) %s)" % (G.qll(c["poly"]), G.qll(c["pts"]))

    def oracle(self, c, out):
        if "ok" not in out:
            return "planar: raised on a valid polygon: %s" % (out,)
        o = out["ok"]
        poly = [fr(p) for p in c["poly"][:-1]]
        for p, w in zip(c["pts"], o["wn"]):
            e = inside_exact(poly, fr(p))
            if bool(w) != e:
                return "wn_poly: point %s reported %s, exact crossing number says %s" % (p, "inside" if w else "outside", "inside" if e else "outside")
        for (a, b, p), v in zip(c["tri"], o["left"]):
            a, b, p = fr(a), fr(b), fr(p)
            # twice the signed area of the triangle (shoelace formula)
            area2 = a[0] * b[1] - b[0] * a[1] + b[0] * p[1] - p[0] * b[1] + p[0] * a[1] - a[0] * p[1]
            if F(v) != area2:
                return "is_left: %r for %s, twice the signed area is %s" % (v, (c["tri"]), area2)
        return None

    def nontrivial(self, c, out):
        return "ok" in out and any(out["ok"]["wn"]) and not all(out["ok"]["wn"])

    def stratum(self, c, out):
        return "%s/%d" % (c["kind"], len(c["poly"]) - 1)


# ------------------------------------------------------------------------------------------------ convex hull
def in_triangle_or_segment(p, others):
    """p (not counted among others) lies in the convex hull of `others` (exact, Caratheodory in the plane)"""
    def orient(a, b, c):
        return (b[0] - a[0]) * (c[1] - a[1]) - (c[0] - a[0]) * (b[1] - a[1])
    n = len(others)
    if p in others:
        return True
    for i in range(n):
        for j in range(i + 1, n):
            a, b = others[i], others[j]
            if orient(a, b, p) == 0 and min(a[0], b[0]) <= p[0] <= max(a[0], b[0]) and min(a[1], b[1]) <= p[1] <= max(a[1], b[1]):
                return True
            for k in range(j + 1, n):
                c = others[k]
                s = [orient(a, b, p), orient(b, c, p), orient(c, a, p)]
                if orient(a, b, c) != 0 and (all(x >= 0 for x in s) or all(x <= 0 for x in s)):
                    return True
    return False


class Hull(Family):
    name = "hull"
    imports = ("Model.Geom2D", "Run.GeomH")
    count = {"quick": 200, "thorough": 2500}
    has_oracle = True

    def gen(self, rng, n):
        out = []
        for i in range(n):
            k = rng.randint(1, 12)
            L = rng.choice([2, 3, 5, 8])
            kind = rng.choice(["random", "random", "random", "colinear", "dups", "lattice"])
            if kind == "colinear":
                a, b = rng.randint(-2, 2), rng.randint(-2, 2)
                pts = [[t, a * t + b] for t in (rng.randint(0, L) for _ in range(k))]
                if rng.random() < 0.5:
                    pts = [[q[1], q[0]] for q in pts]
            elif kind == "lattice":
                pts = [[x, y] for x in range(min(L, 3) + 1) for y in range(min(L, 3) + 1)]
                rng.shuffle(pts)
                pts = pts[:12]
            else:
                pts = [[rng.randint(0, L), rng.randint(0, L)] for _ in range(k)]
                if kind == "dups" and pts:
                    pts += [list(rng.choice(pts)) for _ in range(min(3, 12 - len(pts)))]
            sc = rng.choice([1.0, 0.5, 2.0])
            pts = [[sc * q[0] - 1.0, sc * q[1] + 0.5] for q in pts]
            out.append({"pts": pts, "kind": kind})
        return out

    def impl(self, c):
        return call(lambda: [list(p) for p in linalg.convex_hull([list(p) for p in c["pts"]])])

    def coq(self, c, out):
        if "ok" not in out:
            return None
        return "(eqLLQ (convex_hull Qops %s) %s)" % (G.qll(c["pts"]), G.qll(out["ok"]))

    def coq_show(self, c, out):
        return "(convex_hull Qops %s)" % G.qll(c["pts"])

    def oracle(self, c, out):
        if "ok" not in out:
            return "hull: raised: %s" % (out,)
        pts = [tuple(fr(p)) for p in c["pts"]]
        H = [tuple(fr(p)) for p in out["ok"]]
        dist = sorted(set(pts))
        for h in H:
            if h not in pts:
                return "hull-subset: %s is not an input point" % (h,)
        if len(set(H)) != len(H):
            return "hull-dup: a hull vertex is repeated: %s" % (out["ok"],)
        ext = [p for p in dist if not in_triangle_or_segment(p, [q for q in dist if q != p])]
        if set(H) != set(ext):
            return "hull-extreme: returned %s, the extreme points are %s" % (sorted(map(lambda p: tuple(map(float, p)), H)), [tuple(map(float, p)) for p in ext])
        if len(H) >= 3:
            m = len(H)
            for i in range(m):
                a, b, d = H[i], H[(i + 1) % m], H[(i + 2) % m]
                if (b[0] - a[0]) * (d[1] - a[1]) - (d[0] - a[0]) * (b[1] - a[1]) <= 0:
                    return "hull-ccw: not a strict left turn at %s" % (tuple(map(float, b)),)
        if H and H[0] != dist[0]:
            return "hull-start: does not start at the lexicographically smallest point"
        return None

    def nontrivial(self, c, out):
        return "ok" in out and len(out["ok"]) >= 3

    def stratum(self, c, out):
        return "%s/%s" % (c["kind"], len(out["ok"]) if "ok" in out else "err")


# ------------------------------------------------------------------------------------------------ voxels
def box_surface(rng, lo, hi, kind):
    """a surface or volume (degree 1..3) whose evaluated points have exactly the bounding box [lo, hi]:
    corner control points at box corners, the others strictly inside"""
    def inner(a, b):
        return a + (b - a) * rng.choice([0.25, 0.5, 0.75, 0.375])
    if kind == "surface":
        pu, pv = rng.randint(1, 3), rng.randint(1, 3)
        nu, nv = pu + 1 + rng.randint(0, 2), pv + 1 + rng.randint(0, 2)
        s = BSpline.Surface()
        s.degree_u, s.degree_v = pu, pv
        P = []
        for i in range(nu):
            for j in range(nv):
                fu, fv = i / float(nu - 1), j / float(nv - 1)
                if i in (0, nu - 1) and j in (0, nv - 1):
                    pt = [lo[0] if i == 0 else hi[0], lo[1] if j == 0 else hi[1], lo[2] if (i == 0) == (j == 0) else hi[2]]
                else:
                    pt = [inner(lo[0], hi[0]) if lo[0] != hi[0] else lo[0], inner(lo[1], hi[1]) if lo[1] != hi[1] else lo[1],
                          inner(lo[2], hi[2]) if lo[2] != hi[2] else lo[2]]
                P.append(pt)
        s.set_ctrlpts(P, nu, nv)
        from geomdl import knotvector
        s.knotvector_u = knotvector.generate(pu, nu)
        s.knotvector_v = knotvector.generate(pv, nv)
        s.sample_size_u = rng.randint(2, 5)
        s.sample_size_v = rng.randint(2, 4)
        return s
    pu, pv, pw = 1, rng.randint(1, 2), 1
    nu, nv, nw = 2, pv + 1, 2
    v = BSpline.Volume()
    v.degree_u, v.degree_v, v.degree_w = pu, pv, pw
    P = []
    for k in range(nw):
        for i in range(nu):
            for j in range(nv):
                if j in (0, nv - 1):
                    pt = [lo[0] if i == 0 else hi[0], lo[1] if j == 0 else hi[1], lo[2] if k == 0 else hi[2]]
                else:
                    pt = [inner(lo[0], hi[0]), inner(lo[1], hi[1]), inner(lo[2], hi[2])]
                P.append(pt)
    v.set_ctrlpts(P, nu, nv, nw)
    from geomdl import knotvector
    v.knotvector_u = knotvector.generate(pu, nu)
    v.knotvector_v = knotvector.generate(pv, nv)
    v.knotvector_w = knotvector.generate(pw, nw)
    v.sample_size_u = rng.randint(2, 3)
    v.sample_size_v = rng.randint(2, 3)
    v.sample_size_w = rng.randint(2, 3)
    return v


def _tol(c):
    return VOX_TOL if c.get("tol") is None else c["tol"]


class Voxel(Family):
    name = "voxel"
    imports = ("Model.Geom2D", "Model.Voxel", "Run.GeomH")
    count = {"quick": 50, "thorough": 500}
    has_oracle = True
    timeout = 60

    def gen(self, rng, n):
        out = []
        for i in range(n):
            cap = 512 if (n >= 300 and i % 10 == 0) else 140      # Coq parses ~60 numbers per voxel: keep most grids small
            while True:
                sz = [rng.randint(2, 8) for _ in range(3)]
                if sz[0] * sz[1] * sz[2] <= cap:
                    break
            step = [rng.choice([1.0, 0.5, 2.0, 0.25, 3.0]) for _ in range(3)]
            lo = [rng.choice([0.0, -1.0, 2.0, -2.5]) for _ in range(3)]
            hi = [lo[k] + step[k] * (sz[k] - 1) for k in range(3)]
            cubes = rng.random() < 0.25
            if cubes:     # cube voxels: the finest step is used on every axis; keep the number of voxels small
                sz = [rng.randint(2, 3) for _ in range(3)]
                step = [rng.choice([1.0, 0.5, 2.0]) for _ in range(3)]
                hi = [lo[k] + step[k] * (sz[k] - 1) for k in range(3)]
            r = rng.random()
            procs = 1 if i % 5 else rng.randint(2, 4)
            # padding: the default 10e-8 (a 53-bit mantissa: slow exact arithmetic in Coq) or a short dyadic value
            tol = None if rng.random() < 0.3 else rng.choice([2.0 ** -16, 2.0 ** -8, 0.125])
            if procs > 1:
                tol = rng.choice([2.0 ** -8, 0.125])     # the multi-process variant must honour a non-default padding
            if r < 0.55:
                # integer point cloud: voxel corners, centres, faces, a few points outside the box
                npts = rng.randint(0, 10)
                pts = []
                for _ in range(npts):
                    q = []
                    for k in range(3):
                        t = rng.choice([0, 1, 2, 2, 3, 4])     # quarter steps
                        idx = rng.randint(-1, sz[k])
                        x = lo[k] + step[k] * (idx + t / 4.0)
                        if tol is not None and rng.random() < (0.6 if procs > 1 else 0.35):
                            # on / inside the padding band of a voxel face: exactly at face -+ tol (lower one included,
                            # upper one excluded) or half way into the band
                            x = lo[k] + step[k] * idx + rng.choice([-tol, tol, -tol / 2, tol / 2])
                        q.append(x)
                    pts.append(q)
                op = "lowlevel"
                c = {"op": op, "bbox": [lo, hi], "sz": sz, "cubes": cubes, "pts": pts, "procs": procs, "tol": tol}
                if rng.random() < 0.08:
                    c["sz"] = [rng.choice([1, 0, 2]), sz[1], rng.choice([1, 3])]
                    c["mal"] = True
                out.append(c)
            else:
                flat = rng.random() < 0.2 and not cubes
                if flat:
                    hi = [hi[0], hi[1], lo[2]]
                kind = "surface" if (flat or rng.random() < 0.7) else "volume"
                while sz[0] * sz[1] * sz[2] > 64:
                    k = sz.index(max(sz))
                    sz[k] = rng.randint(2, sz[k] - 1)
                hi = [lo[k] + step[k] * (sz[k] - 1) for k in range(3)]
                if flat:
                    hi = [hi[0], hi[1], lo[2]]
                out.append({"op": "voxelize", "kind": kind, "lo": lo, "hi": hi, "sz": sz, "cubes": cubes, "procs": procs,
                            "seed": rng.randrange(10 ** 9), "flat": flat, "tol": tol})
        return out

    def _obj(self, c):
        import random
        return box_surface(random.Random(c["seed"]), c["lo"], c["hi"], c["kind"])

    def impl(self, c):
        if c["op"] == "lowlevel":
            def f():
                grid = _voxelize.generate_voxel_grid(c["bbox"], c["sz"], use_cubes=c["cubes"])
                kw = {} if c["tol"] is None else {"tol": c["tol"]}
                if c["procs"] > 1:
                    filled = _voxelize.find_inouts_mp(grid, c["pts"], num_procs=c["procs"], **kw)
                else:
                    filled = _voxelize.find_inouts_st(grid, c["pts"], **kw)
                return {"grid": grid, "filled": [int(x) for x in filled]}
            return call(f)

        def g():
            o = self._obj(c)
            kw = {} if c["tol"] is None else {"tol": c["tol"]}
            grid, filled = voxelize.voxelize(o, grid_size=tuple(c["sz"]), use_cubes=c["cubes"], num_procs=c["procs"], **kw)
            return {"grid": grid, "filled": [int(x) for x in filled], "bbox": [list(b) for b in o.bbox], "pts": [list(p) for p in o.evalpts]}
        return call(g)

    def coq(self, c, out):
        VOX_TOL = _tol(c)
        if c["op"] == "lowlevel":
            m = ("(res_map (fun g => (g, if Nat.ltb 1 %d then find_inouts_mp Qops %d %s g %s else find_inouts_st Qops %s g %s)) "
                 "(generate_voxel_grid Qops %d %s %s %s))") % (
                c["procs"], c["procs"], G.Q(VOX_TOL), G.qll(c["pts"]), G.Q(VOX_TOL), G.qll(c["pts"]),
                FUEL, G.qll(c["bbox"]), G.nl(c["sz"]), G.b(c["cubes"]))
        else:
            if "ok" not in out:
                return None
            o = out["ok"]
            m = "(voxelize Qops %d %s %s %s %d [(%s, %s)])" % (FUEL, G.Q(VOX_TOL), G.nl(c["sz"]), G.b(c["cubes"]), c["procs"],
                                                              G.qll(o["bbox"]), G.qll(o["pts"]))
        impl = G.res(out, lambda o: "(%s, %s)" % (G.slll(o["grid"]), G.nl(o["filled"])))
        return "(res_cmp (fun a b => andb (closeLLL (fst a) (fst b)) (eqLnat (snd a) (snd b))) %s %s)" % (m, impl)

    def oracle(self, c, out):
        if c.get("mal"):
            bad = any(s <= 1 for s in c["sz"])
            if bad:
                return None if "rej" in out else "voxel-size: grid size <= 1 not rejected: %s" % (str(out)[:100],)
        if "ok" not in out:
            return "voxel: raised on a valid input: %s" % (out,)
        o = out["ok"]
        grid, filled = o["grid"], o["filled"]
        pts = c["pts"] if c["op"] == "lowlevel" else o["pts"]
        if len(grid) != len(filled):
            return "voxel-length: %d voxels but %d flags" % (len(grid), len(filled))
        tol = F(_tol(c))
        fp = [fr(p) for p in pts]
        covered = [False] * len(fp)
        for idx, (bb, fl) in enumerate(zip(grid, filled)):
            lo, hi = fr(bb[0]), fr(bb[1])
            some = False
            for k, p in enumerate(fp):
                if all(lo[a] - tol <= p[a] < hi[a] + tol for a in range(3)):
                    some = True
                    covered[k] = True
            if bool(fl) != some:
                return "voxel-filled: voxel %d %s is marked %s but %s sampled point lies inside it" % (idx, bb, fl, "a" if some else "no")
        if c["op"] == "voxelize":
            if not all(covered):
                return "voxel-cover: a sampled point of the shape lies in no voxel of the grid"
            bb = o["bbox"]
            for a in range(3):
                if min(v[0][a] for v in grid) > bb[0][a] or max(v[1][a] for v in grid) < bb[1][a]:
                    return "voxel-cover: the grid does not cover the bounding box on axis %d" % a
        if not c["cubes"] and len(grid) != c["sz"][0] * c["sz"][1] * c["sz"][2]:
            if not (c["op"] == "voxelize" and c.get("flat")):
                return "voxel-count: %d voxels for grid size %s" % (len(grid), c["sz"])
        return None

    def nontrivial(self, c, out):
        return "ok" in out and 0 < sum(out["ok"]["filled"]) < len(out["ok"]["filled"])

    def stratum(self, c, out):
        return "%s/procs%d/%s" % (c["op"], c["procs"], "cubes" if c["cubes"] else "cuboid")


# ------------------------------------------------------------------------------------------------ find_ctrlpts
class FindCtrl(Family):
    name = "findctrl"
    imports = ("Model.Basis", "Model.Geom2D", "Model.Voxel", "Run.GeomH")
    count = {"quick": 200, "thorough": 2500}
    has_oracle = True

    def gen(self, rng, n):
        out = []
        for i in range(n):
            surf = i % 2 == 1
            rat = rng.random() < 0.3
            fn = "bin" if rng.random() < 0.3 else "lin"
            if not surf:
                p = rng.randint(1, 5)
                U, kind = gc.knotvector(rng, p, kind=rng.choice(["uniform", "mult", "mult"]))
                npt = len(U) - p - 1
                u, cls = gc.param(rng, U, p)
                P = [[float(k), rng.randint(-8, 8) / 2.0] for k in range(npt)]
                W = gc.weights(rng, npt) if rat else None
                out.append({"surf": False, "p": p, "U": U, "P": P, "W": W, "u": u, "fn": fn, "kind": kind, "cls": cls})
            else:
                pu, pv = rng.randint(1, 4), rng.randint(1, 4)
                Uu, k1 = gc.knotvector(rng, pu, kind=rng.choice(["uniform", "mult"]), nint=rng.randint(0, 3))
                Uv, k2 = gc.knotvector(rng, pv, kind=rng.choice(["uniform", "mult"]), nint=rng.randint(0, 3))
                nu, nv = len(Uu) - pu - 1, len(Uv) - pv - 1
                u, c1 = gc.param(rng, Uu, pu)
                v, c2 = gc.param(rng, Uv, pv)
                P = [[float(a), float(b), rng.randint(-8, 8) / 2.0] for a in range(nu) for b in range(nv)]
                W = gc.weights(rng, nu * nv) if rat else None
                out.append({"surf": True, "pu": pu, "pv": pv, "Uu": Uu, "Uv": Uv, "nu": nu, "nv": nv, "P": P, "W": W,
                            "u": u, "v": v, "fn": fn, "kind": k1 + "-" + k2, "cls": c1 + "-" + c2})
        return out

    def _obj(self, c):
        if not c["surf"]:
            o = NURBS.Curve() if c["W"] else BSpline.Curve()
            o.degree = c["p"]
            o.ctrlpts = c["P"]
            if c["W"]:
                o.weights = c["W"]
            o.knotvector = c["U"]
            return o
        o = NURBS.Surface() if c["W"] else BSpline.Surface()
        o.degree_u, o.degree_v = c["pu"], c["pv"]
        if c["W"]:
            o.ctrlpts_size_u, o.ctrlpts_size_v = c["nu"], c["nv"]
            o.ctrlpts = c["P"]
            o.weights = c["W"]
        else:
            o.set_ctrlpts(c["P"], c["nu"], c["nv"])
        o.knotvector_u, o.knotvector_v = c["Uu"], c["Uv"]
        return o

    def impl(self, c):
        def f():
            o = self._obj(c)
            kw = {"find_span_func": helpers.find_span_binsearch} if c["fn"] == "bin" else {}
            if c["surf"]:
                r = operations.find_ctrlpts(o, c["u"], c["v"], **kw)
                # surfaces expose their net through ctrlpts2d (weighted 4-D points for NURBS): identity is judged against it
                return {"r": [[list(p) for p in row] for row in r], "P": [list(p) for row in o.ctrlpts2d for p in row]}
            r = operations.find_ctrlpts(o, c["u"], **kw)
            return {"r": [list(p) for p in r], "P": [list(p) for p in o.ctrlpts]}
        return call(f)

    def coq(self, c, out):
        if "ok" not in out:
            return None
        o = out["ok"]
        if c["fn"] == "bin":
            return None     # the binary span search is tied by C03; here only the default (linear) lookup is modelled
        if c["surf"]:
            return "(eqLLLQ (find_ctrlpts_surface Qops %s %s %s %s %s %s %s %s %s) %s)" % (
                G.n(c["pu"]), G.n(c["pv"]), G.ql(c["Uu"]), G.ql(c["Uv"]), G.n(c["nu"]), G.n(c["nv"]), G.qll(o["P"]),
                G.Q(c["u"]), G.Q(c["v"]), G.qlll(o["r"]))
        return "(eqLLQ (find_ctrlpts_curve Qops %s %s %s %s) %s)" % (G.n(c["p"]), G.ql(c["U"]), G.qll(o["P"]), G.Q(c["u"]), G.qll(o["r"]))

    def oracle(self, c, out):
        if "ok" not in out:
            return "find_ctrlpts: raised on a valid shape: %s" % (out,)
        o = out["ok"]
        P = o["P"]

        def active(p, U, npt, u):
            U, u = gc.fr(U), F(u)
            k = gc.exact_span(U, p, npt, u)
            nz = [i for i in range(npt) if (gc.cdb(U, p, i, u) != 0 if u < U[npt] else (gc.basis_closed(U, p, k, u)[i - (k - p)] != 0 if k - p <= i <= k else False))]
            return k, nz
        if not c["surf"]:
            k, nz = active(c["p"], c["U"], len(P), c["u"])
            exp = [P[i] for i in range(k - c["p"], k + 1)]
            if o["r"] != exp:
                return "find_ctrlpts-curve: returned %s, the points of the active window (span %d) are %s" % (o["r"], k, exp)
            if not all(k - c["p"] <= i <= k for i in nz):
                return "find_ctrlpts-curve: a basis function outside the window is non-zero"
            return None
        ku, nzu = active(c["pu"], c["Uu"], c["nu"], c["u"])
        kv, nzv = active(c["pv"], c["Uv"], c["nv"], c["v"])
        exp = [[P[b + c["nv"] * a] for b in range(kv - c["pv"], kv + 1)] for a in range(ku - c["pu"], ku + 1)]
        if o["r"] != exp:
            return "find_ctrlpts-surface: returned %s..., the active window is spans (%d, %d)" % (str(o["r"])[:80], ku, kv)
        got = set(tuple(p) for row in o["r"] for p in row)
        for a in nzu:
            for b in nzv:
                if tuple(P[b + c["nv"] * a]) not in got:
                    return "find_ctrlpts-surface: control point (%d,%d) has a non-zero basis function but is not returned" % (a, b)
        return None

    def nontrivial(self, c, out):
        if "ok" not in out:
            return False
        return (len(c["Uu"]) > 2 * (c["pu"] + 1)) if c["surf"] else (len(c["U"]) > 2 * (c["p"] + 1))

    def stratum(self, c, out):
        return "%s/%s/%s/%s" % ("surf" if c["surf"] else "curve", "rat" if c["W"] else "nonrat", c["fn"], c["cls"])


def families():
    return [Rays(), Planar(), Hull(), Voxel(), FindCtrl()]
