"""C14 - export followed by import reproduces the geometry (JSON, smesh, vmesh, txt, csv)."""
import os, re, json, shutil, copy
from fractions import Fraction as F
from core import Family, call, VERIF
import gal as G
import gencommon as gc
from geomdl import BSpline, NURBS, multi, freeform, exchange
from geomdl.exceptions import GeomdlException

RULE = ("structured generator: curves (2-D/3-D), surfaces and volumes with pairwise different sizes per direction, degrees 1..3, "
        "rational (weights 1/8..4, not only powers of two) or not, clamped knot vectors with repeated interior knots, "
        "per-direction sampling deltas, containers of 1..4 shapes, surfaces with spline / rational spline / freeform / container "
        "trims and sense flags; every case writes real files with exchange.export_* under /verif/work, tokenises them and reads "
        "them back with exchange.import_*; ~10 % of the JSON cases edit the written file (missing key, wrong size, bad delta, "
        "degree 0, short weights) to exercise the importers' error paths. non-trivial = files written and read back without "
        "error; distinct by case hash")
ASSUMPTIONS = ["shapes use the default configuration (normalised knot vectors); knot vectors are generated already normalised",
               "smesh / vmesh carry 3-dimensional control points only: 2-D surfaces are written but refused by the reader (format limitation, modelled as Crash)",
               "the smesh/vmesh/txt/csv formats do not carry delta, trims or sense flags; they are compared for JSON only",
               "str(float)/json and float() are exact inverses; '{:.18f}' loses at most 5e-19 absolute (coordinates of magnitude < 1e-3 are not generated)",
               "YAML and libconfig importers are skipped: ruamel.yaml and libconf are not installed in the sandbox",
               "containers have at most 9 elements (numbered mesh files are read back in lexicographic file-name order)"]
THEOREM_NOTES = ("coq/Props/C14.v: 8 theorems, all [G]: json (files, components, field list), smesh, vmesh, txt/csv round trips over the "
                 "real-number instance of the token-level model under the codec hypothesis parse(print x) = x; txt/csv for an arbitrary codec; "
                 "documented row/column order; vmesh on the repaired reader (fixes/C14-vmesh-last-layer.diff, committed to /repo)")
LEVEL_TEXT = ("Coq theorems about the token-level Gallina model coq/Model/Exchange.v: for every well-formed shape (any sizes, degrees, "
              "weights != 0, any number of container elements and trims) import(export(shape)) = the same shape as a rational one, for "
              "JSON (curve, surface incl. spline/freeform/container trims and sense flags, volume, containers, delta), smesh, vmesh "
              "(repaired reader), txt (1-D, 2-D) and csv, under the hypothesis that the number<->text codec round-trips exactly "
              "(general [G], exact real arithmetic); row/column order theorems [G]. The file syntax itself (json module, separators, "
              "newlines) and the 18-decimal rounding are tied only by the correspondence check, which tokenises the real files.")
LEVEL_NOTE = ("Trusted: Coq 8.16.1 kernel incl. vm_compute; standard-library real-number axioms as printed by Print Assumptions; the "
              "hand-written model's fidelity is sampled by the correspondence check (real files, 1e-9 tolerance); Python's json, "
              "str(float), float(), '{:.18f}', file I/O and os.listdir ordering are modelled, not verified.")
# functions of the numerical core this property rests on that are also tied by the translator (tie theorems: Proofs/GenTie*.v, restated in Props/)
TRANSLATED = ["compatibility.flip_ctrlpts_u", "compatibility.flip_ctrlpts", "compatibility.generate_ctrlptsw", "compatibility.generate_ctrlptsw2d", "compatibility.generate_ctrlpts_weights", "compatibility.generate_ctrlpts2d_weights"]
TECHNIQUE = "machine-checked proof in Coq over a hand-written token-level Gallina model + correspondence check on real exported files evaluated by coqc"

WORK = os.path.join(VERIF, "work")
_counter = [0]


def workdir():
    _counter[0] += 1
    d = os.path.join(WORK, "c14files-%d-%d" % (os.getpid(), _counter[0]))
    os.makedirs(d, exist_ok=True)
    return d


# ------------------------------------------------------------------ generators
DELTAS = [0.5, 0.25, 0.125, 0.0625, 0.2, 0.1, 0.05, 0.3]
WTS = [0.125, 0.25, 0.5, 1.0, 1.0, 2.0, 3.0, 4.0, 0.75, 1.5]


def kvec(rng, p, n):
    m = n - p - 1
    interior = []
    while len(interior) < m:
        k = rng.randint(1, 15)
        if interior.count(k) < p:
            interior.append(k)
    return [0.0] * (p + 1) + [k / 16.0 for k in sorted(interior)] + [1.0] * (p + 1)


def sizes(rng, k):
    return rng.sample([2, 3, 4, 5], k)


def coord(rng):
    return rng.randint(-64, 64) / 8.0 if rng.random() < 0.8 else rng.choice([0.1, 0.3, -0.7, 1.0 / 3.0, 2.5e-3, 12.345])


def points(rng, n, dim, rat):
    out = []
    for _ in range(n):
        p = [coord(rng) for _ in range(dim)]
        if rat:
            w = rng.choice(WTS)
            p = [x * w for x in p] + [w]
        out.append(p)
    return out


def gen_crv(rng, dim=None, trimlike=False):
    n = rng.randint(2, 6)
    p = rng.randint(1, min(3, n - 1))
    rat = rng.random() < 0.5
    dim = dim or rng.choice([2, 3])
    pts = points(rng, n, dim, rat)
    if trimlike:
        pts = [[abs(x) / 16.0 for x in q[:dim]] + q[dim:] for q in pts]
    return {"rat": rat, "deg": p, "kv": kvec(rng, p, n), "pts": pts, "delta": rng.choice(DELTAS),
            "rev": rng.choice([None, None, 0, 1]) if trimlike else None}


def gen_trim(rng):
    r = rng.random()
    if r < 0.45:
        return {"t": "spline", "c": gen_crv(rng, 2, True)}
    if r < 0.75:
        return {"t": "freeform", "pts": [[rng.randint(0, 16) / 16.0, rng.randint(0, 16) / 16.0] for _ in range(rng.randint(2, 5))],
                "name": rng.choice(["freeform geometry", "hole", "outer loop"]), "rev": rng.choice([None, 0, 1])}
    return {"t": "container", "cs": [gen_crv(rng, 2, True) for _ in range(rng.randint(1, 3))], "rev": rng.choice([None, 0, 1])}


def gen_srf(rng, dim=None, trims=True):
    su, sv = sizes(rng, 2)
    pu, pv = rng.randint(1, min(3, su - 1)), rng.randint(1, min(3, sv - 1))
    rat = rng.random() < 0.5
    dim = dim or rng.choice([3, 3, 3, 2])
    d = {"rat": rat, "pu": pu, "pv": pv, "Uu": kvec(rng, pu, su), "Uv": kvec(rng, pv, sv), "su": su, "sv": sv,
         "pts": points(rng, su * sv, dim, rat), "du": rng.choice(DELTAS), "dv": rng.choice(DELTAS), "rev": rng.choice([None, None, 0, 1]), "trims": []}
    if trims and rng.random() < 0.5:
        d["trims"] = [gen_trim(rng) for _ in range(rng.randint(1, 3))]
    return d


def gen_vol(rng):
    su, sv, sw = sizes(rng, 3)
    pu, pv, pw = rng.randint(1, min(2, su - 1)), rng.randint(1, min(2, sv - 1)), rng.randint(1, min(2, sw - 1))
    rat = rng.random() < 0.5
    return {"rat": rat, "pu": pu, "pv": pv, "pw": pw, "Uu": kvec(rng, pu, su), "Uv": kvec(rng, pv, sv), "Uw": kvec(rng, pw, sw),
            "su": su, "sv": sv, "sw": sw, "pts": points(rng, su * sv * sw, 3, rat),
            "du": rng.choice(DELTAS), "dv": rng.choice(DELTAS), "dw": rng.choice(DELTAS)}


# ------------------------------------------------------------------ building geomdl objects / canonical form of objects
def mk_crv(d):
    c = NURBS.Curve() if d["rat"] else BSpline.Curve()
    c.degree = d["deg"]
    c.set_ctrlpts(copy.deepcopy(d["pts"]))
    c.knotvector = list(d["kv"])
    c.delta = d["delta"]
    if d.get("rev") is not None:
        c.opt = ["reversed", d["rev"]]
    return c


def mk_trim(t):
    if t["t"] == "spline":
        return mk_crv(t["c"])
    if t["t"] == "freeform":
        f = freeform.Freeform()
        f.evaluate(points=copy.deepcopy(t["pts"]))
        f.name = t["name"]
        if t["rev"] is not None:
            f.opt = ["reversed", t["rev"]]
        return f
    m = multi.CurveContainer(*[mk_crv(c) for c in t["cs"]])
    if t["rev"] is not None:
        m.opt = ["reversed", t["rev"]]
    return m


def mk_srf(d):
    s = NURBS.Surface() if d["rat"] else BSpline.Surface()
    s.degree_u, s.degree_v = d["pu"], d["pv"]
    s.set_ctrlpts(copy.deepcopy(d["pts"]), d["su"], d["sv"])
    s.knotvector_u, s.knotvector_v = list(d["Uu"]), list(d["Uv"])
    s.delta = (d["du"], d["dv"])
    if d.get("rev") is not None:
        s.opt = ["reversed", d["rev"]]
    if d.get("trims"):
        s.trims = [mk_trim(t) for t in d["trims"]]
    return s


def mk_vol(d):
    v = NURBS.Volume() if d["rat"] else BSpline.Volume()
    v.degree_u, v.degree_v, v.degree_w = d["pu"], d["pv"], d["pw"]
    v.set_ctrlpts(copy.deepcopy(d["pts"]), d["su"], d["sv"], d["sw"])
    v.knotvector_u, v.knotvector_v, v.knotvector_w = list(d["Uu"]), list(d["Uv"]), list(d["Uw"])
    v.delta = (d["du"], d["dv"], d["dw"])
    return v


def fl(xs):
    return [float(x) for x in xs]


def hom(o):
    return [fl(p) for p in (o.ctrlptsw if o.rational else o.ctrlpts)]


def canon_crv(c):
    return {"rat": bool(c.rational), "deg": c.degree, "kv": fl(c.knotvector), "pts": hom(c), "delta": float(c.delta), "rev": c.opt_get("reversed")}


def canon_trim(t):
    if t.type == "spline":
        return {"t": "spline", "c": canon_crv(t)}
    if t.type == "freeform":
        return {"t": "freeform", "pts": [fl(p) for p in t.evalpts], "name": t.name, "rev": t.opt_get("reversed")}
    return {"t": "container", "cs": [canon_crv(c) for c in t], "rev": t.opt_get("reversed")}


def canon_srf(s):
    return {"rat": bool(s.rational), "pu": s.degree_u, "pv": s.degree_v, "Uu": fl(s.knotvector_u), "Uv": fl(s.knotvector_v),
            "su": s.ctrlpts_size_u, "sv": s.ctrlpts_size_v, "pts": hom(s), "du": float(s.delta[0]), "dv": float(s.delta[1]),
            "rev": s.opt_get("reversed"), "trims": [canon_trim(t) for t in s.trims]}


def canon_vol(v):
    return {"rat": bool(v.rational), "pu": v.degree_u, "pv": v.degree_v, "pw": v.degree_w, "Uu": fl(v.knotvector_u), "Uv": fl(v.knotvector_v),
            "Uw": fl(v.knotvector_w), "su": v.ctrlpts_size_u, "sv": v.ctrlpts_size_v, "sw": v.ctrlpts_size_w, "pts": hom(v),
            "du": float(v.delta[0]), "dv": float(v.delta[1]), "dw": float(v.delta[2])}


MK = {"curve": mk_crv, "surface": mk_srf, "volume": mk_vol}
CANON = {"curve": canon_crv, "surface": canon_srf, "volume": canon_vol}
CONT = {"curve": multi.CurveContainer, "surface": multi.SurfaceContainer, "volume": multi.VolumeContainer}


def build(kind, specs, container):
    objs = [MK[kind](d) for d in specs]
    if container:
        return CONT[kind](*objs), objs
    return objs[0], objs


def sample_params(kind, d, k=3):
    grid = [0.0, 1.0, 0.5, 0.3125, 0.9]
    if kind == "curve":
        return [t for t in grid[:k + 1]]
    if kind == "surface":
        return [(a, b) for a in grid[:k] for b in grid[1:k]]
    return [(a, b, c) for a in grid[:2] for b in grid[1:3] for c in grid[2:4]]


# ------------------------------------------------------------------ Gallina rendering
def g_s(s):
    return '"%s"%%string' % s.replace('"', '""')


def g_on(x):
    return "None" if x is None else "(Some %d%%nat)" % int(x)


def g_crv(c):
    return "(mkC %s %s %s %s %s %s)" % (G.b(c["rat"]), G.n(c["deg"]), G.ql(c["kv"]), G.qll(c["pts"]), G.Q(c["delta"]), g_on(c.get("rev")))


def g_lst(xs, f):
    return "[" + "; ".join(f(x) for x in xs) + "]"


def g_trim(t):
    if t["t"] == "spline":
        return "(TrC %s)" % g_crv(t["c"])
    if t["t"] == "freeform":
        return "(TrF (mkF %s %s %s))" % (G.qll(t["pts"]), g_s(t["name"]), g_on(t["rev"]))
    return "(TrM %s %s)" % (g_lst(t["cs"], g_crv), g_on(t["rev"]))


def g_srf(s):
    return "(mkS %s %s %s %s %s %s %s %s %s %s %s %s)" % (G.b(s["rat"]), G.n(s["pu"]), G.n(s["pv"]), G.ql(s["Uu"]), G.ql(s["Uv"]), G.n(s["su"]), G.n(s["sv"]),
                                                       G.qll(s["pts"]), G.Q(s["du"]), G.Q(s["dv"]), g_on(s.get("rev")), g_lst(s.get("trims", []), g_trim))


def g_vol(v):
    return "(mkV %s %s %s %s %s %s %s %s %s %s %s %s %s %s)" % (G.b(v["rat"]), G.n(v["pu"]), G.n(v["pv"]), G.n(v["pw"]), G.ql(v["Uu"]), G.ql(v["Uv"]), G.ql(v["Uw"]),
                                                             G.n(v["su"]), G.n(v["sv"]), G.n(v["sw"]), G.qll(v["pts"]), G.Q(v["du"]), G.Q(v["dv"]), G.Q(v["dw"]))


GS = {"curve": ("SC", g_crv), "surface": ("SS", g_srf), "volume": ("SV", g_vol)}


def g_shapes(kind, specs):
    con, f = GS[kind]
    return "(%s (T:=Q) %s)" % (con, g_lst(specs, f))


def g_jv(x):
    if isinstance(x, bool):
        return "(JBool %s)" % G.b(x)
    if isinstance(x, int):
        return "(JInt %d%%nat)" % x if x >= 0 else "(JStr %s)" % g_s("negative:%d" % x)
    if isinstance(x, float):
        return "(JNum %s)" % G.Q(x)
    if isinstance(x, str):
        return "(JStr %s)" % g_s(x)
    if isinstance(x, list):
        return "(JArr (S:=Q) [" + "; ".join(g_jv(y) for y in x) + "])"
    if isinstance(x, dict):
        return "(JObj (S:=Q) [" + "; ".join("(%s, %s)" % (g_s(k), g_jv(v)) for k, v in x.items()) + "])"
    return "(JStr %s)" % g_s("null")


def tokenise_mesh(text):
    """rows of tokens exactly as the readers split them: ('i', n) for integer literals, ('f', 'decimal text') otherwise"""
    rows = []
    for line in text.split("\n"):
        r = []
        for t in line.strip().split():
            if re.match(r"^\d+$", t):
                r.append(["i", int(t)])
            else:
                r.append(["f", t])
        rows.append(r)
    return rows


def g_tok(t):
    if t[0] == "i":
        return "TI %d%%nat" % t[1]
    return "TF %s" % G.Q(F(t[1]))


def g_rows(rows):
    return "[" + "; ".join("[" + "; ".join(g_tok(t) for t in r) + "]" for r in rows) + "]"


def g_files(files):
    return "[" + "; ".join(g_rows(f) for f in files) + "]"


def conj(parts):
    e = parts[0]
    for p in parts[1:]:
        e = "andb (%s) (%s)" % (e, p)
    return "(" + e + ")"


# ------------------------------------------------------------------ oracle helpers (property statement, independent of the model)
def close(a, b, tol=1e-12):
    return gc.close(a, b, tol)


def closel(a, b, tol=1e-12):
    return gc.closel(a, b, tol)


def to_rational(pts, rat):
    return [list(p) for p in pts] if rat else [list(p) + [1.0] for p in pts]


def cmp_crv(orig, imp, what, with_delta=True, tol=1e-12):
    if imp["deg"] != orig["deg"]:
        return "%s: degree %s, original %s" % (what, imp["deg"], orig["deg"])
    if not closel(imp["kv"], orig["kv"], 1e-15):
        return "%s: knot vector differs" % what
    exp = to_rational(orig["pts"], orig["rat"])
    if len(imp["pts"]) != len(exp):
        return "%s: %d control points, original %d" % (what, len(imp["pts"]), len(exp))
    if not closel(imp["pts"], exp, tol):
        return "%s: weighted control points / weights differ" % what
    if with_delta and imp["delta"] != orig["delta"]:
        return "%s: delta %r, original %r" % (what, imp["delta"], orig["delta"])
    if with_delta and imp.get("rev") != orig.get("rev"):
        return "%s: sense flag %r, original %r" % (what, imp.get("rev"), orig.get("rev"))
    return None


def cmp_trim(o, i, what):
    if o["t"] != i["t"]:
        return "%s: trim type %s, original %s" % (what, i["t"], o["t"])
    if o["t"] == "spline":
        return cmp_crv(o["c"], i["c"], what)
    if o["t"] == "freeform":
        if i["pts"] != o["pts"] or i["name"] != o["name"] or i["rev"] != o["rev"]:
            return "%s: freeform trim differs" % what
        return None
    if len(o["cs"]) != len(i["cs"]) or o["rev"] != i["rev"]:
        return "%s: trim container differs" % what
    for k, (a, b) in enumerate(zip(o["cs"], i["cs"])):
        m = cmp_crv(a, b, "%s[%d]" % (what, k))
        if m:
            return m
    return None


def cmp_srf(orig, imp, what, full=True, tol=1e-12):
    for k in ("pu", "pv", "su", "sv"):
        if imp[k] != orig[k]:
            return "%s: %s = %s, original %s" % (what, k, imp[k], orig[k])
    if not closel(imp["Uu"], orig["Uu"], 1e-15) or not closel(imp["Uv"], orig["Uv"], 1e-15):
        return "%s: knot vectors differ" % what
    exp = to_rational(orig["pts"], orig["rat"])
    if len(imp["pts"]) != len(exp):
        return "%s: %d control points, original %d" % (what, len(imp["pts"]), len(exp))
    if not closel(imp["pts"], exp, tol):
        bad = [j for j, (a, b) in enumerate(zip(imp["pts"], exp)) if not closel(a, b, tol)][0]
        return "%s: control point / weight %d differs: %s vs %s" % (what, bad, imp["pts"][bad], exp[bad])
    if full:
        if (imp["du"], imp["dv"]) != (orig["du"], orig["dv"]):
            return "%s: delta (%r,%r), original (%r,%r)" % (what, imp["du"], imp["dv"], orig["du"], orig["dv"])
        if imp["rev"] != orig["rev"]:
            return "%s: sense flag lost" % what
        if len(imp["trims"]) != len(orig["trims"]):
            return "%s: %d trims, original %d" % (what, len(imp["trims"]), len(orig["trims"]))
        for k, (a, b) in enumerate(zip(orig["trims"], imp["trims"])):
            m = cmp_trim(a, b, "%s trim %d" % (what, k))
            if m:
                return m
    return None


def cmp_vol(orig, imp, what, full=True, tol=1e-12):
    for k in ("pu", "pv", "pw", "su", "sv", "sw"):
        if imp[k] != orig[k]:
            return "%s: %s = %s, original %s" % (what, k, imp[k], orig[k])
    for k in ("Uu", "Uv", "Uw"):
        if not closel(imp[k], orig[k], 1e-15):
            return "%s: knot vector %s differs" % (what, k)
    exp = to_rational(orig["pts"], orig["rat"])
    if len(imp["pts"]) != len(exp):
        return "%s: %d control points, original %d" % (what, len(imp["pts"]), len(exp))
    if not closel(imp["pts"], exp, tol):
        bad = [j for j, (a, b) in enumerate(zip(imp["pts"], exp)) if not closel(a, b, tol)][0]
        return "%s: control point / weight %d differs" % (what, bad)
    if full and (imp["du"], imp["dv"], imp["dw"]) != (orig["du"], orig["dv"], orig["dw"]):
        return "%s: delta differs" % what
    return None


CMP = {"curve": cmp_crv, "surface": cmp_srf, "volume": cmp_vol}


def evals_agree(ev):
    for par, a, b in ev:
        if not closel(a, b, 1e-9):
            return "evaluation at %s: original %s, re-imported %s" % (par, a, b)
    return None


def unweight(p):
    return [x / p[-1] for x in p[:-1]] + [p[-1]]


# ================================================================== families
class Json(Family):
    """exchange.export_json / import_json: curves, surfaces with trims, volumes, containers, delta keyword"""
    name = "json"
    imports = ("Model.Exchange", "Run.ExchangeH")
    count = {"quick": 70, "thorough": 700}
    has_oracle = True
    MAL = ["none"] * 9 + ["dropkey", "size+1", "delta2", "degree0", "shortweights", "droppoints"]

    def gen(self, rng, n):
        out = []
        for i in range(n):
            kind = ["curve", "surface", "volume", "surface"][i % 4]
            cnt = rng.choice([1, 1, 2, 3, 4])
            g = {"curve": gen_crv, "surface": gen_srf, "volume": gen_vol}[kind]
            specs = [g(rng) for _ in range(cnt)]
            if kind != "curve" or cnt > 1:
                dim = len(specs[0]["pts"][0]) - (1 if specs[0]["rat"] else 0)
                if kind == "curve":
                    specs = [gen_crv(rng, dim) for _ in range(cnt)]
                elif kind == "surface":
                    specs = [gen_srf(rng, dim) for _ in range(cnt)]
            out.append({"kind": kind, "specs": specs, "container": cnt > 1 or rng.random() < 0.3,
                        "dov": rng.choice([None, None, None, 0.25, 1.5, -1.0]), "mal": rng.choice(self.MAL), "mseed": rng.randint(0, 10 ** 6)})
        return out

    def _mutate(self, c, tree):
        import random
        r = random.Random(c["mseed"])
        data = tree["shape"]["data"]
        d = data[r.randrange(len(data))]
        mal = c["mal"]
        kind = c["kind"]
        if mal == "dropkey":
            keys = {"curve": ["degree", "knotvector", "control_points"], "surface": ["degree_u", "size_v", "knotvector_v", "control_points"],
                    "volume": ["degree_w", "size_u", "knotvector_w", "control_points"]}[kind]
            d.pop(r.choice(keys))
        elif mal == "droppoints":
            d["control_points"].pop("points")
        elif mal == "size+1":
            if kind == "curve":
                d["control_points"]["points"] = d["control_points"]["points"][:1]
            else:
                d["size_u"] += 1
        elif mal == "delta2":
            d["delta"] = 2.0 if kind == "curve" else [0.5] + [2.0] * (len(d["delta"]) - 1)
        elif mal == "degree0":
            d["degree" if kind == "curve" else "degree_v"] = 0
        elif mal == "shortweights":
            if "weights" in d["control_points"]:
                d["control_points"]["weights"] = d["control_points"]["weights"][:-1]
            else:
                d["control_points"]["weights"] = [2.0] * (len(d["control_points"]["points"]) - 1)
        return tree

    def impl(self, c):
        wd = workdir()
        try:
            def f():
                kind = c["kind"]
                obj, objs = build(kind, c["specs"], c["container"])
                fn = os.path.join(wd, "shape.json")
                exchange.export_json(obj, fn)
                tree = json.load(open(fn))
                res = {"file": tree}
                if c["mal"] != "none":
                    tree2 = self._mutate(c, copy.deepcopy(tree))
                    fn = os.path.join(wd, "edited.json")
                    json.dump(tree2, open(fn, "w"), indent=4)
                    res["edited"] = tree2
                kw = {} if c["dov"] is None else {"delta": c["dov"]}

                def imp():
                    lst = exchange.import_json(fn, **kw)
                    out = {"shapes": [CANON[kind](o) for o in lst]}
                    if c["mal"] == "none":
                        ev = []
                        for d, o, o2 in zip(c["specs"], objs, lst):
                            for par in sample_params(kind, d):
                                ev.append([par, fl(o.evaluate_single(par)), fl(o2.evaluate_single(par))])
                        out["ev"] = ev
                    return out
                res["imp"] = call(imp)
                return res
            return call(f)
        finally:
            shutil.rmtree(wd, ignore_errors=True)

    def coq(self, c, out):
        if "ok" not in out:
            return None
        o = out["ok"]
        kind = c["kind"]
        con, gf = GS[kind]
        parts = ["jv_close (xjson %s) %s" % (g_shapes(kind, c["specs"]), g_jv(o["file"]))]
        src = o.get("edited", o["file"])
        dov = "None" if c["dov"] is None else "(Some %s)" % G.Q(c["dov"])
        imp = o["imp"]
        if "ok" in imp:
            r = "(Ok %s)" % g_shapes(kind, imp["ok"]["shapes"])
        else:
            r = "Rejected" if "rej" in imp else "Crash"
        parts.append("res_cmp shapes_close (ijson %s %s) %s" % (dov, g_jv(src), r))
        return conj(parts)

    def oracle(self, c, out):
        if "ok" not in out:
            return "json: export failed on a valid shape: %s" % (out,)
        if c["mal"] != "none":
            return None
        o = out["ok"]
        kind = c["kind"]
        # documented layout of the file: one dict per shape, control points v-fastest / u / w, weights separate
        data = o["file"]["shape"]
        if data["type"] != kind or data["count"] != len(c["specs"]) or len(data["data"]) != len(c["specs"]):
            return "json-layout: shape type/count wrong"
        for d, e in zip(c["specs"], data["data"]):
            pts = e["control_points"]["points"]
            exp = [unweight(p)[:-1] for p in d["pts"]] if d["rat"] else d["pts"]
            if not closel(pts, exp):
                return "json-layout: control_points.points is not the flat (v fastest) list of unweighted points"
            if d["rat"] and not closel(e["control_points"].get("weights"), [p[-1] for p in d["pts"]]):
                return "json-layout: weights differ"
        imp = o["imp"]
        if "ok" not in imp:
            return "json: import of an exported file failed: %s" % (imp,)
        shapes = imp["ok"]["shapes"]
        if len(shapes) != len(c["specs"]):
            return "json: %d shapes read back, %d written" % (len(shapes), len(c["specs"]))
        dov = c["dov"]
        for k, (d, s) in enumerate(zip(c["specs"], shapes)):
            d2 = copy.deepcopy(d)
            if dov is not None and 0.0 < dov < 1.0:
                if kind == "curve":
                    d2["delta"] = dov
                else:
                    for key in ("du", "dv", "dw"):
                        if key in d2:
                            d2[key] = dov
            m = CMP[kind](d2, s, "json %s %d" % (kind, k))
            if m:
                return m
        return evals_agree(imp["ok"]["ev"])

    def nontrivial(self, c, out):
        return "ok" in out and "ok" in out["ok"]["imp"]

    def stratum(self, c, out):
        tr = "trims" if c["kind"] == "surface" and any(d["trims"] for d in c["specs"]) else "plain"
        return "%s/%s/%s/%s/%s" % (c["kind"], "single" if len(c["specs"]) == 1 else "container", "rat" if c["specs"][0]["rat"] else "poly", tr, c["mal"])


class Mesh(Family):
    """export_smesh/import_smesh and export_vmesh/import_vmesh"""
    imports = ("Model.Exchange", "Run.ExchangeH")
    has_oracle = True
    kind = "surface"

    def gen(self, rng, n):
        out = []
        for i in range(n):
            cnt = rng.choice([1, 1, 2, 3, 4])
            if self.kind == "surface":
                dim = 2 if rng.random() < 0.08 else 3
                specs = [gen_srf(rng, dim, trims=False) for _ in range(cnt)]
            else:
                specs = [gen_vol(rng) for _ in range(cnt)]
            out.append({"specs": specs, "container": cnt > 1 or rng.random() < 0.3, "decimals": rng.choice([None, None, None, 12])})
        return out

    def impl(self, c):
        wd = workdir()
        try:
            def f():
                kind = self.kind
                obj, objs = build(kind, c["specs"], c["container"])
                ext = ".smesh" if kind == "surface" else ".vmesh"
                sub = os.path.join(wd, "out")
                os.makedirs(sub)
                fn = os.path.join(sub, "shape" + ext)
                kw = {} if c["decimals"] is None else {"decimals": c["decimals"]}
                (exchange.export_smesh if kind == "surface" else exchange.export_vmesh)(obj, fn, **kw)
                names = sorted(os.listdir(sub))
                files = [tokenise_mesh(open(os.path.join(sub, x)).read()) for x in names]
                res = {"names": names, "files": files}

                holder = []

                def imp():
                    reader = exchange.import_smesh if kind == "surface" else exchange.import_vmesh
                    lst = reader(sub if len(names) > 1 else os.path.join(sub, names[0]))
                    holder.extend(lst)
                    return {"shapes": [CANON[kind](x) for x in lst]}

                def evs():
                    ev = []
                    for d, a, b in zip(c["specs"], objs, holder):
                        for par in sample_params(kind, d, 2):
                            ev.append([par, fl(a.evaluate_single(par)), fl(b.evaluate_single(par))])
                    return ev
                res["imp"] = call(imp)
                res["ev"] = call(evs)
                return res
            return call(f)
        finally:
            shutil.rmtree(wd, ignore_errors=True)

    def coq(self, c, out):
        if "ok" not in out:
            return None
        o = out["ok"]
        kind = self.kind
        gf = GS[kind][1]
        x, i, cl = ("xsmesh", "ismesh", "srf_close") if kind == "surface" else ("xvmesh", "ivmesh", "vlm_close")
        files = g_files(o["files"])
        parts = ["files_close (%s %s) %s" % (x, g_lst(c["specs"], gf), files)]
        imp = o["imp"]
        if "ok" in imp:
            r = "(Ok %s)" % g_lst(imp["ok"]["shapes"], gf)
        else:
            r = "Rejected" if "rej" in imp else "Crash"
        parts.append("res_cmp (all2 %s) (%s %s) %s" % (cl, i, files, r))
        return conj(parts)

    def oracle(self, c, out):
        if "ok" not in out:
            return "%s: export failed on a valid shape: %s" % (self.name, out)
        o = out["ok"]
        kind = self.kind
        specs = c["specs"]
        n = len(specs)
        expn = ["shape.%d.%s" % (k + 1, self.name) for k in range(n)] if n > 1 else ["shape." + self.name]
        if o["names"] != expn:
            return "%s: files written %s, expected %s" % (self.name, o["names"], expn)
        tol = 1e-9 if c["decimals"] else 1e-12
        nd = 2 if kind == "surface" else 3
        # documented layout: dimension; degrees; sizes; knot vectors; points u fastest, then v (, then w) as (x,y,z,w); "1"
        for d, rows in zip(specs, o["files"]):
            dim = len(d["pts"][0]) - (1 if d["rat"] else 0)
            degs = [d["pu"], d["pv"]] + ([d["pw"]] if nd == 3 else [])
            szs = [d["su"], d["sv"]] + ([d["sw"]] if nd == 3 else [])
            if rows[0] != [["i", dim]] or rows[1] != [["i", x] for x in degs] or rows[2] != [["i", x] for x in szs]:
                return "%s-layout: header rows (dimension / degrees / sizes) wrong: %s" % (self.name, rows[:3])
            for k, key in enumerate(["Uu", "Uv", "Uw"][:nd]):
                if not closel([F(t[1]) for t in rows[3 + k]], d[key], tol):
                    return "%s-layout: knot vector row %d" % (self.name, 3 + k)
            hp = to_rational(d["pts"], d["rat"])
            su, sv = d["su"], d["sv"]
            sw = d.get("sw", 1)
            base = 3 + nd
            for w in range(sw):
                for v in range(sv):
                    for u in range(su):
                        row = rows[base + u + su * (v + sv * w)]
                        exp = unweight(hp[v + sv * (u + su * w)])
                        if len(row) != len(exp) or not closel([F(t[1]) for t in row], exp, tol):
                            return "%s-layout: row of point (u=%d,v=%d,w=%d) is not (x,y,z,w) of that point (u fastest, then v, then w)" % (self.name, u, v, w)
            if rows[base + su * sv * sw] != [["i", 1]]:
                return "%s-layout: trailing row" % self.name
        imp = o["imp"]
        dim = len(specs[0]["pts"][0]) - (1 if specs[0]["rat"] else 0)
        if dim != 3:
            return None if "ok" not in imp else None    # the mesh formats are 3-D only
        if "ok" not in imp:
            return "%s: import of an exported file failed: %s" % (self.name, imp)
        shapes = imp["ok"]["shapes"]
        if len(shapes) != n:
            return "%s: %d shapes read back, %d written" % (self.name, len(shapes), n)
        for k, (d, s) in enumerate(zip(specs, shapes)):
            m = CMP[kind](d, s, "%s %d" % (self.name, k), False, tol)
            if m:
                return m
        if "ok" not in o["ev"]:
            return "%s: evaluating the re-imported shape failed: %s" % (self.name, o["ev"])
        return evals_agree(o["ev"]["ok"]) if not c["decimals"] else None

    def nontrivial(self, c, out):
        return "ok" in out and "ok" in out["ok"]["imp"]

    def stratum(self, c, out):
        d = c["specs"][0]
        return "%s/%s/dim%d/%s" % ("single" if len(c["specs"]) == 1 else "container", "rat" if d["rat"] else "poly", len(d["pts"][0]) - (1 if d["rat"] else 0), "dec12" if c["decimals"] else "dec18")


class Smesh(Mesh):
    name = "smesh"
    kind = "surface"
    count = {"quick": 40, "thorough": 400}


class Vmesh(Mesh):
    name = "vmesh"
    kind = "volume"
    count = {"quick": 30, "thorough": 300}


class Text(Family):
    """export_txt/import_txt (1-D and 2-D) and export_csv/import_csv (control points and evaluated points)"""
    name = "text"
    imports = ("Model.Exchange", "Run.ExchangeH")
    count = {"quick": 70, "thorough": 700}
    has_oracle = True

    def gen(self, rng, n):
        out = []
        for i in range(n):
            kind = ["curve", "surface", "surface", "volume"][i % 4]
            d = {"curve": gen_crv, "surface": lambda r: gen_srf(r, trims=False), "volume": gen_vol}[kind](rng)
            fmt = rng.choice(["txt", "txt", "csv"])
            if kind == "volume":
                fmt = "txt"
            c = {"kind": kind, "spec": d, "fmt": fmt, "two": kind == "surface" and fmt == "txt" and rng.random() < 0.6,
                 "seps": rng.choice([None, None, [" ", "|"], ["\t", ";"]]) if fmt == "txt" else None,
                 "ptype": rng.choice(["ctrlpts", "ctrlpts", "evalpts"]) if fmt == "csv" else "ctrlpts"}
            if kind == "curve" and fmt == "txt" and rng.random() < 0.3:
                c["two"] = True      # silently ignored for curves
            out.append(c)
        return out

    def impl(self, c):
        wd = workdir()
        try:
            def f():
                kind, d = c["kind"], c["spec"]
                obj = MK[kind](d)
                fn = os.path.join(wd, "pts." + c["fmt"])
                res = {}
                if c["fmt"] == "txt":
                    kw = {} if c["seps"] is None else {"separator": c["seps"][0], "col_separator": c["seps"][1]}
                    sep, csep = c["seps"] or [",", ";"]
                    exchange.export_txt(obj, fn, two_dimensional=c["two"], **kw)
                    text = open(fn).read()
                    lines = text.strip().split("\n")
                    two = c["two"] and kind != "curve"
                    if two:
                        res["cells"] = [[[x.strip() for x in cell.split(sep)] for cell in line.strip().split(csep)] for line in lines]
                    else:
                        res["cells"] = [[x.strip() for x in line.strip().split(sep)] for line in lines]
                    res["ends_nl"] = text.endswith("\n")
                    r = call(lambda: exchange.import_txt(fn, two_dimensional=two, **kw))
                    if "ok" in r and two:
                        r = {"ok": {"pts": [fl(p) for p in r["ok"][0]], "su": r["ok"][1], "sv": r["ok"][2]}}
                    elif "ok" in r:
                        r = {"ok": {"pts": [fl(p) for p in r["ok"]]}}
                    res["imp"] = r
                else:
                    exchange.export_csv(obj, fn, point_type=c["ptype"])
                    text = open(fn).read()
                    lines = text.strip().split("\n")
                    res["header"] = [x.strip() for x in lines[0].split(",")]
                    res["cells"] = [[x.strip() for x in line.split(",")] for line in lines[1:]]
                    r = call(lambda: exchange.import_csv(fn))
                    if "ok" in r:
                        r = {"ok": {"pts": [fl(p) for p in r["ok"]]}}
                    res["imp"] = r
                    if c["ptype"] == "evalpts":
                        res["evalpts"] = [fl(p) for p in obj.evalpts]
                return res
            return call(f)
        finally:
            shutil.rmtree(wd, ignore_errors=True)

    def _points(self, c, o):
        if c["ptype"] == "evalpts":
            return o["evalpts"]
        return c["spec"]["pts"]

    def coq(self, c, out):
        if "ok" not in out:
            return None
        o = out["ok"]
        d = c["spec"]
        pts = self._points(c, o)
        imp = o["imp"]
        if "ok" not in imp:
            return "false"
        if c["fmt"] == "txt":
            two = c["two"] and c["kind"] != "curve"
            if two:
                cells = "[" + "; ".join(G.qll([[F(x) for x in cell] for cell in row]) for row in o["cells"]) + "]"
                return conj(["qlll_close (export_txt2 qid %s %s %s) %s" % (G.n(d["su"]), G.n(d["sv"]), G.qll(pts), cells),
                             "txt2_close (import_txt2 qid %s) %s %s %s" % (cells, G.qll(imp["ok"]["pts"]), G.n(imp["ok"]["su"]), G.n(imp["ok"]["sv"]))])
            cells = G.qll([[F(x) for x in row] for row in o["cells"]])
            return conj(["qll_close (export_txt1 qid %s) %s" % (G.qll(pts), cells),
                         "qll_close (import_txt1 qid %s) %s" % (cells, G.qll(imp["ok"]["pts"]))])
        hdr = []
        for h in o["header"]:
            m = re.match(r"^dim (\d+)$", h)
            hdr.append(int(m.group(1)) if m else 0)
        cells = G.qll([[F(x) for x in row] for row in o["cells"]])
        return conj(["csv_close (export_csv qid %s) %s %s" % (G.qll(pts), G.nl(hdr), cells),
                     "qll_close (import_csv qid (%s, %s)) %s" % (G.nl(hdr), cells, G.qll(imp["ok"]["pts"]))])

    def oracle(self, c, out):
        if "ok" not in out:
            return "text: export failed on a valid shape: %s" % (out,)
        o = out["ok"]
        d = c["spec"]
        pts = self._points(c, o)
        imp = o["imp"]
        if "ok" not in imp:
            return "text: import of an exported file failed: %s" % (imp,)
        two = c["fmt"] == "txt" and c["two"] and c["kind"] != "curve"
        # documented order
        if two:
            su, sv = d["su"], d["sv"]
            if len(o["cells"]) != su or any(len(r) != sv for r in o["cells"]):
                return "txt-layout: 2-D file must have size_u rows of size_v points"
            for u in range(su):
                for v in range(sv):
                    if [float(x) for x in o["cells"][u][v]] != pts[v + sv * u]:
                        return "txt-layout: cell (row %d, column %d) is not control point (u=%d, v=%d)" % (u, v, u, v)
            if imp["ok"]["su"] != su or imp["ok"]["sv"] != sv:
                return "txt: sizes read back (%s,%s), original (%s,%s)" % (imp["ok"]["su"], imp["ok"]["sv"], su, sv)
        else:
            if [[float(x) for x in r] for r in o["cells"]] != pts:
                return "%s-layout: row k is not point k of the flat (v fastest) list" % c["fmt"]
        if c["fmt"] == "csv":
            dim = len(pts[0])
            if o["header"] != ["dim %d" % (k + 1) for k in range(dim)]:
                return "csv-layout: header %s" % (o["header"],)
        if imp["ok"]["pts"] != pts:
            return "%s: points read back differ from the exported ones" % c["fmt"]
        return None

    def stratum(self, c, out):
        return "%s/%s/%s/%s/%s" % (c["fmt"], c["kind"], "2d" if c["two"] else "1d", "rat" if c["spec"]["rat"] else "poly", c["ptype"])


def families():
    return [Json(), Smesh(), Vmesh(), Text()]
