"""C07 - splitting and Bezier decomposition reproduce the original piecewise."""
from fractions import Fraction as F
from core import Family, call
import gal as G
import gencommon as gc
from props import c67util as S
from geomdl import helpers as _helpers
from geomdl import operations

TOL8 = S.TOL8

RULE = ("structured generator: {split_curve, split_surface_u, split_surface_v, decompose_curve, decompose_surface u / v / uv} x rational "
        "{no, yes} x split parameter {inside a span dyadic / non-dyadic, on a knot of multiplicity 1..p (incl. exactly p), domain start, "
        "domain end} x degrees 1..5 (curves) / 1..4 per direction (surfaces) x different sizes per direction x 0..4 interior knots with "
        "multiplicities 1..p x normalised / affine (normalize_kv=False) knot vectors x invalid decomposition direction; non-trivial = the "
        "implementation returned pieces and the shape has at least one interior knot or the split parameter is interior; distinct by case hash")
ASSUMPTIONS = ["floating point rounding below 1e-9 (model vs implementation) / 1e-8 (evaluated points of pieces vs original) is not observable",
               "knot vectors are clamped with interior multiplicities <= degree; split parameters lie in the closed domain",
               "split parameters are at least 1/128 away from every knot they do not coincide with, except the split_curve stratum nearknot (7%: parameters 2^-26..2^-30 away from a knot), where the multiplicity tolerance 10e-8 merges parameter and knot: decided by the exact oracle only and recorded as known finding split-parameter-within-tolerance-of-a-knot",
               "the '{:.18f}' text round trip of knotvector.normalize is the identity at the comparison tolerance"]
THEOREM_NOTES = "see coq/Props/C07.v"
LEVEL_TEXT = ("Coq theorems over the reals about the executable Gallina model of operations.split_curve / split_surface_u / split_surface_v / "
              "decompose_curve (coq/Props/C07.v): [G] splitting at a domain end is rejected (curve, surface u, surface v) and a successful split "
              "was at neither end; [G] split_structure: whenever split_curve returns pieces, their nets are the first ks+r points / the points "
              "from ks+r-1 of the curve refined by r = p - s insertions, their knot vectors are the normalised slices (left part + param, "
              "(p+1) x param + right part) with length degree + size + 1; [G] sizes add up to refined size + 1 and the junction control point is "
              "shared; [G] the new ends are clamped (right piece starts with p+1 zeros, left piece ends at 1); [G] decompose_curve returns a "
              "chain of splits at the first interior knot of what is left, in order, the last piece has no interior knot, all pieces keep the "
              "degree; [G] (exact knot comparison, tol = 0) the step of decompose_curve - splitting a valid sorted start-clamped curve at its "
              "first interior knot of multiplicity 1..p - is never rejected and cuts off a Bezier piece (degree p, p+1 control points, knot "
              "vector p+1 zeros + p+1 ones). Round 2 (Proofs/Split{Local,Coincide,Count,Surf}.v), all [G]: an interior split is never rejected; "
              "BOTH PIECES COINCIDE WITH THE ORIGINAL curve under the affine map of the piece's normalised domain, any degree, split parameter "
              "inside a span or on a knot of any multiplicity <= p, every coordinate (C04 insertion theorem + locality at a knot of full "
              "multiplicity + affine invariance of the Cox-de Boor functions); surfaces split in u and in v likewise; decomposition never runs out "
              "of fuel, returns exactly (number of distinct interior knots + 1) Bezier pieces, in order, each coinciding with the original on "
              "its interval.  The count statement needs degree >= 1, interior multiplicities <= p and a tolerance that does not merge distinct "
              "knots; without them it is false in the model (C07_decompose_count_full_refuted, witness degree 0).  decompose_surface in u, v and uv (Proofs/SplitSurfDecompose.v): never rejected, "
              "one Bezier patch per knot interval (product count for uv, u outer / v inner), each coinciding with the original on its rectangle. "
              "'Input not modified' holds trivially in the functional model and is checked on the implementation by the oracle.")
LEVEL_NOTE = ("The model is tied to /repo by the sampled correspondence check (tolerance 1e-9). The geometric coincidence of pieces and original "
              "is checked exactly on every generated case by the oracle, not proved in general.")
# functions of the numerical core this property rests on that are also tied by the translator (tie theorems: Proofs/GenTie*.v, restated in Props/)
TRANSLATED = ["helpers.find_span_linear", "helpers.find_spans", "helpers.find_multiplicity", "helpers.knot_insertion", "helpers.knot_insertion_kv"]
TECHNIQUE = "Coq proof (list algebra on knot vectors and nets) + Gallina model executed by vm_compute against geomdl outputs + exact Fraction oracle"


# ------------------------------------------------------------------ generators
def pick_split(rng, kv, p, cls=None):
    """(param, class) for a clamped knot vector"""
    n = len(kv) - p - 1
    lo, hi = kv[p], kv[n]
    interior = sorted(set(k for k in kv if lo < k < hi))
    cls = cls or rng.choice(["span", "span", "span3", "knot", "knot", "knot", "start", "end"])
    if cls == "knot" and not interior:
        cls = "span"
    if cls == "knot":
        # prefer full multiplicity now and then
        full = [k for k in interior if S.mult(kv, k) == p]
        if full and rng.random() < 0.4:
            return rng.choice(full), "knot-m%d" % p
        u = rng.choice(interior)
        return u, "knot-m%d" % S.mult(kv, u)
    if cls == "start":
        return lo, cls
    if cls == "end":
        return hi, cls
    ds = sorted(set(kv))
    i = rng.randrange(len(ds) - 1)
    t = rng.choice([1 / 3.0, 0.3, 0.7, 0.6]) if cls == "span3" else rng.choice([0.5, 0.25, 0.75, 0.125, 0.875])
    return ds[i] + (ds[i + 1] - ds[i]) * t, cls


def gen_obj(rng, pdim, i, maxint):
    rational = (i % 2) == 1
    normalize = rng.random() < 0.8
    return S.gen_shape(rng, pdim, rational, normalize=normalize, nondyadic=rng.random() < 0.15, maxint=maxint,
                       budget={1: 40, 2: 56}[pdim])


def span_kw(c):
    """every sixth case of a family selects the non-default knot-span search (binary search): same spans, hence same pieces"""
    return {"find_span_func": _helpers.find_span_binsearch} if c.get("binsearch") else {}


def clamped_msg(sn, d, what):
    kv, p = sn["kv"][d], sn["deg"][d]
    if len(set(kv[:p + 1])) != 1 or len(set(kv[-p - 1:])) != 1:
        return "%s: knot vector %s of a piece is not clamped: %s" % (what, S.DIRS[d], kv)
    if len(kv) > 2 * p + 2 and (kv[p + 1] == kv[0] or kv[-p - 2] == kv[-1]):
        return "%s: end knot of a piece has multiplicity > degree + 1: %s" % (what, kv)
    if not kv[0] < kv[-1]:
        return "%s: a piece has an empty domain: %s" % (what, kv)
    return None


def check_split(orig, pieces, d, param, what):
    """the property statement for one split in direction d"""
    if len(pieces) != 2:
        return "%s: %d pieces returned" % (what, len(pieces))
    pd = orig["pdim"]
    p = orig["deg"][d]
    kv = orig["kv"][d]
    lo, hi = kv[p], kv[len(kv) - p - 1]
    for pc in pieces:
        msg = S.structure_ok(pc)
        if msg:
            return "%s-structure: %s" % (what, msg)
        if pc["deg"] != orig["deg"] or pc["rational"] != orig["rational"]:
            return "%s-structure: degree / class of a piece differs" % what
        for e in range(pd):
            msg = clamped_msg(pc, e, what)
            if msg:
                return msg
    s = S.mult(kv, param)
    if pieces[0]["size"][d] + pieces[1]["size"][d] != orig["size"][d] + (p - s) + 1:
        return "%s-sizes: piece sizes %d + %d for original size %d and %d insertions" % (
            what, pieces[0]["size"][d], pieces[1]["size"][d], orig["size"][d], p - s)
    for e in range(pd):
        if e != d and (pieces[0]["size"][e] != orig["size"][e] or pieces[1]["size"][e] != orig["size"][e]):
            return "%s-sizes: size in the other direction changed" % what
    boxes = [[(orig["kv"][e][orig["deg"][e]], orig["kv"][e][-orig["deg"][e] - 1]) for e in range(pd)] for _ in range(2)]
    boxes[0][d] = (lo, param)
    boxes[1][d] = (param, hi)
    for i in range(2):
        msg = S.piece_matches(orig, pieces[i], boxes[i])
        if msg:
            return "%s-coincide: piece %d: %s" % (what, i, msg)
    return None


class SplitCurve(Family):
    name = "split_curve"
    imports = ("Model.KnotIns", "Model.InsertKnot", "Model.Split", "Run.SplitH")
    count = {"quick": 170, "thorough": 1500}
    has_oracle = True
    timeout = 60

    def gen(self, rng, n):
        out = []
        for i in range(n):
            sh = gen_obj(rng, 1, i, 4)
            u, cls = pick_split(rng, sh["kv"][0], sh["deg"][0])
            if rng.random() < 0.07:
                # a parameter closer than the multiplicity tolerance 10e-8 to a knot it is not equal to (known finding
                # split-parameter-within-tolerance-of-a-knot)
                kv, p = sh["kv"][0], sh["deg"][0]
                lo, hi = kv[p], kv[len(kv) - p - 1]
                k = rng.choice(sorted(set(x for x in kv if lo <= x <= hi)))
                eps = 2.0 ** -rng.choice([26, 27, 28, 30]) * max(1.0, abs(hi))
                sg = 1.0 if k == lo else (-1.0 if k == hi else rng.choice([-1.0, 1.0]))
                if lo < k + sg * eps < hi and (k + sg * eps) not in kv:
                    u, cls = k + sg * eps, "nearknot"
            out.append({"binsearch": (len(out) % 6 == 3), "shape": sh, "param": u, "cls": cls})
        return out

    def impl(self, c):
        obj = S.build(c["shape"])
        before = S.snapshot(obj)
        r = call(operations.split_curve, obj, c["param"], **span_kw(c))
        if "ok" in r:
            r = {"ok": {"pieces": [S.snapshot(x) for x in r["ok"]]}}
        r["unchanged"] = S.snapshot(obj) == before
        r["before"] = before
        return r

    def coq(self, c, out):
        if "crash" in out or c.get("cls") == "nearknot":
            # nearknot: outside the theorems' hypothesis par_ok (the tolerance confuses the parameter with a knot); the
            # statement of the property is decided there by the exact oracle alone (known finding)
            return None
        exp = "(Ok %s)" % S.g_snaps(out["ok"]["pieces"]) if "ok" in out else "Rejected"
        return "(cmpC2 (split_curve Qops %s %s %s) %s)" % (G.Q(TOL8), S.g_geom(out["before"]), G.Q(c["param"]), exp)

    def coq_show(self, c, out):
        return "(split_curve Qops %s %s %s)" % (G.Q(TOL8), S.g_geom(out["before"]), G.Q(c["param"]))

    def oracle(self, c, out):
        if "before" in out and not out["unchanged"]:
            return "split-input: split_curve modified its input"
        if c.get("cls") in ("start", "end"):
            return None if "rej" in out else "split-end: splitting at the domain %s was not rejected: %s" % (c["cls"], str(out)[:200])
        if "ok" not in out:
            return "split: splitting at the interior parameter %r failed: %s" % (c["param"], out)
        pcs = out["ok"]["pieces"]
        msg = check_split(out["before"], pcs, 0, c["param"], "split")
        if msg:
            return msg
        if pcs[0]["P"][-1] != pcs[1]["P"][0]:
            return "split-junction: the pieces do not share the junction control point"
        return None

    def nontrivial(self, c, out):
        return "ok" in out

    def stratum(self, c, out):
        sh = c["shape"]
        return "p%d%s/%s%s" % (sh["deg"][0], "-rat" if sh["rational"] else "", c["cls"], "" if sh["normalize"] else "/affine")


class SplitSurface(Family):
    name = "split_surface"
    imports = ("Model.KnotIns", "Model.InsertKnot", "Model.Split", "Run.SplitH")
    count = {"quick": 180, "thorough": 1500}
    has_oracle = True
    timeout = 60

    def gen(self, rng, n):
        out = []
        for i in range(n):
            sh = gen_obj(rng, 2, i // 2, 2)
            d = i % 2
            u, cls = pick_split(rng, sh["kv"][d], sh["deg"][d])
            if rng.random() < 0.08:
                # different domains per direction; the split parameter equals the domain end of the OTHER direction
                sh["normalize"] = False
                e = 1 - d
                lo = sh["kv"][e][0]
                sh["kv"][e] = [lo + (k - lo) * 0.5 for k in sh["kv"][e]]
                lo_d, hi_d = sh["kv"][d][0], sh["kv"][d][-1]
                u = lo_d + (hi_d - lo_d) * 0.5
                sh["kv"][e] = [k - lo + lo_d for k in sh["kv"][e]]      # same start, half the range: its end is u
                cls = "cross-end-m%d" % S.mult(sh["kv"][d], u)
            out.append({"binsearch": (len(out) % 6 == 3), "shape": sh, "dir": d, "param": u, "cls": cls})
        return out

    def impl(self, c):
        obj = S.build(c["shape"])
        before = S.snapshot(obj)
        fn = operations.split_surface_u if c["dir"] == 0 else operations.split_surface_v
        r = call(fn, obj, c["param"], **span_kw(c))
        if "ok" in r:
            r = {"ok": {"pieces": [S.snapshot(x) for x in r["ok"]]}}
        r["unchanged"] = S.snapshot(obj) == before
        r["before"] = before
        return r

    def _term(self, c, out):
        return "(split_surface_%s Qops %s %s %s)" % ("uv"[c["dir"]], G.Q(TOL8), S.g_geom(out["before"]), G.Q(c["param"]))

    def coq(self, c, out):
        if "crash" in out:
            return None
        exp = "(Ok %s)" % S.g_snaps(out["ok"]["pieces"]) if "ok" in out else "Rejected"
        return "(cmpS2 %s %s)" % (self._term(c, out), exp)

    def coq_show(self, c, out):
        return self._term(c, out)

    def oracle(self, c, out):
        what = "split_%s" % "uv"[c["dir"]]
        if "before" in out and not out["unchanged"]:
            return "%s-input: the input surface was modified" % what
        if c.get("cls") in ("start", "end"):
            return None if "rej" in out else "%s-end: splitting at the domain %s was not rejected: %s" % (what, c["cls"], str(out)[:200])
        if "ok" not in out:
            return "%s: splitting at the interior parameter %r failed: %s" % (what, c["param"], out)
        pcs = out["ok"]["pieces"]
        msg = check_split(out["before"], pcs, c["dir"], c["param"], what)
        if msg:
            return msg
        # shared junction row / column
        a, b = pcs[0], pcs[1]
        if c["dir"] == 0:
            ja = a["P"][(a["size"][0] - 1) * a["size"][1]:]
            jb = b["P"][:b["size"][1]]
        else:
            ja = [a["P"][a["size"][1] - 1 + a["size"][1] * i] for i in range(a["size"][0])]
            jb = [b["P"][b["size"][1] * i] for i in range(b["size"][0])]
        if ja != jb:
            return "%s-junction: the pieces do not share the junction control points" % what
        return None

    def nontrivial(self, c, out):
        return "ok" in out

    def stratum(self, c, out):
        sh = c["shape"]
        return "%s/p%d%s/%s%s%s" % ("uv"[c["dir"]], sh["deg"][c["dir"]], "-rat" if sh["rational"] else "", c["cls"],
                                    "" if sh["normalize"] else "/affine", "" if sh["size"][0] == sh["size"][1] else "/su!=sv")


def check_decomposition(orig, pieces, dirs, what):
    """one Bezier piece per non-empty knot interval (product over dirs), in order, each coinciding with the original"""
    pd = orig["pdim"]
    ivs = []
    for d in range(pd):
        p = orig["deg"][d]
        ks = S.distinct_knots(orig["kv"][d], p)
        if d in dirs:
            ivs.append(list(zip(ks, ks[1:])))
        else:
            ivs.append([(ks[0], ks[-1])])
    expected = [[]]
    for d in range(pd):
        expected = [e + [iv] for e in expected for iv in ivs[d]]
    if len(pieces) != len(expected):
        return "%s-count: %d pieces for %s non-empty knot intervals" % (what, len(pieces), " x ".join(str(len(v)) for v in ivs))
    for i, (pc, box) in enumerate(zip(pieces, expected)):
        msg = S.structure_ok(pc)
        if msg:
            return "%s-structure: piece %d: %s" % (what, i, msg)
        if pc["deg"] != orig["deg"] or pc["rational"] != orig["rational"]:
            return "%s-structure: degree / class of piece %d differs" % (what, i)
        for d in dirs:
            p = orig["deg"][d]
            kvp = pc["kv"][d]
            if len(kvp) != 2 * p + 2 or kvp != [kvp[0]] * (p + 1) + [kvp[-1]] * (p + 1) or not kvp[0] < kvp[-1] or pc["size"][d] != p + 1:
                return "%s-bezier: piece %d is not a Bezier piece in %s: knot vector %s, size %d" % (what, i, S.DIRS[d], pc["kv"][d], pc["size"][d])
        for d in range(pd):
            if d not in dirs:
                msg = clamped_msg(pc, d, what)
                if msg:
                    return msg
                if pc["size"][d] != orig["size"][d]:
                    return "%s-structure: size of piece %d changed in the untouched direction" % (what, i)
        msg = S.piece_matches(orig, pc, box, limit=16 if len(pieces) > 6 else 30)
        if msg:
            return "%s-coincide: piece %d of %d (interval %s): %s" % (what, i, len(pieces), [(float(a), float(b)) for a, b in box], msg)
    return None


class DecomposeCurve(Family):
    name = "decompose_curve"
    imports = ("Model.KnotIns", "Model.InsertKnot", "Model.Split", "Run.SplitH")
    count = {"quick": 120, "thorough": 1000}
    has_oracle = True
    timeout = 60

    def gen(self, rng, n):
        out = []
        for i in range(n):
            sh = gen_obj(rng, 1, i, 4)
            out.append({"binsearch": (len(out) % 6 == 3), "shape": sh})
        return out

    def impl(self, c):
        obj = S.build(c["shape"])
        before = S.snapshot(obj)
        r = call(operations.decompose_curve, obj, **span_kw(c))
        if "ok" in r:
            r = {"ok": {"pieces": [S.snapshot(x) for x in r["ok"]]}}
        r["unchanged"] = S.snapshot(obj) == before
        r["before"] = before
        return r

    def coq(self, c, out):
        if "crash" in out:
            return None
        exp = "(Ok %s)" % S.g_snaps(out["ok"]["pieces"]) if "ok" in out else "Rejected"
        return "(cmpCs (decompose_curve Qops %s %s) %s)" % (G.Q(TOL8), S.g_geom(out["before"]), exp)

    def coq_show(self, c, out):
        return "(decompose_curve Qops %s %s)" % (G.Q(TOL8), S.g_geom(out["before"]))

    def oracle(self, c, out):
        if "before" in out and not out["unchanged"]:
            return "decompose-input: decompose_curve modified its input"
        if "ok" not in out:
            return "decompose: decompose_curve failed: %s" % (out,)
        return check_decomposition(out["before"], out["ok"]["pieces"], [0], "decompose")

    def nontrivial(self, c, out):
        return "ok" in out and len(out["ok"]["pieces"]) > 1

    def stratum(self, c, out):
        sh = c["shape"]
        kv, p = sh["kv"][0], sh["deg"][0]
        ks = S.distinct_knots(kv, p)
        mm = max([S.mult(kv, k) for k in ks[1:-1]] + [0])
        return "p%d%s/int%d/maxmult%d%s" % (p, "-rat" if sh["rational"] else "", len(ks) - 2, mm, "" if sh["normalize"] else "/affine")


class DecomposeSurface(Family):
    name = "decompose_surface"
    imports = ("Model.KnotIns", "Model.InsertKnot", "Model.Split", "Run.SplitH")
    count = {"quick": 120, "thorough": 1000}
    has_oracle = True
    timeout = 90

    def gen(self, rng, n):
        out = []
        for i in range(n):
            sh = gen_obj(rng, 2, i // 3, 2)
            dd = ["u", "v", "uv"][i % 3]
            if rng.random() < 0.04:
                dd = rng.choice(["w", "vu", ""])
            out.append({"binsearch": (len(out) % 6 == 3), "shape": sh, "dir": dd})
        return out

    def impl(self, c):
        obj = S.build(c["shape"])
        before = S.snapshot(obj)
        r = call(operations.decompose_surface, obj, decompose_dir=c["dir"], **span_kw(c))
        if "ok" in r:
            r = {"ok": {"pieces": [S.snapshot(x) for x in r["ok"]]}}
        r["unchanged"] = S.snapshot(obj) == before
        r["before"] = before
        return r

    def _term(self, c, out):
        code = {"u": 0, "v": 1, "uv": 2}.get(c["dir"], 3)
        return "(decompose_surface Qops %s %s %s)" % (G.Q(TOL8), G.n(code), S.g_geom(out["before"]))

    def coq(self, c, out):
        if "crash" in out:
            return None
        exp = "(Ok %s)" % S.g_snaps(out["ok"]["pieces"]) if "ok" in out else "Rejected"
        return "(cmpSs %s %s)" % (self._term(c, out), exp)

    def coq_show(self, c, out):
        return self._term(c, out)

    def oracle(self, c, out):
        if "before" in out and not out["unchanged"]:
            return "decompose-input: decompose_surface modified its input"
        if c["dir"] not in ("u", "v", "uv"):
            return None if "rej" in out else "decompose-dir: invalid direction %r accepted" % c["dir"]
        if "ok" not in out:
            return "decompose: decompose_surface(%s) failed: %s" % (c["dir"], out)
        dirs = {"u": [0], "v": [1], "uv": [0, 1]}[c["dir"]]
        return check_decomposition(out["before"], out["ok"]["pieces"], dirs, "decompose_" + c["dir"])

    def nontrivial(self, c, out):
        return "ok" in out and len(out["ok"]["pieces"]) > 1

    def stratum(self, c, out):
        sh = c["shape"]
        ni = [len(S.distinct_knots(sh["kv"][d], sh["deg"][d])) - 2 for d in range(2)]
        return "%s%s/p%d,%d/int%d,%d%s%s" % (c["dir"], "-rat" if sh["rational"] else "", sh["deg"][0], sh["deg"][1], ni[0], ni[1],
                                            "" if sh["normalize"] else "/affine", "" if sh["size"][0] == sh["size"][1] else "/su!=sv")


def families():
    return [SplitCurve(), SplitSurface(), DecomposeCurve(), DecomposeSurface()]
