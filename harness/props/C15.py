"""C15 - tessellation is a valid triangulation lying on the surface; OBJ/OFF/STL exports describe exactly this mesh.

Families: mesh (Surface.tessellate / TriangularTessellate / make_triangle_mesh with vertex_spacing), quad (QuadTessellate /
make_quad_mesh), trim (TrimTessellate / surface_trim_tessellate with polygonal and spline trims), container
(multi.SurfaceContainer.tessellate / vertices / faces), export (exchange.export_obj/off/stl(_str), ASCII and binary)."""
import os, sys, struct, math, random, shutil
from fractions import Fraction as F
from core import Family, call, VERIF
import gal as G
import gencommon as gc
from geomdl import BSpline, NURBS, tessellate, multi, exchange, knotvector, freeform

RAY_TOL = (1 << 8) * sys.float_info.epsilon
TRIM_TOL = 10e-8
TRIM_TOLS = TRIM_TOL ** 2
FILES = os.path.join(VERIF, "work", "C15-files-%d" % os.getpid())

RULE = ("mesh: B-spline/NURBS surfaces of degree 1..3 (structured knot vectors, as in C01) x sample sizes 2..12 (quick) / 2..40 "
        "(thorough), different per direction x every vertex spacing dividing both sizes minus one (plus ~10% non-dividing / "
        "malformed) x {Surface.tessellate, Surface.vertices default, TriangularTessellate called directly with labelled points}; "
        "quad: QuadTessellate directly and as the surface tessellator; trim: TrimTessellate with rectangular / triangular / convex / "
        "L-shaped polygonal trims (generic and grid-aligned), two trims, reversed sense, one spline trim; container: 1..3 surfaces, "
        "with/without container delta, 1 or 2 processes; export: OBJ / OFF / ASCII STL / binary STL, string and file writers, single "
        "surfaces and containers of 1..3 surfaces, with and without a preceding container tessellation; non-trivial = the "
        "implementation returned a mesh with at least 8 faces (mesh) / 4 quads (quad), a trimmed mesh that differs from the "
        "untrimmed one (trim), more than one surface (container/export); distinct by case hash")
ASSUMPTIONS = ["knot vectors are clamped and normalised to [0,1] (geomdl's default normalize_kv=True): the tessellator's uv step 1/(size-1) assumes this domain",
               "floating point rounding below 1e-9 is not observable; float32 rounding of binary STL below 1e-6",
               "generic trims have vertices off every grid line (odd multiples of 1/256 plus a random 30-bit dyadic offset), so that no float predicate is evaluated at an exact tie",
               "the sample size a container passes to its surfaces is observed from the surfaces (the container/surface delta convention mismatch belongs to C12/C17)"]
THEOREM_NOTES = ("coq/Props/C15.v: C15_mesh_valid_2_40 [F], C15_tessellation_valid [F]+[G], C15_make_triangle_mesh_closed_form [G], "
                 "C15_mesh_counts [G], C15_vertex_uv_is_grid_parameter / _is_sample_parameter [G, over R], C15_cell_partition [G, over R], "
                 "C15_trim_cell_all_inside_partial / C15_trim_cell_no_trims_partial [G, the two cell rules; the full 'within one cell' claim is "
                 "the Definition C15_trim_within_one_cell_full, not proved], C15_export_obj_indices_in_range, C15_export_off_header_counts, "
                 "C15_container_ids_in_range, C15_stl_normal_is_cross_product [G], C15_pinned_vertex_array_size_refuted (the defect of the pinned tree)")
LEVEL_TEXT = ("Coq theorems about the executable Gallina model coq/Model/TessCore.v + Tess.v (REPAIRED behaviour, fixes/C15-*.diff): [F] for ALL vertex-array "
              "sizes 2..40 x 2..40 (hence all sample sizes 2..40 and all vertex spacings dividing size-1) the boolean validator holds on the model's "
              "triangle list: ids in range, every directed edge used once (interior edges shared by exactly two triangles in opposite directions), "
              "boundary edges = 2(a-1)+2(b-1) and on the rectangle boundary, Euler characteristic 1, every vertex used, all triangles "
              "counter-clockwise (vm_compute over 1521 configurations in four chunks, lifted by forallb_forall); [G] for all sizes the generic cell loop "
              "with fix_numbering equals the closed form, V = a*b, F = 2(a-1)(b-1), consecutive ids; [G] stored uv = (i*k/(su-1), j*k/(sv-1)) = the "
              "linspace parameter of the sample (over R) - the position itself is C01's surface evaluation, tied here by correspondence and the exact "
              "oracle; [G] the two triangles of a cell partition it; [G] OBJ/OFF indices of containers in range (offsets = prefix sums), OFF header "
              "counts, container vertex ids consecutive, STL normal orthogonal to the facet edges. Trimmed tessellation (round 2, Proofs/WindingRect.v, TrimCells.v), cell "
              "level: the winding test is constant on every rectangle no trim edge meets; a cell whose (tolerance-inflated) rectangle no trim "
              "segment touches is either omitted entirely or kept as its two plain triangles according to the exact trimmed/not decision; a cell whose "
              "corners are all trimmed contributes nothing; every vertex of every triangle emitted for a cell lies within the cell enlarged by the "
              "snapping tolerance - so kept and omitted regions differ from the exact trimmed region only inside cells the trim boundary touches "
              "('within one cell'); the original unconditional Definition is refuted for an unconstrained corner-shift tolerance and replaced by the "
              "corrected statement.  Whole trimmed mesh (round 3, Proofs/TrimMesh.v, all sizes / spacings / trims): make_trim_mesh is the concatenation of its per-cell calls (so the cell theorems apply to every triangle of the result), triangles reference returned vertices only, every returned vertex is used, vertex ids are 0..V-1 after fix_numbering (grid vertices first in row-major order, created vertices after), every kept triangle lies within its cell enlarged by the tolerance and its centre is untrimmed, an untouched untrimmed cell contributes exactly its two plain triangles; triangle ids are NOT consecutive in general (refuted with a witness, geomdl behaves the same; the property only speaks of vertex numbering). NOT proved: which part of a touched cell is kept; spline trims (sampled to polylines), "
              "quads and the writers' text/binary encodings are tied by correspondence and checked by the exact oracle.")
LEVEL_NOTE = ("Trusted: Coq 8.16.1 kernel incl. vm_compute (mesh_valid is a vm_compute proof); standard-library real-number axioms as printed by Print "
              "Assumptions (the nat theorems are closed under the global context); the model is tied to /repo by the sampled correspondence check; "
              "surface evaluation is C01's model (Model/Eval.v); str(float)/struct round trips and file I/O are not modelled; the container/surface "
              "sample-size convention mismatch (C12/C17) is outside this property: sample sizes are observed from the surfaces.")
TECHNIQUE = "machine-checked proof in Coq (vm_compute enumeration + induction, ring/field over R) on a Gallina model + vm_compute correspondence with geomdl + exact integer/Fraction mesh validator"


# ------------------------------------------------------------------------------------------------ surfaces
def gen_spec(rng, rational=None, maxdeg=3):
    pu, pv = rng.randint(1, maxdeg), rng.randint(1, maxdeg)
    Uu, _ = gc.knotvector(rng, pu, kind=rng.choice(["uniform", "mult"]), nint=rng.randint(0, 2), grid=8)
    Uv, _ = gc.knotvector(rng, pv, kind=rng.choice(["uniform", "mult"]), nint=rng.randint(0, 2), grid=8)
    nu, nv = len(Uu) - pu - 1, len(Uv) - pv - 1
    P = gc.points(rng, nu * nv, 3, grid=4, lim=8)
    if rational is None:
        rational = rng.random() < 0.3
    W = gc.weights(rng, nu * nv) if rational else None
    return {"pu": pu, "pv": pv, "Uu": Uu, "Uv": Uv, "nu": nu, "nv": nv, "P": P, "W": W}


def build(sp, su=None, sv=None, off=0.0):
    s = NURBS.Surface() if sp["W"] else BSpline.Surface()
    s.degree_u, s.degree_v = sp["pu"], sp["pv"]
    P = [[p[0] + off, p[1], p[2]] for p in sp["P"]]
    if sp["W"]:
        s.ctrlpts_size_u, s.ctrlpts_size_v = sp["nu"], sp["nv"]
        s.ctrlpts = P
        s.weights = sp["W"]
    else:
        s.set_ctrlpts(P, sp["nu"], sp["nv"])
    s.knotvector_u, s.knotvector_v = sp["Uu"], sp["Uv"]
    if su is not None:
        s.sample_size_u, s.sample_size_v = su, sv
    return s


def basis_at(U, p, n, u):
    k = gc.exact_span(U, p, n, u)
    if u >= U[n]:
        return k, gc.basis_closed(U, p, k, u)
    return k, [gc.cdb(U, p, k - p + j, u) for j in range(p + 1)]


class ExactSurface(object):
    """exact (Fraction) evaluation of the surface defined by a spec: the tensor-product definition"""
    def __init__(self, sp, off=0.0):
        self.sp = sp
        self.Uu, self.Uv = gc.fr(sp["Uu"]), gc.fr(sp["Uv"])
        P = [[F(p[0]) + F(off), F(p[1]), F(p[2])] for p in sp["P"]]
        if sp["W"]:
            self.Pw = [[c * F(w) for c in p] + [F(w)] for p, w in zip(P, sp["W"])]
        else:
            self.Pw = [p + [F(1)] for p in P]
        self.cu, self.cv = {}, {}

    def point(self, u, v):
        sp = self.sp
        u = min(max(F(u), F(0)), F(1))
        v = min(max(F(v), F(0)), F(1))
        if u not in self.cu:
            self.cu[u] = basis_at(self.Uu, sp["pu"], sp["nu"], u)
        if v not in self.cv:
            self.cv[v] = basis_at(self.Uv, sp["pv"], sp["nv"], v)
        ku, Nu = self.cu[u]
        kv, Nv = self.cv[v]
        acc = [F(0)] * 4
        for a in range(sp["pu"] + 1):
            for b in range(sp["pv"] + 1):
                c = Nu[a] * Nv[b]
                if c:
                    q = self.Pw[(kv - sp["pv"] + b) + sp["nv"] * (ku - sp["pu"] + a)]
                    acc = [x + c * y for x, y in zip(acc, q)]
        return [x / acc[3] for x in acc[:3]]


def check_positions(ex, uvs, datas, what="vertex"):
    for i, (uv, d) in enumerate(zip(uvs, datas)):
        e = ex.point(uv[0], uv[1])
        if not gc.closel(d, e):
            return "position: %s %d at uv=%s is %s, the surface there is %s" % (what, i, list(uv), list(d), [float(x) for x in e])
    return None


def coq_surface_point(sp, uv_term, off=0.0):
    """Gallina term: the model's surface point (C01 model) at the parameter pair given by the term uv_term : Q*Q"""
    P = [[p[0] + off, p[1], p[2]] for p in sp["P"]]
    if sp["W"]:
        Pw = [[F(c) * F(w) for c in p] + [F(w)] for p, w in zip(P, sp["W"])]
        core_ = "project Qops (surface_point Qops 4 %d %d %s %s %d %d %s (fst uv) (snd uv))"
    else:
        Pw = P
        core_ = "surface_point Qops 3 %d %d %s %s %d %d %s (fst uv) (snd uv)"
    return "(let uv := %s in %s)" % (uv_term, core_ % (sp["pu"], sp["pv"], G.ql(sp["Uu"]), G.ql(sp["Uv"]), sp["nu"], sp["nv"], G.qll(Pw)))


# ------------------------------------------------------------------------------------------------ mesh validators (exact)
def on_side(p, q, tol=F(1, 10 ** 9)):
    """both points on the same side of the unit square"""
    for c in (0, 1):
        for val in (F(0), F(1)):
            if abs(p[c] - val) <= tol and abs(q[c] - val) <= tol:
                return True
    return False


def check_mesh(ids, uvs, faces, arity=3, full=True, label="mesh", degenerate_ok=False):
    """ids: vertex ids in list order; uvs: per vertex (u, v) Fractions; faces: tuples of `arity` vertex ids.
    Checks: consecutive numbering, range, orientation, edge pairing, boundary on the square, Euler characteristic, area."""
    V = len(ids)
    if list(ids) != list(range(V)):
        return "%s-ids: vertex ids are not 0..%d in order: %s" % (label, V - 1, list(ids)[:12])
    for f in faces:
        if len(f) != arity or any((not isinstance(i, int)) or i < 0 or i >= V for i in f):
            return "%s-range: face %s references a vertex outside 0..%d" % (label, list(f), V - 1)
        if len(set(f)) != arity:
            return "%s-degenerate: face %s repeats a vertex" % (label, list(f))
    edges = {}
    area = F(0)
    for f in faces:
        p = [uvs[i] for i in f]
        a2 = sum(p[i][0] * p[(i + 1) % arity][1] - p[(i + 1) % arity][0] * p[i][1] for i in range(arity))
        if a2 == 0 and degenerate_ok:
            continue      # zero-area sliver next to a trim edge through a grid vertex: covers nothing
        if a2 <= 0:
            return "%s-orientation: face %s is not counter-clockwise in (u,v) (twice the area = %s)" % (label, list(f), float(a2))
        if arity == 4:
            for i in range(4):
                a, b, c = p[i], p[(i + 1) % 4], p[(i + 2) % 4]
                if (b[0] - a[0]) * (c[1] - a[1]) - (c[0] - a[0]) * (b[1] - a[1]) <= 0:
                    return "%s-orientation: quad %s is not convex counter-clockwise" % (label, list(f))
        area += a2 / 2
        for i in range(arity):
            e = (f[i], f[(i + 1) % arity])
            if e in edges:
                return "%s-edge: directed edge %s is used by two faces (inconsistent orientation or overlap)" % (label, e)
            edges[e] = 1
    if not full:
        return None
    used = set(i for f in faces for i in f)
    if len(used) != V:
        return "%s-unused: %d vertices are not referenced by any face" % (label, V - len(used))
    boundary = [e for e in edges if (e[1], e[0]) not in edges]
    for e in boundary:
        if not on_side(uvs[e[0]], uvs[e[1]]):
            return "%s-boundary: edge %s belongs to one face only but is not on the boundary of the parametric rectangle" % (label, e)
    E = (len(edges) + len(boundary)) // 2
    if V - E + len(faces) != 1:
        return "%s-euler: V-E+F = %d-%d+%d = %d, a disc has 1" % (label, V, E, len(faces), V - E + len(faces))
    if abs(area - 1) > F(1, 10 ** 9):
        return "%s-area: the faces cover %s of the parametric rectangle" % (label, float(area))
    return None


def fruv(uvs):
    return [(F(u), F(v)) for u, v in uvs]


def dump_mesh(vertices, faces):
    return {"ids": [v.id for v in vertices], "uv": [list(v.uv) for v in vertices], "data": [list(v.data) for v in vertices],
            "faces": [[f.id] + list(f.data) for f in faces]}


def g_itris(faces):
    return "[" + "; ".join("(%d, (%d, %d, %d))" % tuple(f) for f in faces) + "]%nat"


def g_tris(faces):
    return "[" + "; ".join("(%d, %d, %d)" % tuple(f[-3:]) for f in faces) + "]%nat"


def g_uvz(uv):
    return "(%s, %s)" % (G.z(G.scaled(uv[0])), G.z(G.scaled(uv[1])))


def divisors_common(rng, maxsize):
    """(su, sv, k): k divides su-1 and sv-1, sizes 2..maxsize, different per direction most of the time"""
    k = rng.choice([1, 1, 1, 2, 2, 3, 3, 4, 5, 6, 7, 9, 13])
    k = min(k, maxsize - 1)
    mu = rng.randint(1, (maxsize - 1) // k)
    mv = rng.randint(1, (maxsize - 1) // k)
    if mu == mv and rng.random() < 0.8 and (maxsize - 1) // k > 1:
        mv = mu % ((maxsize - 1) // k) + 1
    return k * mu + 1, k * mv + 1, k


# ------------------------------------------------------------------------------------------------ triangular meshes
class Mesh(Family):
    name = "mesh"
    imports = ("Model.Basis", "Model.Knots", "Model.Eval", "Model.Geom2D", "Model.Tess", "Run.TessH")
    count = {"quick": 70, "thorough": 400}
    has_oracle = True
    timeout = 120

    def gen(self, rng, n):
        out = []
        maxsize = 12 if n < 200 else 40
        for i in range(n):
            su, sv, k = divisors_common(rng, maxsize if i % 4 else min(maxsize, 8))
            mode = rng.choice(["surface", "surface", "direct", "default"])
            c = {"mode": mode, "su": su, "sv": sv, "k": k, "div": True, "big_coq": i % 16 == 3}
            r = rng.random()
            if mode == "default":
                c["k"] = 1
            if r < 0.08 and mode != "default":      # spacing that does not divide (outside the property's quantifier; model must still agree)
                c["k"] = rng.choice([2, 3, 4, 5])
                c["div"] = (su - 1) % c["k"] == 0 and (sv - 1) % c["k"] == 0
            if mode == "direct":
                c["npts"] = su * sv
                if r > 0.92:
                    c["npts"] = su * sv - rng.randint(1, sv)    # too few points
                    c["div"] = False
                if 0.88 < r <= 0.92:
                    c["k"] = 0
                    c["div"] = False
            else:
                c["sp"] = gen_spec(rng)
            out.append(c)
        return out

    def impl(self, c):
        if c["mode"] == "direct":
            def f():
                t = tessellate.TriangularTessellate()
                pts = [[float(i + 1), 0.0, 0.0] for i in range(c["npts"])]
                t.tessellate(pts, size_u=c["su"], size_v=c["sv"], vertex_spacing=c["k"])
                return dump_mesh(t.vertices, t.faces)
            return call(f)

        def g():
            s = build(c["sp"], c["su"], c["sv"])
            if c["mode"] == "default":
                return dump_mesh(s.vertices, s.faces)
            s.tessellate(vertex_spacing=c["k"])
            return dump_mesh(s.tessellator.vertices, s.tessellator.faces)
        return call(g)

    def coq(self, c, out):
        su, sv, k = c["su"], c["sv"], c["k"]
        npts = c.get("npts", su * sv)
        a = (su - 1) // k + 1 if k else 0
        b = (sv - 1) // k + 1 if k else 0
        if a * b > 320 and not c.get("big_coq"):
            return None        # large meshes: Coq would parse > 50 KB of literals per case; the exact oracle still runs on them
        fn = "make_triangle_mesh" if a * b <= 200 else "plain_mesh"
        m = "(%s %d %d %d %d)" % (fn, npts, su, sv, k)
        if "ok" in out:
            o = out["ok"]
            if o["ids"] != list(range(len(o["ids"]))):
                return "false"
            lab = (lambda d: "(Some %d%%nat)" % (int(d[0]) - 1)) if c["mode"] == "direct" else (lambda d: "None")
            vs = "[" + "; ".join("(%s, %s)" % (lab(d), g_uvz(uv)) for d, uv in zip(o["data"], o["uv"])) + "]"
            impl = "(Ok (%s, %s))" % (vs, g_itris(o["faces"]))
        else:
            impl = "Rejected" if "rej" in out else "Crash"
        e = "plain_cmp %d %d %d %s %s" % (su, sv, k, m, impl)
        if "ok" in out and c["mode"] != "direct" and b > 0:
            # vertex positions = the C01 surface model at the model's own uv, on a sample of vertices
            o = out["ok"]
            V = len(o["ids"])
            pick = sorted(set([0, V - 1, V // 2, (V // 3) | 1, b - 1, V - b] if V > 6 else range(V)))
            for vi in pick:
                if 0 <= vi < V:
                    uvt = "(vertex_uv Qops %d %d %d (%d, %d)%%nat)" % (su, sv, k, vi // b, vi % b)
                    e = "andb (%s) (closeL %s %s)" % (e, coq_surface_point(c["sp"], uvt), G.sl(o["data"][vi]))
        return "(" + e + ")"

    def coq_show(self, c, out):
        return "(make_triangle_mesh %d %d %d %d)" % (c.get("npts", c["su"] * c["sv"]), c["su"], c["sv"], c["k"])

    def oracle(self, c, out):
        if not c["div"]:
            return None      # outside the quantifier of the property (spacing does not divide size-1 / malformed call)
        if "ok" not in out:
            return "mesh: tessellation with sample size %dx%d, vertex_spacing %d failed: %s" % (c["su"], c["sv"], c["k"], out.get("crash") or out.get("rej"))
        o = out["ok"]
        su, sv, k = c["su"], c["sv"], c["k"]
        a, b = (su - 1) // k + 1, (sv - 1) // k + 1
        msg = check_mesh(o["ids"], fruv(o["uv"]), [tuple(f[1:]) for f in o["faces"]])
        if msg:
            return msg
        if len(o["ids"]) != a * b or len(o["faces"]) != 2 * (a - 1) * (b - 1):
            return "mesh-count: %d vertices and %d triangles for a %dx%d vertex array" % (len(o["ids"]), len(o["faces"]), a, b)
        if [f[0] for f in o["faces"]] != list(range(len(o["faces"]))):
            return "mesh-faceids: triangle ids are not consecutive"
        if c["mode"] == "direct":
            # the vertex carries the sample point of its grid position: uv = (i/(su-1), j/(sv-1)) for point index j + i*sv
            for d, uv in zip(o["data"], o["uv"]):
                idx = int(d[0]) - 1
                i, j = idx // sv, idx % sv
                if not (gc.close(uv[0], F(i, su - 1)) and gc.close(uv[1], F(j, sv - 1))):
                    return "mesh-uv: vertex built from sample (%d,%d) stores uv=%s" % (i, j, uv)
            return None
        return check_positions(ExactSurface(c["sp"]), o["uv"], o["data"])

    def nontrivial(self, c, out):
        return "ok" in out and len(out["ok"]["faces"]) >= 8

    def stratum(self, c, out):
        return "%s/k%d/%s/%s" % (c["mode"], c["k"], "square" if c["su"] == c["sv"] else "nonsquare", "ok" if "ok" in out else "err")


# ------------------------------------------------------------------------------------------------ quad meshes
class Quad(Family):
    name = "quad"
    imports = ("Model.Basis", "Model.Knots", "Model.Eval", "Model.Geom2D", "Model.Tess", "Run.TessH")
    count = {"quick": 30, "thorough": 200}
    has_oracle = True
    timeout = 120

    def gen(self, rng, n):
        out = []
        maxsize = 12 if n < 100 else 40
        for i in range(n):
            su, sv = rng.randint(2, maxsize), rng.randint(2, maxsize)
            if i % 3 == 0:
                su, sv = rng.randint(2, 6), rng.randint(2, 6)
            mode = rng.choice(["surface", "direct"])
            c = {"mode": mode, "su": su, "sv": sv, "valid": True, "big_coq": i % 16 == 5}
            if mode == "direct":
                c["npts"] = su * sv
                if rng.random() < 0.12:
                    c["npts"] = su * sv - rng.randint(1, sv)
                    c["valid"] = False
            else:
                c["sp"] = gen_spec(rng)
            out.append(c)
        return out

    def impl(self, c):
        if c["mode"] == "direct":
            def f():
                t = tessellate.QuadTessellate()
                pts = [[float(i + 1), 0.0, 0.0] for i in range(c["npts"])]
                t.tessellate(pts, size_u=c["su"], size_v=c["sv"])
                return dump_mesh(t.vertices, t.faces)
            return call(f)

        def g():
            s = build(c["sp"], c["su"], c["sv"])
            s.tessellator = tessellate.QuadTessellate()
            s.tessellate()
            return dump_mesh(s.tessellator.vertices, s.tessellator.faces)
        return call(g)

    def coq(self, c, out):
        su, sv = c["su"], c["sv"]
        npts = c.get("npts", su * sv)
        if su * sv > 320 and not c.get("big_coq"):
            return None
        m = "(make_quad_mesh %d %d %d)" % (npts, su, sv)
        if "ok" in out:
            o = out["ok"]
            vs = "[" + "; ".join("(%d%%nat, %s)" % (i, g_uvz(uv)) for i, uv in zip(o["ids"], o["uv"])) + "]"
            fs = "[" + "; ".join("(%d%%nat, %s)" % (f[0], G.nl(f[1:])) for f in o["faces"]) + "]"
            impl = "(Ok (%s, %s))" % (vs, fs)
        else:
            impl = "Rejected" if "rej" in out else "Crash"
        e = "quad_cmp %d %d %s %s" % (su, sv, m, impl)
        if "ok" in out:
            o = out["ok"]
            V = len(o["ids"])
            for vi in sorted(set([0, V - 1, V // 2, sv - 1])):
                if c["mode"] == "surface":
                    e = "andb (%s) (closeL %s %s)" % (e, coq_surface_point(c["sp"], "(quad_uv Qops %d %d %d)" % (su, sv, vi)), G.sl(o["data"][vi]))
                elif vi < V:
                    e = "andb (%s) (Z.eqb %d %d)" % (e, int(o["data"][vi][0]) - 1, vi)
        return "(" + e + ")"

    def oracle(self, c, out):
        if not c["valid"]:
            return None
        if "ok" not in out:
            return "quad: quadrilateral tessellation of a %dx%d sampling failed: %s" % (c["su"], c["sv"], out.get("crash") or out.get("rej"))
        o = out["ok"]
        su, sv = c["su"], c["sv"]
        msg = check_mesh(o["ids"], fruv(o["uv"]), [tuple(f[1:]) for f in o["faces"]], arity=4, label="quad")
        if msg:
            return msg
        if len(o["ids"]) != su * sv or len(o["faces"]) != (su - 1) * (sv - 1):
            return "quad-count: %d vertices, %d quads for %dx%d samples" % (len(o["ids"]), len(o["faces"]), su, sv)
        if [f[0] for f in o["faces"]] != list(range(len(o["faces"]))):
            return "quad-faceids: quad ids are not consecutive"
        if c["mode"] == "direct":
            for d, uv in zip(o["data"], o["uv"]):
                idx = int(d[0]) - 1
                if not (gc.close(uv[0], F(idx // sv, su - 1)) and gc.close(uv[1], F(idx % sv, sv - 1))):
                    return "quad-uv: vertex built from sample %d stores uv=%s" % (idx, uv)
            return None
        return check_positions(ExactSurface(c["sp"]), o["uv"], o["data"])

    def nontrivial(self, c, out):
        return "ok" in out and len(out["ok"]["faces"]) >= 4

    def stratum(self, c, out):
        return "%s/%s/%s" % (c["mode"], "square" if c["su"] == c["sv"] else "nonsquare", "ok" if "ok" in out else "err")


# ------------------------------------------------------------------------------------------------ trimmed meshes
def seg_intersect(a, b, c, d):
    def orient(p, q, r):
        v = (q[0] - p[0]) * (r[1] - p[1]) - (r[0] - p[0]) * (q[1] - p[1])
        return (v > 0) - (v < 0)

    def on(p, q, r):
        return min(p[0], q[0]) <= r[0] <= max(p[0], q[0]) and min(p[1], q[1]) <= r[1] <= max(p[1], q[1])
    o1, o2, o3, o4 = orient(a, b, c), orient(a, b, d), orient(c, d, a), orient(c, d, b)
    if o1 != o2 and o3 != o4:
        return True
    return (o1 == 0 and on(a, b, c)) or (o2 == 0 and on(a, b, d)) or (o3 == 0 and on(c, d, a)) or (o4 == 0 and on(c, d, b))


def seg_hits_rect(a, b, lo, hi):
    """closed segment ab meets the closed rectangle [lo, hi]"""
    def inside(p):
        return lo[0] <= p[0] <= hi[0] and lo[1] <= p[1] <= hi[1]
    if inside(a) or inside(b):
        return True
    c = [(lo[0], lo[1]), (hi[0], lo[1]), (hi[0], hi[1]), (lo[0], hi[1])]
    return any(seg_intersect(a, b, c[i], c[(i + 1) % 4]) for i in range(4))


def inside_poly(poly, p):
    """exact even-odd test along the direction (1009, 1)/large: valid when p is not on the boundary; poly = open vertex list"""
    cnt = 0
    n = len(poly)
    d = (F(1), F(1, 10007))
    for i in range(n):
        a, b = poly[i], poly[(i + 1) % n]
        e = (b[0] - a[0], b[1] - a[1])
        den = d[0] * e[1] - d[1] * e[0]
        if den == 0:
            continue
        w = (a[0] - p[0], a[1] - p[1])
        s = (w[0] * e[1] - w[1] * e[0]) / den
        t = (w[0] * d[1] - w[1] * d[0]) / den
        if s > 0 and 0 <= t < 1:
            cnt += 1
    return cnt % 2 == 1


def jitter(rng):
    return rng.randrange(1, 1 << 10) / float(1 << 30)


def gcoord(rng, lo=8, hi=248):
    """generic coordinate in (0,1): odd multiple of 1/256 plus a random 30-bit dyadic offset (exact float)"""
    return (2 * rng.randint(lo // 2, hi // 2) + 1) / 256.0 + jitter(rng)


def gen_trim_polygon(rng, shape):
    if shape == "rect":
        x0, x1 = sorted([gcoord(rng), gcoord(rng)])
        y0, y1 = sorted([gcoord(rng), gcoord(rng)])
        if x1 - x0 < 0.1:
            x1 = min(0.97, x0 + 0.3) + jitter(rng)
        if y1 - y0 < 0.1:
            y1 = min(0.97, y0 + 0.3) + jitter(rng)
        return [[x0, y0], [x1, y0], [x1, y1], [x0, y1]]
    if shape == "over":        # rectangle sticking out of the parametric domain
        x0, y0 = gcoord(rng, 100, 200), gcoord(rng, 20, 120)
        return [[x0, y0], [1.25 + jitter(rng), y0], [1.25 + jitter(rng), y0 + 0.3 + jitter(rng)], [x0, y0 + 0.3 + jitter(rng)]]
    if shape == "triangle":
        while True:
            p = [[gcoord(rng), gcoord(rng)] for _ in range(3)]
            ar = (p[1][0] - p[0][0]) * (p[2][1] - p[0][1]) - (p[2][0] - p[0][0]) * (p[1][1] - p[0][1])
            if abs(ar) > 0.12:
                return p if ar > 0 else p[::-1]
    if shape == "convex":
        cx, cy = 0.5 + jitter(rng), 0.5 + jitter(rng)
        m = rng.randint(5, 7)
        r = rng.choice([0.2, 0.3, 0.4])
        return [[cx + r * math.cos(2 * math.pi * i / m + 0.3) + jitter(rng), cy + r * math.sin(2 * math.pi * i / m + 0.3) + jitter(rng)] for i in range(m)]
    # L-shape
    x0, y0 = gcoord(rng, 10, 60), gcoord(rng, 10, 60)
    w, h = 0.5 + jitter(rng), 0.6 + jitter(rng)
    a, b_ = 0.2 + jitter(rng), 0.25 + jitter(rng)
    return [[x0, y0], [x0 + w, y0], [x0 + w, y0 + b_], [x0 + a, y0 + b_], [x0 + a, y0 + h], [x0, y0 + h]]


def make_trim(t):
    if t["kind"] == "freeform":
        g = freeform.Freeform()
        g.evaluate(points=[list(p) for p in t["pts"]])
    elif t["kind"] == "poly1":
        g = BSpline.Curve()
        g.degree = 1
        g.ctrlpts = [list(p) for p in t["pts"]]
        g.knotvector = knotvector.generate(1, len(t["pts"]))
        g.sample_size = len(t["pts"])
    else:
        g = BSpline.Curve()
        g.degree = t["degree"]
        g.ctrlpts = [list(p) for p in t["ctrlpts"]]
        g.knotvector = t["U"]
        g.sample_size = t["sample"]
    if t["reversed"] is not None:
        g.opt = ["reversed", t["reversed"]]
    return g


class Trim(Family):
    name = "trim"
    imports = ("Model.Basis", "Model.Knots", "Model.Eval", "Model.Geom2D", "Model.Tess", "Run.TessH")
    count = {"quick": 30, "thorough": 100}
    has_oracle = True
    timeout = 120

    def gen(self, rng, n):
        out = []
        maxsize = 9 if n < 90 else 12
        for i in range(n):
            su, sv, k = divisors_common(rng, maxsize if i % 3 else 6)
            if (su - 1) // k < 2 and su + 2 * k <= maxsize:
                su += 2 * k
            if (sv - 1) // k < 2 and sv + 2 * k <= maxsize:
                sv += 2 * k
            if i % 8 == 2:
                # sample size 10: the tessellator's accumulated parameter u += 1/9 ends at 1.0000000000000002 (the vertices of the
                # last row fail the [0, 1] check of Surface.tessellate and keep their sampled position)
                k = rng.choice([1, 3]) if i % 16 != 2 else 1      # (the accumulated step overshoots at spacing 1)
                su, sv = (10, k * rng.randint(2, 6 // k) + 1) if i % 16 == 2 else (k * rng.randint(2, 6 // k) + 1, 10)
            shape = rng.choice(["rect", "rect", "triangle", "convex", "lshape", "over", "aligned", "spline", "two", "ushape"])
            if i % 16 == 2:
                shape = "over"     # a trim leaving the domain through u = 1 on the overshooting 10-sample grid: intersection vertices on the boundary
            rev = None
            r = rng.random()
            if r < 0.15:
                rev = 1
            elif r < 0.3:
                rev = 0
            if i % 6 == 4:          # grid-aligned trims, alternately with reversed sense: the +-tol**2 corner offsets decide
                shape = "aligned"
                rev = 1 if i % 12 == 4 else rev
            trims = []
            if shape == "aligned":
                # rectangle with edges on lines of a dyadic sampling grid (exact ties resolved by the +-tol**2 offsets)
                k = 1
                su, sv = rng.choice([3, 5, 9]), rng.choice([3, 5, 9])
                a0, a1 = sorted(rng.sample(range(0, su), 2))
                b0, b1 = sorted(rng.sample(range(0, sv), 2))
                x0, x1, y0, y1 = a0 / float(su - 1), a1 / float(su - 1), b0 / float(sv - 1), b1 / float(sv - 1)
                trims.append({"kind": "freeform", "pts": [[x0, y0], [x1, y0], [x1, y1], [x0, y1], [x0, y0]], "reversed": rev})
            elif shape == "spline":
                m = rng.randint(5, 7)
                cx, cy, rad = 0.5 + jitter(rng), 0.5 + jitter(rng), rng.choice([0.25, 0.35])
                cp = [[cx + rad * math.cos(2 * math.pi * j / m) + jitter(rng), cy + rad * math.sin(2 * math.pi * j / m) + jitter(rng)] for j in range(m)]
                cp.append(list(cp[0]))
                trims.append({"kind": "spline", "degree": 2, "ctrlpts": cp, "U": knotvector.generate(2, len(cp)),
                              "sample": rng.randint(9, 14), "reversed": rev})
            elif shape == "ushape":
                # U-shaped trim whose slot is narrower than a cell: some cell edges cross the trim boundary three times
                # (the intersection with the smallest parameter has to be chosen)
                a_ = (su - 1) // k
                h = 1.0 / a_
                i0 = rng.randint(0, max(0, a_ - 2))
                L, s1, s2, R = [i0 * h + f * h + jitter(rng) for f in (0.2, 0.45, 0.6, 1.3)]
                y0, ys, y1 = 0.12 + jitter(rng), 0.3 + jitter(rng), 0.9 + jitter(rng)
                p = [[L, y0], [R, y0], [R, y1], [s2, y1], [s2, ys], [s1, ys], [s1, y1], [L, y1]]
                trims.append({"kind": rng.choice(["freeform", "poly1"]), "pts": p + [p[0]], "reversed": rev})
            elif shape == "two":
                p1 = [[gcoord(rng, 10, 50), gcoord(rng, 10, 100)], None, None, None]
                x0, y0 = p1[0]
                p1 = [[x0, y0], [x0 + 0.25 + jitter(rng), y0], [x0 + 0.25 + jitter(rng), y0 + 0.4 + jitter(rng)], [x0, y0 + 0.4 + jitter(rng)]]
                x2, y2 = gcoord(rng, 140, 170), gcoord(rng, 30, 120)
                p2 = [[x2, y2], [x2 + 0.22 + jitter(rng), y2 + jitter(rng)], [x2 + 0.1 + jitter(rng), y2 + 0.35 + jitter(rng)]]
                for p in (p1, p2):
                    trims.append({"kind": rng.choice(["freeform", "poly1"]), "pts": p + [p[0]], "reversed": None if rev is None else 0})
                rev = None if rev is None else 0
            else:
                p = gen_trim_polygon(rng, shape)
                if rng.random() < 0.3 and shape != "over":
                    p = p[::-1]            # clockwise trims
                trims.append({"kind": rng.choice(["freeform", "poly1"]), "pts": p + [p[0]], "reversed": rev})
            mode = rng.choice(["surface", "surface", "direct"])
            if i % 16 == 2:
                mode = "surface"
            c = {"mode": mode, "su": su, "sv": sv, "k": k, "trims": trims, "shape": shape}
            if mode == "surface":
                c["sp"] = gen_spec(rng, maxdeg=2)
            out.append(c)
        return out

    def impl(self, c):
        def f():
            trims = [make_trim(t) for t in c["trims"]]
            if c["mode"] == "direct":
                t = tessellate.TrimTessellate()
                pts = [[float(i + 1), 0.0, 0.0] for i in range(c["su"] * c["sv"])]
                t.tessellate(pts, size_u=c["su"], size_v=c["sv"], vertex_spacing=c["k"], trims=trims)
                o = dump_mesh(t.vertices, t.faces)
            else:
                s = build(c["sp"], c["su"], c["sv"])
                s.tessellator = tessellate.TrimTessellate()
                s.trims = trims
                s.tessellate(vertex_spacing=c["k"])
                o = dump_mesh(s.tessellator.vertices, s.tessellator.faces)    # (the .vertices property re-tessellates an empty mesh)
            o["trim_pts"] = [[list(p) for p in t.evalpts] for t in trims]
            o["trim_rev"] = [bool(t.opt_get("reversed")) for t in trims]
            return o
        return call(f)

    def _model(self, c, o):
        trims = "[" + "; ".join("mkTrim %s %s" % (G.b(r), G.qll(p)) for p, r in zip(o["trim_pts"], o["trim_rev"])) + "]"
        return "(make_trim_mesh Qops %s %s %s %s %d %d %d %d)" % (G.Q(RAY_TOL), G.Q(TRIM_TOL), G.Q(TRIM_TOLS), trims,
                                                                 c["su"] * c["sv"], c["su"], c["sv"], c["k"])

    def coq(self, c, out):
        if "ok" not in out:
            return None
        o = out["ok"]
        direct = c["mode"] == "direct"
        lab = (lambda d: ("(Some %d%%nat)" % (int(d[0]) - 1)) if int(d[0]) > 0 else "None")
        vs = "[" + "; ".join("(%s, %s)" % (lab(d) if direct else "None", g_uvz(uv)) for d, uv in zip(o["data"], o["uv"])) + "]"
        impl = "(Ok (%s, %s))" % (vs, g_itris(o["faces"]))
        e = "trim_cmp %s %s %s" % (G.b(direct), self._model(c, o), impl)
        if not direct:
            V = len(o["ids"])
            for vi in sorted(set([0, V - 1, V // 2])):
                if 0 <= vi < V:
                    uvt = "(%s, %s)" % (G.Q(min(max(o["uv"][vi][0], 0.0), 1.0)), G.Q(min(max(o["uv"][vi][1], 0.0), 1.0)))
                    e = "andb (%s) (closeL %s %s)" % (e, coq_surface_point(c["sp"], uvt), G.sl(o["data"][vi]))
        return "(" + e + ")"

    def coq_show(self, c, out):
        return self._model(c, out["ok"]) if "ok" in out else "tt"

    def oracle(self, c, out):
        if "ok" not in out:
            return "trim: trimmed tessellation failed: %s" % (out.get("crash") or out.get("rej"),)
        o = out["ok"]
        su, sv, k = c["su"], c["sv"], c["k"]
        a, b = (su - 1) // k + 1, (sv - 1) // k + 1
        uvs = fruv(o["uv"])
        faces = [tuple(f[1:]) for f in o["faces"]]
        msg = check_mesh(o["ids"], uvs, faces, full=False, label="trim", degenerate_ok=True)
        if msg:
            return msg
        polys = [[(F(p[0]), F(p[1])) for p in t[:-1]] if t[0] == t[-1] else [(F(p[0]), F(p[1])) for p in t] for t in o["trim_pts"]]
        revs = o["trim_rev"]
        if any(revs) and len(polys) > 1:
            return None
        rev = any(revs)
        # triangles per cell (by centroid)
        cell_area = {}
        for f in faces:
            p = [uvs[i] for i in f]
            gx, gy = sum(q[0] for q in p) / 3, sum(q[1] for q in p) / 3
            ci = min(int(gx * (a - 1)), a - 2)
            cj = min(int(gy * (b - 1)), b - 2)
            lo = (F(ci, a - 1), F(cj, b - 1))
            hi = (F(ci + 1, a - 1), F(cj + 1, b - 1))
            eps = F(1, 10 ** 9)
            if any(not (lo[0] - eps <= q[0] <= hi[0] + eps and lo[1] - eps <= q[1] <= hi[1] + eps) for q in p):
                return "trim-cell: triangle %s is not contained in one sampling cell" % (list(f),)
            ar = ((p[1][0] - p[0][0]) * (p[2][1] - p[0][1]) - (p[2][0] - p[0][0]) * (p[1][1] - p[0][1])) / 2
            cell_area[(ci, cj)] = cell_area.get((ci, cj), F(0)) + ar
        kept = omitted = 0
        for ci in range(a - 1):
            for cj in range(b - 1):
                lo = (F(ci, a - 1), F(cj, b - 1))
                hi = (F(ci + 1, a - 1), F(cj + 1, b - 1))
                full = (hi[0] - lo[0]) * (hi[1] - lo[1])
                got = cell_area.get((ci, cj), F(0))
                if got > full * (1 + F(1, 10 ** 6)):
                    return "trim-overlap: the triangles of cell (%d,%d) cover more than the cell" % (ci, cj)
                crossing = any(seg_hits_rect(P[i], P[(i + 1) % len(P)], lo, hi) for P in polys for i in range(len(P)))
                if crossing:
                    continue
                centre = ((lo[0] + hi[0]) / 2, (lo[1] + hi[1]) / 2)
                inside = any(inside_poly(P, centre) for P in polys)
                trimmed = (not inside) if rev else inside
                if trimmed:
                    omitted += 1
                    if got != 0:
                        return "trim-region: cell (%d,%d) lies entirely in the trimmed region but is tessellated (area %s)" % (ci, cj, float(got))
                else:
                    kept += 1
                    if abs(got - full) > full * F(1, 10 ** 6):
                        return "trim-region: cell (%d,%d) lies entirely outside the trimmed region but only %s of its area %s is tessellated" % (ci, cj, float(got), float(full))
        if c["mode"] == "surface":
            return check_positions(ExactSurface(c["sp"]), o["uv"], o["data"])
        return None

    def nontrivial(self, c, out):
        if "ok" not in out:
            return False
        a, b = (c["su"] - 1) // c["k"] + 1, (c["sv"] - 1) // c["k"] + 1
        return len(out["ok"]["ids"]) != a * b or len(out["ok"]["faces"]) != 2 * (a - 1) * (b - 1)

    def stratum(self, c, out):
        return "%s/%s/%s/%s" % (c["mode"], c["shape"], "rev" if any(t["reversed"] for t in c["trims"]) else "std", "ok" if "ok" in out else "err")


# ------------------------------------------------------------------------------------------------ containers
def elem_mesh_term(npts, su, sv, k):
    a, b = (su - 1) // k + 1, (sv - 1) // k + 1
    return "(%s %d %d %d %d)" % ("make_triangle_mesh" if a * b <= 120 else "plain_mesh", npts, su, sv, k)


def match_meshes(sizes, k, body):
    """Gallina: bind m0, m1, ... to the model meshes of the elements (false if the model crashes) and evaluate body"""
    e = body
    for i in reversed(range(len(sizes))):
        su, sv = sizes[i]
        e = "match %s with Ok m%d => %s | _ => false end" % (elem_mesh_term(su * sv, su, sv, k), i, e)
    return "(" + e + ")"


class Container(Family):
    name = "container"
    imports = ("Model.Basis", "Model.Knots", "Model.Eval", "Model.Geom2D", "Model.Tess", "Run.TessH")
    count = {"quick": 24, "thorough": 120}
    has_oracle = True
    timeout = 120

    def gen(self, rng, n):
        out = []
        maxsize = 10 if n < 100 else 16
        for i in range(n):
            ns = rng.choice([1, 2, 2, 3, 3])
            su, sv, k = divisors_common(rng, maxsize)
            delta = rng.random() < 0.6
            specs = [gen_spec(rng, maxdeg=2) for _ in range(ns)]
            sizes = []
            for _ in range(ns):
                a, b, _k = divisors_common(rng, maxsize)
                # element sample sizes compatible with the spacing
                sizes.append([k * rng.randint(1, max(1, (maxsize - 1) // k)) + 1, k * rng.randint(1, max(1, (maxsize - 1) // k)) + 1])
            if delta:      # a container sample size n reaches the surfaces as n-1 samples (C12/C17): make the spacing divide n-2
                su, sv = su + 1, sv + 1
            out.append({"specs": specs, "sizes": sizes, "csize": [su, sv], "k": k, "delta": delta,
                        "procs": 2 if (i % 6 == 5) else 1, "via": rng.choice(["tessellate", "property"]) if k == 1 else "tessellate",
                        "tsl": (i % 3 == 1)})   # tsl: the tessellation component is assigned through the container property first
        return out

    def _container(self, c):
        surfs = [build(sp, sz[0], sz[1], off=3.0 * i) for i, (sp, sz) in enumerate(zip(c["specs"], c["sizes"]))]
        mc = multi.SurfaceContainer(surfs)
        return mc

    def impl(self, c):
        def f():
            mc = self._container(c)
            if c.get("tsl"):
                mc.tessellator = tessellate.TriangularTessellate()
            if c["delta"]:
                mc.sample_size_u, mc.sample_size_v = c["csize"]
            if c["via"] == "property" and c["delta"]:
                verts, faces = mc.vertices, mc.faces
            else:
                mc.tessellate(vertex_spacing=c["k"], delta=c["delta"], num_procs=c["procs"])
                verts, faces = mc.vertices, mc.faces
            o = dump_mesh(verts, faces)
            o["sizes"] = [[e.sample_size_u, e.sample_size_v] for e in mc]
            o["nverts"] = [len(e.tessellator.vertices) for e in mc]
            o["nfaces"] = [len(e.tessellator.faces) for e in mc]
            o["elem_ids"] = [[v.id for v in e.tessellator.vertices] for e in mc]
            o["elem_faces"] = [[list(f.data) for f in e.tessellator.faces] for e in mc]
            return o
        return call(f)

    def coq(self, c, out):
        if "ok" not in out:
            return None
        o = out["ok"]
        k = c["k"]
        if any((s[0] - 1) % k or (s[1] - 1) % k for s in o["sizes"]):
            return None
        ms = "[" + "; ".join("(length (fst m%d), snd m%d)" % (i, i) for i in range(len(o["sizes"]))) + "]"
        body = "container_cmp (container_tessellate %s) (%s, %s)" % (ms, G.nl(o["ids"]), g_itris(o["faces"]))
        return match_meshes(o["sizes"], k, body)

    def oracle(self, c, out):
        if "ok" not in out:
            return "container: tessellation of a container of %d surfaces failed: %s" % (len(c["specs"]), out.get("crash") or out.get("rej"))
        o = out["ok"]
        k = c["k"]
        if any((s[0] - 1) % k or (s[1] - 1) % k for s in o["sizes"]):
            return None       # the container's delta produced sample sizes the spacing does not divide: outside the quantifier
        V = len(o["ids"])
        if o["ids"] != list(range(V)):
            return "container-ids: vertex ids of the container are not 0..%d: %s" % (V - 1, o["ids"][:12])
        if [f[0] for f in o["faces"]] != list(range(len(o["faces"]))):
            return "container-faceids: face ids of the container are not consecutive"
        if sum(o["nverts"]) != V or sum(o["nfaces"]) != len(o["faces"]):
            return "container-count: %d vertices / %d faces, the surfaces have %s / %s" % (V, len(o["faces"]), o["nverts"], o["nfaces"])
        for i, (ids, fs) in enumerate(zip(o["elem_ids"], o["elem_faces"])):
            # the tessellation of each surface itself must still be numbered 0..n-1 after the container has used it
            if ids != list(range(len(ids))) or any(x < 0 or x >= len(ids) for f in fs for x in f):
                return "container-element: after the container tessellation surface %d has vertex ids %s... and faces %s..." % (i, ids[:6], fs[:2])
        voff = foff = 0
        for i, (nv, nf) in enumerate(zip(o["nverts"], o["nfaces"])):
            faces = [tuple(x - voff for x in f[1:]) for f in o["faces"][foff:foff + nf]]
            if any(x < 0 or x >= nv for f in faces for x in f):
                return "container-range: a face of surface %d references a vertex of another surface or none: %s" % (i, o["faces"][foff:foff + nf][:3])
            msg = check_mesh(list(range(nv)), fruv(o["uv"][voff:voff + nv]), faces, label="container[%d]" % i)
            if msg:
                return msg
            su, sv = o["sizes"][i]
            if nv != ((su - 1) // k + 1) * ((sv - 1) // k + 1):
                return "container-count: surface %d has %d vertices for sample size %dx%d spacing %d" % (i, nv, su, sv, k)
            msg = check_positions(ExactSurface(c["specs"][i], off=3.0 * i), o["uv"][voff:voff + nv], o["data"][voff:voff + nv], "vertex of surface %d" % i)
            if msg:
                return msg
            voff += nv
            foff += nf
        return None

    def nontrivial(self, c, out):
        return "ok" in out and len(c["specs"]) > 1

    def stratum(self, c, out):
        return "n%d/%s/procs%d/k%d/%s%s" % (len(c["specs"]), "delta" if c["delta"] else "own", c["procs"], c["k"], "ok" if "ok" in out else "err",
                                            "/tsl-assigned" if c.get("tsl") else "")


# ------------------------------------------------------------------------------------------------ exports
def parse_obj(txt):
    v, vp, vn, f = [], [], [], []
    for line in txt.splitlines():
        t = line.split()
        if not t or t[0].startswith("#"):
            continue
        if t[0] == "v":
            v.append([float(x) for x in t[1:]])
        elif t[0] == "vp":
            vp.append([float(x) for x in t[1:]])
        elif t[0] == "vn":
            vn.append([float(x) for x in t[1:]])
        elif t[0] == "f":
            f.append([int(x) for x in t[1:]])
        else:
            raise ValueError("unexpected OBJ line: %r" % line)
    return {"v": v, "vp": vp, "vn": vn, "f": f}


def parse_off(txt):
    lines = [l for l in txt.splitlines() if l.strip()]
    if lines[0].strip() != "OFF":
        raise ValueError("no OFF header")
    nv, nf, ne = [int(x) for x in lines[1].split()]
    v = [[float(x) for x in l.split()] for l in lines[2:2 + nv]]
    f = [[int(x) for x in l.split()] for l in lines[2 + nv:]]
    return {"header": [nv, nf, ne], "v": v, "f": f}


def parse_stl_ascii(txt):
    lines = [l.split() for l in txt.splitlines() if l.strip()]
    if lines[0][0] != "solid" or lines[-1][0] != "endsolid":
        raise ValueError("solid/endsolid missing")
    facets = []
    i = 1
    while i < len(lines) - 1:
        if lines[i][:2] != ["facet", "normal"] or lines[i + 1] != ["outer", "loop"] or lines[i + 5] != ["endloop"] or lines[i + 6] != ["endfacet"]:
            raise ValueError("malformed facet at line %d" % i)
        n = [float(x) for x in lines[i][2:]]
        vs = []
        for j in range(2, 5):
            if lines[i + j][0] != "vertex":
                raise ValueError("vertex expected")
            vs.append([float(x) for x in lines[i + j][1:]])
        facets.append([n, vs])
        i += 7
    return facets


def parse_stl_binary(data):
    if len(data) < 84:
        raise ValueError("short binary STL")
    n = struct.unpack("<I", data[80:84])[0]
    if len(data) != 84 + 50 * n:
        raise ValueError("binary STL: %d bytes for %d facets" % (len(data), n))
    facets = []
    for i in range(n):
        vals = struct.unpack("<12f", data[84 + 50 * i: 84 + 50 * i + 48])
        facets.append([list(vals[0:3]), [list(vals[3:6]), list(vals[6:9]), list(vals[9:12])]])
    return facets


def cross(a, b):
    return [a[1] * b[2] - a[2] * b[1], a[2] * b[0] - a[0] * b[2], a[0] * b[1] - a[1] * b[0]]


class Export(Family):
    name = "export"
    imports = ("Model.Basis", "Model.Knots", "Model.Eval", "Model.Geom2D", "Model.Tess", "Run.TessH")
    count = {"quick": 40, "thorough": 160}
    has_oracle = True
    timeout = 120

    def gen(self, rng, n):
        out = []
        maxsize = 8 if n < 100 else 11
        fmts = ["obj", "off", "stl", "stlb"]
        for i in range(n):
            fmt = fmts[i % 4]
            ns = rng.choice([0, 1, 2, 2, 3])      # 0 = a plain surface (not a container)
            su, sv, k = divisors_common(rng, maxsize)
            specs = [gen_spec(rng, maxdeg=2) for _ in range(max(ns, 1))]
            sizes = [[k * rng.randint(1, max(1, (maxsize - 1) // k)) + 1, k * rng.randint(1, max(1, (maxsize - 1) // k)) + 1] for _ in specs]
            if ns == 0:
                sizes = [[su, sv]]
            pre = ns > 0 and rng.random() < 0.3          # container.tessellate() before the export
            upd = rng.random() < 0.6 if not pre else rng.random() < 0.5
            if pre and upd:       # a container sample size of 2 cannot be passed to the surfaces as a delta (C12/C17)
                su, sv = (su + k if su == 2 else su), (sv + k if sv == 2 else sv)
            out.append({"fmt": fmt, "ns": ns, "specs": specs, "sizes": sizes, "csize": [su, sv], "k": k, "update_delta": upd,
                        "pre": pre, "file": rng.random() < 0.4, "vp": fmt == "obj" and rng.random() < 0.3})
        return out

    def impl(self, c):
        def f():
            if c["ns"] == 0:
                obj = build(c["specs"][0], c["sizes"][0][0], c["sizes"][0][1])
                elems = [obj]
            else:
                elems = [build(sp, sz[0], sz[1], off=3.0 * i) for i, (sp, sz) in enumerate(zip(c["specs"], c["sizes"]))]
                obj = multi.SurfaceContainer(elems)
                obj.sample_size_u, obj.sample_size_v = c["csize"]
                if c["pre"]:
                    obj.tessellate(vertex_spacing=c["k"], delta=c["update_delta"])
            kw = {"vertex_spacing": c["k"], "update_delta": c["update_delta"]}
            fmt = c["fmt"]
            if fmt == "obj" and c["vp"]:
                kw["parametric_vertices"] = True
            if c["file"]:
                os.makedirs(FILES, exist_ok=True)
                path = os.path.join(FILES, "x." + fmt)
                try:
                    if fmt == "obj":
                        exchange.export_obj(obj, path, **kw)
                    elif fmt == "off":
                        exchange.export_off(obj, path, **kw)
                    else:
                        exchange.export_stl(obj, path, binary=(fmt == "stlb"), **kw)
                    with open(path, "rb") as fh:
                        raw = fh.read()
                finally:
                    shutil.rmtree(FILES, ignore_errors=True)
                content = raw if fmt == "stlb" else raw.decode("utf-8")
            else:
                if fmt == "obj":
                    content = exchange.export_obj_str(obj, **kw)
                elif fmt == "off":
                    content = exchange.export_off_str(obj, **kw)
                else:
                    content = exchange.export_stl_str(obj, binary=(fmt == "stlb"), **kw)
            if fmt == "obj":
                parsed = parse_obj(content)
            elif fmt == "off":
                parsed = parse_off(content)
            elif fmt == "stl":
                parsed = parse_stl_ascii(content)
            else:
                parsed = parse_stl_binary(bytes(content))
            elems = list(obj) if c["ns"] else [obj]
            meshes = []
            for e in elems:
                m = dump_mesh(e.tessellator.vertices, e.tessellator.faces)
                m["size"] = [e.sample_size_u, e.sample_size_v]
                meshes.append(m)
            return {"parsed": parsed, "meshes": meshes}
        return call(f)

    def coq(self, c, out):
        if "ok" not in out:
            return None
        o = out["ok"]
        k = c["k"]
        sizes = [m["size"] for m in o["meshes"]]
        if any((s[0] - 1) % k or (s[1] - 1) % k for s in sizes):
            return None
        if c["pre"] and not c["update_delta"]:
            return None      # history: the exporters see the vertex ids shifted by the container (known finding / repaired)
        ms = "[" + "; ".join("(%s, map snd (snd m%d))" % (G.qll(m["data"]), i) for i, m in enumerate(o["meshes"])) + "]"
        p = o["parsed"]
        if c["fmt"] == "obj":
            body = "obj_cmp (export_obj %s) (%s, %s)" % (ms, G.qll(p["v"]), G.nll(p["f"]))
        elif c["fmt"] == "off":
            body = "off_cmp (export_off %s) ((%d, %d, %d)%%nat, %s, %s)" % (ms, p["header"][0], p["header"][1], p["header"][2], G.qll(p["v"]), G.nll(p["f"]))
        else:
            fac = "[" + "; ".join("(%s, %s)" % (G.sl(n), G.sll(vs)) for n, vs in p) + "]"
            body = "stl_cmp %s (export_stl Qops %s) %s" % (G.b(c["fmt"] == "stlb"), ms, fac)
        return match_meshes(sizes, k, body)

    def oracle(self, c, out):
        if "ok" not in out:
            return "export: %s export failed: %s" % (c["fmt"], out.get("crash") or out.get("rej"))
        o = out["ok"]
        k = c["k"]
        meshes = o["meshes"]
        if any((m["size"][0] - 1) % k or (m["size"][1] - 1) % k for m in meshes):
            return None
        p = o["parsed"]
        fmt = c["fmt"]
        allv = [d for m in meshes for d in m["data"]]
        # the tessellation the file has to describe: each surface's own mesh must be valid
        for i, m in enumerate(meshes):
            msg = check_mesh(m["ids"], fruv(m["uv"]), [tuple(f[1:]) for f in m["faces"]], label="export-mesh[%d]" % i)
            if msg:
                return msg
        if fmt in ("obj", "off"):
            base = 1 if fmt == "obj" else 0
            faces = [f[1:] if fmt == "off" else f for f in p["f"]]
            if fmt == "off":
                if p["header"] != [len(p["v"]), len(p["f"]), 0]:
                    return "off-header: header %s but %d vertices and %d faces follow" % (p["header"], len(p["v"]), len(p["f"]))
                if any(f[0] != 3 for f in p["f"]):
                    return "off-face: face line does not start with the vertex count 3"
            if len(p["v"]) != len(allv) or len(faces) != sum(len(m["faces"]) for m in meshes):
                return "%s-count: file has %d vertices / %d faces, the tessellation has %d / %d" % (fmt, len(p["v"]), len(faces), len(allv), sum(len(m["faces"]) for m in meshes))
            for f in faces:
                if any(i - base < 0 or i - base >= len(p["v"]) for i in f):
                    return "%s-range: face %s references a vertex outside 1..%d" % (fmt, f, len(p["v"])) if fmt == "obj" else "off-range: face %s references a vertex outside 0..%d" % (f, len(p["v"]) - 1)
            if p["v"] != allv:
                return "%s-vertices: the vertex lines differ from the tessellation's vertex positions" % fmt
            off = 0
            fi = 0
            for m in meshes:
                for f in m["faces"]:
                    if [x - base - off for x in faces[fi]] != f[1:]:
                        return "%s-faces: face %d is %s, the tessellation has %s (vertex offset %d)" % (fmt, fi, faces[fi], f[1:], off)
                    fi += 1
                off += len(m["ids"])
            if fmt == "obj" and c["vp"]:
                if p["vp"] != [uv for m in meshes for uv in m["uv"]]:
                    return "obj-vp: parameter space vertices differ from the stored uv"
            return None
        # STL: one facet per triangle, vertices = positions of the triangle's vertices, normal = direction of the cross product
        tris = [(m, f) for m in meshes for f in m["faces"]]
        if len(p) != len(tris):
            return "stl-count: %d facets for %d triangles" % (len(p), len(tris))
        tol = 1e-5 if fmt == "stlb" else 1e-9
        for idx, ((n, vs), (m, f)) in enumerate(zip(p, tris)):
            exp = [m["data"][i] for i in f[1:]]
            if not gc.closel(vs, exp, tol):
                return "stl-vertices: facet %d has vertices %s, the triangle's vertices are %s" % (idx, vs, exp)
            e = [[F(x) for x in q] for q in exp]
            cr = cross([b - a for a, b in zip(e[0], e[1])], [b - a for a, b in zip(e[1], e[2])])
            cl = math.sqrt(float(sum(x * x for x in cr)))
            nl = math.sqrt(sum(x * x for x in n))
            if cl < 1e-9:
                continue
            if nl == 0:
                return "stl-normal: facet %d has a zero normal but a non-degenerate triangle" % idx
            nn = [x / nl for x in n]
            cn = [float(x) / cl for x in cr]
            if any(abs(x - y) > (1e-4 if fmt == "stlb" else 1e-7) for x, y in zip(nn, cn)):
                return "stl-normal: facet %d normal %s is not along the cross product of its edges %s" % (idx, n, [float(x) for x in cr])
        return None

    def nontrivial(self, c, out):
        return "ok" in out and c["ns"] != 1

    def stratum(self, c, out):
        return "%s/%s/n%d/%s/%s/%s" % (c["fmt"], "file" if c["file"] else "str", c["ns"], "upd" if c["update_delta"] else "noupd",
                                       "pre" if c["pre"] else "fresh", "ok" if "ok" in out else "err")


def families():
    return [Mesh(), Quad(), Trim(), Container(), Export()]
