"""C16 - linear-algebra routines satisfy their defining equations on every call, independent of call history."""
import copy, itertools, math
from fractions import Fraction as F
from core import Family, call
import gal as G
import gencommon as gc
from geomdl import linalg

TOL8 = 10e-8

RULE = ("structured generators: vector/matrix helpers on integer / dyadic / decimal-float data (dims 1..6, 2-D and 3-D cross "
        "products, rectangular matrices, binomial k<=50, linspace); plain LU (lu_decomposition, substitutions, lu_solve) on "
        "sizes 1..8 x {general, strictly diagonally dominant, spline collocation, zero pivot, singular, malformed}; call "
        "sequences of length 1..6 mixing matrix_identity / matrix_pivot / matrix_inverse / matrix_determinant / lu_factor / "
        "lu_solve over sizes 1..8 with and without needed row swaps, executed in one process starting from cleared "
        "lru_caches; non-trivial = the implementation returned values (not an error) for a matrix of size >= 2 ; distinct by case hash")
ASSUMPTIONS = [
    "floating point rounding below 1e-9 is not observable; matrices whose exact pivots are smaller than 2^-8 times the largest entry are not generated (ill-conditioned for LU without row exchanges during elimination)",
    "zero pivots are only generated where the float computation hits exactly 0.0 as well (checked by a float replica of the defining equations inside the generator)",
    "sqrt (vector_magnitude, vector_normalize) is modelled by the squared norm",
    "lru_cache is modelled as an LRU association list of size 16; the caches are cleared at the start of every generated call sequence",
]
THEOREM_NOTES = "see coq/Props/C16.v: [G] general (all sizes), [B] bounded (bound in the name)"
LEVEL_TEXT = ("Coq theorems over the reals about the Gallina model coq/Model/LinAlg.v (REPAIRED behaviour, fixes/C16-*.diff): "
              "vector/matrix helper identities [G]; Doolittle L*U = A with L unit lower / U upper triangular for all sizes given non-zero "
              "pivots [G]; forward/backward substitution and lu_solve A*X = B [G]; matrix_pivot returns rows of I and of M under one "
              "permutation [G]; lu_factor / matrix_inverse correct given non-zero pivots [G]; round 2: every strictly diagonally dominant matrix of every size "
              "has only non-zero Doolittle pivots (Schur-complement induction), so lu_solve returns a result with A*X = B, unique, also on the "
              "executed Q instance [G]; matrix_determinant = the Leibniz sum over permutations for EVERY size and pivoting pattern given non-zero "
              "pivots, and any non-zero returned value is the Leibniz determinant [G] (Laplace expansion, alternating multilinearity, det(LU)); "
              "history independence of the repaired lru_cache state machine for all call sequences [G] and a refutation witness for the "
              "pinned aliasing behaviour. lu_solve always returns a correct result on spline collocation matrices (total positivity, "
              "Proofs/CollocationLU.v) and on positive definite / Gram matrices [G].  NOT proved: floating-point rounding.  Known finding: determinant 0 for some non-singular matrices with a vanishing leading minor.")
LEVEL_NOTE = ("Trusted: Coq 8.16.1 kernel incl. vm_compute; standard-library real-number axioms as printed by Print Assumptions; the "
              "hand-written model's fidelity to geomdl/linalg.py is sampled by the correspondence check (1e-9 tolerance; call sequences "
              "of length <= 6); sqrt modelled by the squared norm; lru_cache modelled as an LRU association list")
# functions of the numerical core this property rests on that are also tied by the translator (tie theorems: Proofs/GenTie*.v, restated in Props/)
TRANSLATED = ["_linalg.doolittle", "linalg.vector_cross", "linalg.vector_dot", "linalg.vector_multiply", "linalg.vector_sum", "linalg.matrix_transpose", "linalg.matrix_multiply", "linalg.lu_decomposition", "linalg.forward_substitution", "linalg.backward_substitution", "linalg.lu_solve", "linalg.linspace", "linalg.matrix_identity", "linalg.matrix_pivot", "linalg.matrix_inverse", "linalg.matrix_determinant", "linalg.lu_factor", "linalg.binomial_coefficient", "linalg.vector_generate", "linalg.point_translate", "linalg.point_mid", "linalg.vector_magnitude", "linalg.point_distance", "linalg.vector_normalize", "linalg.vector_is_zero", "linalg.vector_mean", "linalg.matrix_scalar", "linalg.frange"]
TECHNIQUE = "machine-checked proof in Coq over a hand-written Gallina model + model/implementation correspondence check evaluated by coqc (vm_compute) + exact Fraction oracles (Gaussian elimination, Leibniz determinant)"


# ------------------------------------------------------------------ exact helpers
def fr(x):
    return gc.fr(x)


def tolist(x):
    if isinstance(x, (list, tuple)):
        return [tolist(y) for y in x]
    return x


def clear_caches():
    for f in (linalg.matrix_identity, linalg.binomial_coefficient):
        cc = getattr(f, "cache_clear", None)
        if cc:
            cc()


def perm_sign(p):
    p = list(p)
    s = 1
    for i in range(len(p)):
        while p[i] != i:
            j = p[i]
            p[i], p[j] = p[j], p[i]
            s = -s
    return s


def det_leibniz(A):
    n = len(A)
    tot = F(0)
    for p in itertools.permutations(range(n)):
        t = F(perm_sign(p))
        for i in range(n):
            t *= A[i][p[i]]
            if t == 0:
                break
        tot += t
    return tot


def det_gauss(A):
    """exact determinant by Gaussian elimination with row exchanges"""
    A = [list(r) for r in A]
    n = len(A)
    det = F(1)
    for j in range(n):
        r = next((i for i in range(j, n) if A[i][j] != 0), None)
        if r is None:
            return F(0)
        if r != j:
            A[j], A[r] = A[r], A[j]
            det = -det
        det *= A[j][j]
        for i in range(j + 1, n):
            f = A[i][j] / A[j][j]
            if f != 0:
                for k in range(j, n):
                    A[i][k] -= f * A[j][k]
    return det


def det_exact(A):
    A = fr(A)
    if len(A) <= 5:
        return det_leibniz(A)
    return det_gauss(A)


def spec_pivot(M):
    """the row order the documented strategy (largest |entry| of the column, first on ties) produces; no arithmetic"""
    mp = [list(r) for r in M]
    n = len(mp)
    order = list(range(n))
    ns = 0
    for j in range(n):
        row, amax = j, 0
        for i in range(j, n):
            if abs(mp[i][j]) > amax:
                amax, row = abs(mp[i][j]), i
        if row != j:
            ns += 1
            mp[j], mp[row] = mp[row], mp[j]
            order[j], order[row] = order[row], order[j]
    return mp, order, ns


def exact_pivots(M):
    """Doolittle pivots u_ii in exact arithmetic (list stops at the first zero pivot)"""
    A = fr(M)
    n = len(A)
    piv = []
    A = [list(r) for r in A]
    for i in range(n):
        if A[i][i] == 0:
            piv.append(F(0))
            return piv
        piv.append(A[i][i])
        for k in range(i + 1, n):
            f = A[k][i] / A[i][i]
            if f != 0:
                for c in range(i, n):
                    A[k][c] -= f * A[i][c]
    return piv


def float_pivots(M):
    """float replica of the defining equations of Doolittle's method (same summation order as the specification)"""
    n = len(M)
    U = [[0.0] * n for _ in range(n)]
    L = [[0.0] * n for _ in range(n)]
    for i in range(n):
        for k in range(i, n):
            U[i][k] = float(M[i][k] - sum([L[i][j] * U[j][k] for j in range(i)]))
            if i == k:
                L[i][i] = 1.0
            else:
                L[k][i] = float(M[k][i] - sum([L[k][j] * U[j][i] for j in range(i)]))
                L[k][i] = L[k][i] / U[i][i] if U[i][i] != 0.0 else 0.0
    return [U[i][i] for i in range(n)]


def lu_class(M):
    """'ok' (all pivots comfortably non-zero), 'zero' (exact zero pivot, also in floats), None (unsuitable: ill-conditioned)"""
    pe = exact_pivots(M)
    pf = float_pivots(M)
    n = len(M)
    big = max([1] + [abs(F(x)) for r in M for x in r])
    if len(pe) == n and pe[-1] != 0:
        if min(abs(x) for x in pe) * 256 >= big and all(abs(F(a) - b) <= abs(b) / 10 ** 6 for a, b in zip(pf, pe)):
            return "ok"
        return None
    z = len(pe) - 1
    if pf[z] == 0.0 and all(abs(x) * 256 >= big for x in pe[:z]):
        return "zero"
    return None


THOROUGH = [False]   # set by the generators from the requested case count (exact collocation / decimal floats at larger sizes)


def entry(rng, kind):
    if kind == "int":
        return rng.randint(-9, 9)
    if kind == "dyadic":
        return rng.randint(-72, 72) / 8.0
    if kind == "float20":
        # doubles with 20 significant bits on differing binary grids (exact evaluation of the model stays affordable)
        return rng.randint(-(2 ** 19), 2 ** 19) / float(2 ** rng.randint(12, 18))
    return rng.randint(-9999, 9999) / 1000.0


def pick_kind(rng, n):
    k = rng.choice(["int", "int", "dyadic", "float"])
    if k == "float" and n > (5 if THOROUGH[0] else 4):
        k = "float20"
    return k


def rand_matrix(rng, n, kind, m=None):
    return [[entry(rng, kind) for _ in range(m or n)] for _ in range(n)]


def sdd_matrix(rng, n, kind):
    M = rand_matrix(rng, n, kind)
    for i in range(n):
        s = sum(abs(F(M[i][j])) for j in range(n) if j != i)
        d = int(s) + rng.randint(1, 4)
        M[i][i] = d if rng.random() < 0.5 else -d
        if kind != "int":
            M[i][i] = float(M[i][i])
    return M


def colloc_matrix(rng, n):
    """spline collocation matrix: basis functions of degree p on averaged knots at increasing parameters"""
    p = rng.randint(1, min(5, n - 1)) if n > 1 else 0
    if n == 1:
        return [[1.0]], 0
    cuts = sorted(rng.sample(range(1, 64), n - 2))
    uk = [F(0)] + [F(c, 64) for c in cuts] + [F(1)]
    kv = [F(0)] * (p + 1) + [sum(uk[j] for j in range(i + 1, i + p + 1)) / p for i in range(n - p - 1)] + [F(1)] * (p + 1)
    A = []
    for u in uk:
        k = gc.exact_span(kv, p, n, u)
        Ns = gc.basis_closed(kv, p, k, u) if u >= kv[n] else [gc.cdb(kv, p, k - p + j, u) for j in range(p + 1)]
        row = [0.0] * n
        for j in range(p + 1):
            row[k - p + j] = float(Ns[j])
            if n > 5 and not THOROUGH[0]:
                # quick tier: entries rounded to 2^-24 so that the exact evaluation of the model stays affordable
                row[k - p + j] = round(Ns[j] * 2 ** 24) / float(2 ** 24)
        A.append(row)
    return A, p


def singular_matrix(rng, n, kind):
    M = rand_matrix(rng, n, kind)
    r = rng.random()
    if n == 1:
        return [[0]]
    if r < 0.3:
        j = rng.randrange(n)
        for i in range(n):
            M[i][j] = 0
    elif r < 0.55:
        i = rng.randrange(n)
        M[i] = [0] * n
    elif r < 0.8:
        i, j = rng.sample(range(n), 2)
        M[j] = list(M[i])
    else:
        i, j = rng.sample(range(n), 2)
        M[j] = [2 * x for x in M[i]]
    return M


def needs_swap(M):
    return spec_pivot(M)[2] > 0


def gen_matrix(rng, n, want, pivoted, tries=60, allow_scale=False):
    """want in {'plain','swap','noswap','sdd','colloc','zero','singular'}; pivoted: the routine pre-pivots.
    Returns (M, info) with info['lu'] in {'ok','zero'} describing the matrix the LU actually sees."""
    for _ in range(tries):
        kind = pick_kind(rng, n)
        if want == "sdd":
            M = sdd_matrix(rng, n, kind)
        elif want == "colloc":
            M, _p = colloc_matrix(rng, n)
            kind = "colloc"
        elif want == "singular":
            M = singular_matrix(rng, n, rng.choice(["int", "dyadic"]))
        elif want == "zero":
            M = [[rng.randint(-2, 2) for _ in range(n)] for _ in range(n)]
            kind = "int"
        else:
            M = rand_matrix(rng, n, kind)
            if want == "swap" and n > 1:
                # make the first column need an exchange, sometimes only a later column (visible for n >= 3)
                j = 0 if (n < 3 or rng.random() < 0.5) else rng.randrange(1, n - 1)
                M[j][j] = 0 if rng.random() < 0.6 else M[j][j]
                big = max(abs(F(M[i][j])) for i in range(j, n))
                if big == 0 or abs(F(M[j][j])) == big:
                    i = rng.randrange(j + 1, n)
                    M[i][j] = (10 if kind == "int" else 10.5) * rng.choice([1, -1])
            if want == "noswap":
                for i in range(n):
                    M[i][i] = (10 + rng.randint(0, 3)) * rng.choice([1, -1]) if kind == "int" else (10.5 + rng.randint(0, 3)) * rng.choice([1, -1])
        seen = spec_pivot(M)[0] if pivoted else M
        cls = lu_class(seen)
        d = det_gauss(fr(M))
        sw = needs_swap(M)
        if cls is None:
            continue
        if want in ("plain", "sdd", "colloc", "noswap", "swap") and cls != "ok":
            continue
        if want == "swap" and not sw:
            continue
        if want == "noswap" and sw:
            continue
        if want == "singular" and (d != 0 or cls != "zero"):
            continue
        if want == "zero" and (d == 0 or cls != "zero"):
            continue
        info = {"want": want, "kind": kind, "lu": cls, "swap": sw, "singular": d == 0}
        if allow_scale and want in ("plain", "sdd", "noswap", "swap") and rng.random() < 0.15:
            # uniformly scaled copies (exact powers of two: same pivots, same classes): tiny / huge but perfectly valid pivots
            sc = rng.choice([2.0 ** -30, 2.0 ** -34, 2.0 ** 20])
            M = [[float(x) * sc for x in row] for row in M]
            info["scale"] = sc
        return M, info
    return None, None


def tri_parts(A):
    """lower / upper triangular parts of A with a non-zero diagonal"""
    n = len(A)
    d = lambda i: A[i][i] if A[i][i] != 0 else 2
    Lg = [[A[i][j] if j < i else (d(i) if j == i else 0) for j in range(n)] for i in range(n)]
    Ug = [[A[i][j] if j > i else (d(i) if j == i else 0) for j in range(n)] for i in range(n)]
    return Lg, Ug


def rhs(rng, n, kind=None, cols=None):
    kind = kind or rng.choice(["int", "dyadic", "float" if n <= 4 else "float20"])
    cols = cols or rng.randint(1, 3)
    return [[entry(rng, kind) for _ in range(cols)] for _ in range(n)]


def matmul(A, B):
    return [[sum(A[i][k] * B[k][j] for k in range(len(B))) for j in range(len(B[0]))] for i in range(len(A))]


def resid_msg(label, A, X, B, tol=F(1, 10 ** 8)):
    """None if A X = B up to tol * scale"""
    A, X, B = fr(A), fr(X), fr(B)
    if len(X) != len(A) or any(len(r) != len(B[0]) for r in X):
        return "%s: result has the wrong shape" % label
    for i in range(len(A)):
        for j in range(len(B[0])):
            s = sum(A[i][k] * X[k][j] for k in range(len(A)))
            scale = max([F(1), abs(B[i][j])] + [abs(A[i][k] * X[k][j]) for k in range(len(A))])
            if abs(s - B[i][j]) > tol * scale:
                return "%s: row %d col %d of A*X is %r but B has %r" % (label, i, j, float(s), float(B[i][j]))
    return None


# ------------------------------------------------------------------ helpers family
class Helpers(Family):
    name = "helpers"
    imports = ("Model.LinAlg", "Model.Knots", "Run.LinAlgH")
    count = {"quick": 260, "thorough": 3000}
    has_oracle = True
    FNS = ["dot", "cross", "norm", "normalize", "transpose", "mmul", "mvmul", "scalar", "binom", "linspace",
           "vsum", "vmul", "generate", "mean", "iszero", "translate", "mid"]

    def gen(self, rng, n):
        out = []
        for i in range(n):
            fn = self.FNS[i % len(self.FNS)]
            kind = rng.choice(["int", "dyadic", "float"])
            d = rng.randint(1, 6)
            v = lambda m=d: [entry(rng, kind) for _ in range(m)]
            c = {"fn": fn, "kind": kind}
            mal = rng.random() < 0.12
            if fn == "dot":
                c["a"], c["b"] = v(), v()
                if mal:
                    c["a"] = []
            elif fn == "cross":
                da, db = rng.choice([2, 3, 3]), rng.choice([2, 3, 3])
                c["a"], c["b"] = v(da), v(db)
                if mal:
                    c["b"] = v(rng.choice([1, 4])) if rng.random() < 0.7 else []
            elif fn in ("norm", "normalize"):
                c["a"] = v()
                if mal and fn == "normalize":
                    c["a"] = [0] * d if rng.random() < 0.6 else []
            elif fn == "transpose":
                r, k = rng.randint(1, 5), rng.randint(1, 5)
                c["m"] = rand_matrix(rng, r, kind, k)
                if mal:
                    c["m"] = []
            elif fn == "mmul":
                r, k, s = rng.randint(1, 5), rng.randint(1, 5), rng.randint(1, 5)
                c["a"], c["b"] = rand_matrix(rng, r, kind, k), rand_matrix(rng, k if not mal else k + 1, kind, s)
            elif fn == "mvmul":
                r, k = rng.randint(1, 5), rng.randint(1, 5)
                c["a"], c["b"] = rand_matrix(rng, r, kind, k), v(k if not mal else k + 1)
            elif fn == "scalar":
                c["m"], c["s"] = rand_matrix(rng, rng.randint(1, 4), kind, rng.randint(1, 4)), entry(rng, kind)
            elif fn == "binom":
                c["k"], c["i"] = rng.randint(0, 50), rng.randint(0, 50)
                if rng.random() < 0.7 and c["i"] > c["k"]:
                    c["k"], c["i"] = c["i"], c["k"]
                pat = (i // len(self.FNS)) % 6     # systematic edge cases: i = k, 0, k-1, k+1, k = 0
                if pat == 1:
                    c["i"] = c["k"]
                elif pat == 2:
                    c["i"] = 0
                elif pat == 3:
                    c["i"] = max(0, c["k"] - 1)
                elif pat == 4:
                    c["i"] = c["k"] + 1
                elif pat == 5 and rng.random() < 0.5:
                    c["k"] = 0
            elif fn == "linspace":
                a, b = entry(rng, kind), entry(rng, kind)
                c["a"], c["b"], c["n"] = a, (b if not mal else a), rng.randint(0, 12)
            elif fn == "vsum":
                c["a"], c["b"], c["s"] = v(), v(), entry(rng, kind)
            elif fn == "vmul":
                c["a"], c["s"] = v(), entry(rng, kind)
            elif fn in ("generate", "translate"):
                c["a"], c["b"] = v(), v()
                if mal:
                    c["b"] = []
            elif fn == "mean":
                c["vs"] = [v() for _ in range(rng.randint(1, 4))]
            elif fn == "iszero":
                c["a"] = [rng.choice([0, 0.0, 5e-8, -5e-8, 2e-7, 1]) for _ in range(d)]
            elif fn == "mid":
                c["a"], c["b"] = v(), v(d if not mal else d + 1)
            out.append(c)
        return out

    def impl(self, c):
        clear_caches()
        fn = c["fn"]
        if fn == "dot":
            return call(linalg.vector_dot, c["a"], c["b"])
        if fn == "cross":
            return call(lambda: tolist(linalg.vector_cross(c["a"], c["b"])))
        if fn == "norm":
            return call(linalg.vector_magnitude, c["a"])
        if fn == "normalize":
            return call(lambda: [linalg.vector_normalize(c["a"]), linalg.vector_magnitude(c["a"])])
        if fn == "transpose":
            return call(linalg.matrix_transpose, c["m"])
        if fn in ("mmul", "mvmul"):
            return call(linalg.matrix_multiply, c["a"], c["b"])
        if fn == "scalar":
            return call(linalg.matrix_scalar, c["m"], c["s"])
        if fn == "binom":
            # second call is answered from the lru_cache
            return call(lambda: [linalg.binomial_coefficient(c["k"], c["i"]), linalg.binomial_coefficient(c["k"], c["i"])])
        if fn == "linspace":
            return call(linalg.linspace, c["a"], c["b"], c["n"])
        if fn == "vsum":
            return call(linalg.vector_sum, c["a"], c["b"], c["s"])
        if fn == "vmul":
            return call(linalg.vector_multiply, c["a"], c["s"])
        if fn == "generate":
            return call(linalg.vector_generate, c["a"], c["b"])
        if fn == "mean":
            return call(lambda: linalg.vector_mean(*c["vs"]))
        if fn == "iszero":
            return call(linalg.vector_is_zero, c["a"])
        if fn == "translate":
            return call(linalg.point_translate, c["a"], c["b"])
        if fn == "mid":
            return call(linalg.point_mid, c["a"], c["b"])
        raise ValueError(fn)

    def coq(self, c, out):
        fn = c["fn"]
        if fn == "dot":
            return "(res_cmp closeQ (vector_dot Qops %s %s) %s)" % (G.ql(c["a"]), G.ql(c["b"]), G.res(out, lambda x: G.z(G.scaled(x))))
        if fn == "cross":
            return "(res_cmp closeL (vector_cross Qops %s %s) %s)" % (G.ql(c["a"]), G.ql(c["b"]), G.res(out, G.sl))
        if fn == "norm":
            if "ok" not in out:
                return None
            return "(close_sq (vector_norm2 Qops %s) %s)" % (G.ql(c["a"]), G.Q(out["ok"]))
        if fn == "normalize":
            return "(res_cmp close_normalized (vector_normalize Qops %s) %s)" % (
                G.ql(c["a"]), G.res(out, lambda o: "(%s, %s)" % (G.ql(o[0]), G.Q(o[1]))))
        if fn == "transpose":
            return "(res_cmp closeLL (matrix_transpose Qops %s) %s)" % (G.qll(c["m"]), G.res(out, G.sll))
        if fn == "mmul":
            return "(res_cmp closeLL (matrix_multiply Qops %s %s) %s)" % (G.qll(c["a"]), G.qll(c["b"]), G.res(out, G.sll))
        if fn == "mvmul":
            return "(res_cmp closeL (matrix_multiply_vec Qops %s %s) %s)" % (G.qll(c["a"]), G.ql(c["b"]), G.res(out, G.sl))
        if fn == "scalar":
            return "(res_cmp closeLL (matrix_scalar Qops %s %s) %s)" % (G.qll(c["m"]), G.Q(c["s"]), G.res(out, G.sll))
        if fn == "binom":
            if "ok" not in out or any(x != int(x) for x in out["ok"]):
                return "false"
            return "(andb (N.eqb (binomial_coefficient %s %s) %d%%N) (N.eqb (binomial_coefficient %s %s) %d%%N))" % (
                G.n(c["k"]), G.n(c["i"]), int(out["ok"][0]), G.n(c["k"]), G.n(c["i"]), int(out["ok"][1]))
        if fn == "linspace":
            return "(res_cmp closeL (Ok (linspace Qops %s %s %s %s)) %s)" % (G.Q(TOL8), G.Q(c["a"]), G.Q(c["b"]), G.n(c["n"]), G.res(out, G.sl))
        if fn == "vsum":
            return "(res_cmp closeL (Ok (vector_sum Qops %s %s %s)) %s)" % (G.ql(c["a"]), G.ql(c["b"]), G.Q(c["s"]), G.res(out, G.sl))
        if fn == "vmul":
            return "(res_cmp closeL (Ok (vector_multiply Qops %s %s)) %s)" % (G.ql(c["a"]), G.Q(c["s"]), G.res(out, G.sl))
        if fn == "generate":
            return "(res_cmp closeL (vector_generate Qops %s %s) %s)" % (G.ql(c["a"]), G.ql(c["b"]), G.res(out, G.sl))
        if fn == "mean":
            return "(res_cmp closeL (vector_mean Qops %s) %s)" % (G.qll(c["vs"]), G.res(out, G.sl))
        if fn == "iszero":
            return "(res_cmp Bool.eqb (Ok (vector_is_zero Qops %s %s)) %s)" % (G.Q(TOL8), G.ql(c["a"]), G.res(out, G.b))
        if fn == "translate":
            return "(res_cmp closeL (point_translate Qops %s %s) %s)" % (G.ql(c["a"]), G.ql(c["b"]), G.res(out, G.sl))
        if fn == "mid":
            return "(res_cmp closeL (point_mid Qops (1#2)%%Q %s %s) %s)" % (G.ql(c["a"]), G.ql(c["b"]), G.res(out, G.sl))
        return None

    def oracle(self, c, out):
        fn = c["fn"]
        ok = out.get("ok")
        if fn == "dot":
            if not c["a"] or not c["b"]:
                return None if "ok" not in out else "dot: empty vector accepted"
            if "ok" not in out:
                return "dot: failed %s" % (out,)
            e = sum(F(x) * F(y) for x, y in zip(c["a"], c["b"]))
            return None if gc.close(ok, e) else "dot: vector_dot = %r, definition gives %r" % (ok, float(e))
        if fn == "cross":
            valid = len(c["a"]) in (2, 3) and len(c["b"]) in (2, 3)
            if not valid:
                return None if "ok" not in out else "cross: malformed input accepted"
            if "ok" not in out:
                return "cross: failed %s" % (out,)
            a = fr(c["a"]) + [F(0)] * (3 - len(c["a"]))
            b = fr(c["b"]) + [F(0)] * (3 - len(c["b"]))
            e = [a[1] * b[2] - a[2] * b[1], a[2] * b[0] - a[0] * b[2], a[0] * b[1] - a[1] * b[0]]
            if not gc.closel(ok, e):
                return "cross: vector_cross = %s, definition gives %s" % (ok, [float(x) for x in e])
            sc = max([F(1)] + [abs(x * y) for x in a for y in fr(ok)])
            if abs(sum(x * F(y) for x, y in zip(a, ok))) > sc / 10 ** 9 or abs(sum(x * F(y) for x, y in zip(b, ok))) > sc / 10 ** 9:
                return "cross-orthogonal: result is not orthogonal to the inputs"
            return None
        if fn == "norm":
            if "ok" not in out:
                return "norm: failed %s" % (out,)
            e = sum(F(x) ** 2 for x in c["a"])
            return None if gc.close(F(ok) ** 2, e) and ok >= 0 else "norm: magnitude^2 = %r but sum of squares = %r" % (ok * ok, float(e))
        if fn == "normalize":
            e = sum(F(x) ** 2 for x in c["a"])
            if e == 0:
                return None if "ok" not in out else "normalize: zero vector accepted"
            if "ok" not in out:
                return "normalize: failed %s" % (out,)
            o = fr(ok[0])
            if len(o) != len(c["a"]) or not gc.close(sum(x * x for x in o), 1):
                return "normalize-unit: result has squared length %r" % float(sum(x * x for x in o))
            for x, y in zip(o, fr(c["a"])):
                if not gc.close(x * x * e, y * y) or x * y < 0:
                    return "normalize-parallel: component %r for input %r" % (float(x), float(y))
            return None
        if fn == "transpose":
            if not c["m"]:
                return None
            if "ok" not in out:
                return "transpose: failed %s" % (out,)
            m = c["m"]
            e = [[m[j][i] for j in range(len(m))] for i in range(len(m[0]))]
            return None if tolist(ok) == e else "transpose: %s" % (ok,)
        if fn in ("mmul", "mvmul"):
            a, b = c["a"], c["b"]
            if len(a[0]) != len(b):
                return None if "ok" not in out else "multiply: size mismatch accepted"
            if "ok" not in out:
                return "multiply: failed %s" % (out,)
            if fn == "mmul":
                e = matmul(fr(a), fr(b))
            else:
                e = [sum(F(a[i][k]) * F(b[k]) for k in range(len(b))) for i in range(len(a))]
            return None if gc.closel(ok, e) else "multiply: product differs from sum_k a_ik b_kj: %s" % (ok,)
        if fn == "scalar":
            if "ok" not in out:
                return "scalar: failed %s" % (out,)
            e = [[F(x) * F(c["s"]) for x in r] for r in c["m"]]
            return None if gc.closel(ok, e) else "scalar: %s" % (ok,)
        if fn == "binom":
            if "ok" not in out:
                return "binomial: failed %s" % (out,)
            k, i = c["k"], c["i"]
            e = math.comb(k, i) if i <= k else 0
            if ok[0] != e or ok[1] != e:
                return "binomial: binomial_coefficient(%d, %d) = %r, %r (second call), k!/(i!(k-i)!) = %d" % (k, i, ok[0], ok[1], e)
            return None
        if fn == "linspace":
            if "ok" not in out:
                return "linspace: failed %s" % (out,)
            a, b, n = F(c["a"]), F(c["b"]), c["n"]
            e = [a] if (abs(a - b) <= F(TOL8) or n <= 1) else [a + i * (b - a) / (n - 1) for i in range(n)]
            return None if gc.closel(ok, e) else "linspace: %s differs from start + i (stop-start)/(num-1)" % (ok,)
        if fn == "vsum":
            e = [F(x) + F(c["s"]) * F(y) for x, y in zip(c["a"], c["b"])]
            return None if "ok" in out and gc.closel(ok, e) else "vector_sum: %s" % (out,)
        if fn == "vmul":
            e = [F(x) * F(c["s"]) for x in c["a"]]
            return None if "ok" in out and gc.closel(ok, e) else "vector_multiply: %s" % (out,)
        if fn in ("generate", "translate"):
            if not c["a"] or not c["b"]:
                return None if "ok" not in out else "%s: empty input accepted" % fn
            e = [F(y) - F(x) if fn == "generate" else F(x) + F(y) for x, y in zip(c["a"], c["b"])]
            return None if "ok" in out and gc.closel(ok, e) else "%s: %s" % (fn, out)
        if fn == "mean":
            vs = c["vs"]
            e = [sum(F(v[j]) for v in vs) / len(vs) for j in range(len(vs[0]))]
            return None if "ok" in out and gc.closel(ok, e) else "vector_mean: %s" % (out,)
        if fn == "iszero":
            e = all(abs(F(x)) < F(TOL8) for x in c["a"])
            return None if "ok" in out and bool(ok) == e else "vector_is_zero: %s" % (out,)
        if fn == "mid":
            if len(c["a"]) != len(c["b"]):
                return None if "ok" not in out else "point_mid: dimension mismatch accepted"
            e = [(F(x) + F(y)) / 2 for x, y in zip(c["a"], c["b"])]
            return None if "ok" in out and gc.closel(ok, e) else "point_mid: %s" % (out,)
        return None

    def nontrivial(self, c, out):
        return "ok" in out

    def stratum(self, c, out):
        return "%s/%s/%s" % (c["fn"], c["kind"], "ok" if "ok" in out else ("rej" if "rej" in out else "crash"))


# ------------------------------------------------------------------ plain LU family
class PlainLU(Family):
    name = "lu"
    imports = ("Model.LinAlg", "Run.LinAlgH")
    count = {"quick": 180, "thorough": 2000}
    has_oracle = True
    WANTS = ["plain", "sdd", "colloc", "plain", "sdd", "colloc", "zero", "singular", "noswap", "malformed"]

    def gen(self, rng, n):
        THOROUGH[0] = n >= self.count["thorough"]
        out = []
        i = 0
        while len(out) < n:
            want = self.WANTS[i % len(self.WANTS)]
            i += 1
            size = 1 + (i * 7 + rng.randint(0, 7)) % 8
            if want == "malformed":
                M = rand_matrix(rng, size, "int")
                b = rhs(rng, size)
                r = rng.random()
                if r < 0.3:
                    M[rng.randrange(size)].append(1)
                    mal = "nonsquare"
                elif r < 0.55:
                    b = b + [list(b[0])]
                    mal = "rhs-long"
                elif r < 0.8:
                    b = []
                    mal = "rhs-empty"
                else:
                    M = M[:-1] if size > 1 else [[1, 2]]
                    mal = "nonsquare"
                out.append({"A": M, "b": b, "info": {"want": want, "mal": mal, "kind": "int", "lu": "n/a"}})
                continue
            if want in ("zero", "singular") and size == 1 and want == "zero":
                continue
            M, info = gen_matrix(rng, size, want, pivoted=False, allow_scale=True)
            if M is None:
                continue
            b = rhs(rng, size)
            if "scale" in info:
                b = [[float(x) * info["scale"] for x in row] for row in b]     # the solution keeps its ordinary magnitude
            out.append({"A": M, "b": b, "info": info})
        return out

    def impl(self, c):
        clear_caches()
        A, b = c["A"], c["b"]
        res = {"lu": call(lambda: tolist(linalg.lu_decomposition(A))), "solve": call(lambda: linalg.lu_solve(A, b))}
        if "ok" in res["lu"] and b and len(b) == len(A):
            L, U = res["lu"]["ok"]
            col = [r[0] for r in b]
            res["fwd"] = call(linalg.forward_substitution, L, col)
            if "ok" in res["fwd"]:
                res["bwd"] = call(linalg.backward_substitution, U, res["fwd"]["ok"])
        if b and len(b) == len(A) and c["info"].get("want") != "malformed":
            # general triangular systems (non-unit diagonal) cut out of A
            Lg, Ug = tri_parts(A)
            col = [r[0] for r in b]
            res["fwd2"] = call(linalg.forward_substitution, Lg, col)
            res["bwd2"] = call(linalg.backward_substitution, Ug, col)
        return {"ok": res}

    def coq(self, c, out):
        o = out["ok"]
        A, b = c["A"], c["b"]
        if c["info"]["lu"] == "zero":
            # after a zero pivot the float factors are not comparable (0/0 handling); only the outcome of the solver is
            return "(res_cmp closeLL (lu_solve Qops %s %s) %s)" % (G.qll(A), G.qll(b), G.res(o["solve"], G.sll))
        parts = ["res_cmp cmp_lu (lu_decomposition Qops %s) %s" % (G.qll(A), G.res(o["lu"], lambda lu: "(%s, %s)" % (G.sll(lu[0]), G.sll(lu[1])))),
                 "res_cmp closeLL (lu_solve Qops %s %s) %s" % (G.qll(A), G.qll(b), G.res(o["solve"], G.sll))]
        if "fwd" in o:
            L, U = o["lu"]["ok"]
            col = [r[0] for r in b]
            parts.append("res_cmp closeL (forward_substitution Qops %s %s) %s" % (G.qll(L), G.ql(col), G.res(o["fwd"], G.sl)))
            if "bwd" in o:
                parts.append("res_cmp closeL (backward_substitution Qops %s %s) %s" % (G.qll(U), G.ql(o["fwd"]["ok"]), G.res(o["bwd"], G.sl)))
        if "fwd2" in o:
            Lg, Ug = tri_parts(A)
            col = [r[0] for r in b]
            parts.append("res_cmp closeL6 (forward_substitution Qops %s %s) %s" % (G.qll(Lg), G.ql(col), G.res(o["fwd2"], G.sl)))
            parts.append("res_cmp closeL6 (backward_substitution Qops %s %s) %s" % (G.qll(Ug), G.ql(col), G.res(o["bwd2"], G.sl)))
        e = parts[0]
        for p in parts[1:]:
            e = "andb (%s) (%s)" % (e, p)
        return "(" + e + ")"

    def coq_show(self, c, out):
        return "(lu_decomposition Qops %s, lu_solve Qops %s %s)" % (G.qll(c["A"]), G.qll(c["A"]), G.qll(c["b"]))

    def oracle(self, c, out):
        o = out["ok"]
        info = c["info"]
        A, b = c["A"], c["b"]
        if info["want"] == "malformed":
            return None
        n = len(A)
        if "ok" not in o["lu"]:
            return "lu: lu_decomposition failed on a square matrix: %s" % (o["lu"],)
        L, U = o["lu"]["ok"]
        if info["lu"] == "ok":
            for i in range(n):
                for j in range(n):
                    if (j > i and L[i][j] != 0) or (i == j and L[i][j] != 1) or (j < i and U[i][j] != 0):
                        return "lu-triangular: L is not unit lower / U is not upper triangular at (%d,%d)" % (i, j)
            m = resid_msg("lu-product (X=U, B=A)", L, U, A)
            if m:
                return m
            if "ok" not in o["solve"]:
                if info["want"] in ("sdd", "colloc"):
                    return "solve-returns: lu_solve returned no result for a %s matrix: %s" % (
                        "strictly diagonally dominant" if info["want"] == "sdd" else "spline collocation", o["solve"])
                return None   # the property only speaks about returned results
        if "ok" in o["solve"] and not info.get("singular"):
            m = resid_msg("solve", A, o["solve"]["ok"], b)
            if m:
                return m
        if "ok" in o.get("fwd", {}):
            y = o["fwd"]["ok"]
            m = resid_msg("forward-substitution", L, [[v] for v in y], [[r[0]] for r in b])
            if m and info["lu"] == "ok":
                return m
            if "ok" in o.get("bwd", {}) and info["lu"] == "ok":
                m = resid_msg("backward-substitution", U, [[v] for v in o["bwd"]["ok"]], [[v] for v in y])
                if m:
                    return m
        if "fwd2" in o:
            Lg, Ug = tri_parts(A)
            col = [[r[0]] for r in b]
            for key, T, lab in (("fwd2", Lg, "forward-substitution (general L)"), ("bwd2", Ug, "backward-substitution (general U)")):
                if "ok" not in o[key]:
                    return "%s: no result for a triangular matrix with non-zero diagonal: %s" % (lab, o[key])
                m = resid_msg(lab, T, [[v] for v in o[key]["ok"]], col, F(1, 10 ** 6))
                if m:
                    return m
        return None

    def nontrivial(self, c, out):
        return "ok" in out["ok"]["solve"] and len(c["A"]) >= 2

    def stratum(self, c, out):
        i = c["info"]
        return "%s/n%d/%s/%s" % (i["want"], len(c["A"]), i.get("kind"), "ok" if "ok" in out["ok"]["solve"] else ("rej" if "rej" in out["ok"]["solve"] else "crash"))


# ------------------------------------------------------------------ call sequences
OPS = ["identity", "pivot", "inverse", "det", "factor", "solve"]


def render_op(op):
    k = op["op"]
    if k == "identity":
        return "@OpIdentity Q %s" % G.n(op["n"])
    if k == "pivot":
        return "OpPivot %s" % G.qll(op["m"])
    if k == "inverse":
        return "OpInverse %s" % G.qll(op["m"])
    if k == "det":
        return "OpDet %s" % G.qll(op["m"])
    if k == "factor":
        return "OpFactor %s %s" % (G.qll(op["m"]), G.qll(op["b"]))
    return "OpSolve %s %s" % (G.qll(op["m"]), G.qll(op["b"]))


def run_op(op):
    k = op["op"]
    if k == "identity":
        return linalg.matrix_identity(op["n"])
    if k == "pivot":
        return linalg.matrix_pivot(op["m"], sign=True)
    if k == "inverse":
        return linalg.matrix_inverse(op["m"])
    if k == "det":
        return linalg.matrix_determinant(op["m"])
    if k == "factor":
        return linalg.lu_factor(op["m"], op["b"])
    return linalg.lu_solve(op["m"], op["b"])


def render_out(op, o):
    """implementation outcome -> res (list (list (list Z)))"""
    def f(v):
        k = op["op"]
        if k == "pivot":
            return "[%s; %s; [[%d]%%Z]]" % (G.sll(v[0]), G.sll(v[1]), G.scaled(v[2]))
        if k == "det":
            return "[[[%d]%%Z]]" % G.scaled(v)
        return "[%s]" % G.sll(v)
    return G.res(o, f)


def op_oracle(op, o, label=""):
    """property statement for one answer"""
    k = op["op"]
    info = op.get("info", {})
    if k == "identity":
        n = op["n"]
        if "ok" not in o or tolist(o["ok"]) != [[1.0 if i == j else 0.0 for i in range(n)] for j in range(n)]:
            return "identity%s: matrix_identity(%d) returned %s" % (label, n, o)
        return None
    M = op["m"]
    n = len(M)
    if k == "pivot":
        if "ok" not in o:
            return "pivot%s: failed %s" % (label, o)
        mp, p, sg = o["ok"]
        if len(p) != n or any(len(r) != n for r in p) or any(x not in (0, 1) for r in p for x in r) \
                or any(sum(r) != 1 for r in p) or any(sum(p[i][j] for i in range(n)) != 1 for j in range(n)):
            return "pivot-permutation%s: P is not a permutation matrix: %s" % (label, p)
        if len(mp) != n or any(len(r) != n for r in mp) or fr(mp) != matmul(fr(p), fr(M)):
            return "pivot-product%s: returned matrix is not P*M: %s" % (label, mp)
        sigma = [r.index(1) for r in p]
        if sg != perm_sign(sigma):
            return "pivot-sign%s: sign %r but det(P) = %d" % (label, sg, perm_sign(sigma))
        return None
    if info.get("singular"):
        return None
    if k == "inverse":
        if "ok" not in o:
            return None   # the property only speaks about returned results
        return resid_msg("inverse%s (A*A^-1 = I)" % label, M, o["ok"], [[1 if i == j else 0 for j in range(n)] for i in range(n)])
    if k == "det":
        if "ok" not in o:
            return "det%s: failed %s" % (label, o)
        e = det_exact(M)
        if abs(F(o["ok"]) - e) > F(1, 10 ** 8) * max(1, abs(e)):
            return "det-leibniz%s: matrix_determinant = %r, Leibniz formula gives %r" % (label, o["ok"], float(e))
        return None
    if k in ("factor", "solve"):
        if "ok" not in o:
            if k == "solve" and info.get("want") in ("sdd", "colloc"):
                return "solve-returns%s: lu_solve returned no result for a %s matrix" % (label, info["want"])
            return None   # the property only speaks about returned results
        return resid_msg("%s%s (A*x = b)" % (k, label), M, o["ok"], op["b"])
    return None


class Sequences(Family):
    name = "seq"
    imports = ("Model.LinAlg", "Run.LinAlgH")
    count = {"quick": 210, "thorough": 2500}
    has_oracle = True
    timeout = 60

    def gen_op(self, rng, n):
        k = rng.choice(OPS + ["pivot", "inverse"])
        if k == "identity":
            return {"op": k, "n": n}
        pivoted = k != "solve"
        r = rng.random()
        if n == 1:
            want = "plain" if r < 0.85 else "singular"
        elif k == "solve":
            want = "sdd" if r < 0.35 else "colloc" if r < 0.6 else "plain" if r < 0.85 else "zero" if r < 0.93 else "singular"
        elif k == "det":
            want = "swap" if r < 0.45 else "noswap" if r < 0.65 else "plain" if r < 0.9 else "singular"
        else:
            want = "swap" if r < 0.45 else "noswap" if r < 0.65 else "plain" if r < 0.85 else "zero" if r < 0.92 else "singular"
        if k == "pivot" and want in ("zero", "singular"):
            want = "swap"
        M, info = gen_matrix(rng, n, want, pivoted)
        if M is None:
            M, info = gen_matrix(rng, n, "sdd", pivoted)
        op = {"op": k, "m": M, "info": info}
        if k in ("factor", "solve"):
            op["b"] = rhs(rng, n)
        return op

    def gen(self, rng, n):
        THOROUGH[0] = n >= self.count["thorough"]
        out = []
        for i in range(n):
            length = 1 + i % 6
            base = 1 + (i // 6 + rng.randint(0, 1)) % 8
            ops = []
            for t in range(length):
                sz = base if rng.random() < 0.75 else rng.randint(1, 8)
                ops.append(self.gen_op(rng, sz))
            out.append({"ops": ops})
        return out

    def impl(self, c):
        clear_caches()
        raw, res = [], []
        for op in c["ops"]:
            r = call(run_op, op)
            raw.append(r.get("ok"))
            res.append(copy.deepcopy({k: tolist(v) for k, v in r.items()}))
        # values handed out earlier must not have been changed by later calls
        mutated = [i for i, (r, s) in enumerate(zip(raw, res)) if "ok" in s and tolist(r) != s["ok"]]
        fresh = []
        for op in c["ops"]:
            clear_caches()
            fresh.append({k: tolist(v) for k, v in call(run_op, op).items()})
        clear_caches()
        return {"ok": {"res": res, "fresh": fresh, "mutated": mutated}}

    def coq(self, c, out):
        res = out["ok"]["res"]
        return "(all2 (res_cmp closeLLL) (run_seq (step_fixed Qops) [] [%s]) [%s])" % (
            "; ".join(render_op(op) for op in c["ops"]),
            "; ".join(render_out(op, o) for op, o in zip(c["ops"], res)))

    def coq_show(self, c, out):
        return "(run_seq (step_fixed Qops) [] [%s])" % "; ".join(render_op(op) for op in c["ops"])

    def oracle(self, c, out):
        o = out["ok"]
        for i, (op, r, f) in enumerate(zip(c["ops"], o["res"], o["fresh"])):
            m = op_oracle(op, r, " (call %d of %d)" % (i + 1, len(c["ops"])))
            if m:
                return m
            if ("ok" in r) != ("ok" in f) or ("ok" in r and r["ok"] != f["ok"]):
                return "history: call %d (%s) returned %s after the preceding calls but %s in a fresh state" % (
                    i + 1, op["op"], str(r)[:200], str(f)[:200])
        if o["mutated"]:
            return "history-alias: the value returned by call %d was modified by a later call" % (o["mutated"][0] + 1)
        return None

    def nontrivial(self, c, out):
        return any("ok" in r and (op["op"] == "identity" or len(op["m"]) >= 2) for op, r in zip(c["ops"], out["ok"]["res"]))

    def stratum(self, c, out):
        ops = c["ops"]
        sw = sum(1 for op in ops if op.get("info", {}).get("swap"))
        sizes = len(set(op["n"] if op["op"] == "identity" else len(op["m"]) for op in ops))
        return "len%d/swaps%d/sizes%d" % (len(ops), min(sw, 3), sizes)


# ------------------------------------------------------------------ non-singular matrices with a vanishing leading minor
class DetZeroMinor(Family):
    """matrix_determinant on non-singular matrices whose row-exchanged form still has a zero Doolittle pivot"""
    name = "det_zero_minor"
    imports = ("Model.LinAlg", "Run.LinAlgH")
    count = {"quick": 12, "thorough": 100}
    has_oracle = True

    def gen(self, rng, n):
        out = []
        while len(out) < n:
            size = rng.randint(3, 6)
            M, info = gen_matrix(rng, size, "zero", True)
            if M is not None:
                out.append({"m": M, "zero_minor": True, "info": info})
        return out

    def impl(self, c):
        clear_caches()
        return call(linalg.matrix_determinant, c["m"])

    def coq(self, c, out):
        return "(res_cmp closeQ (matrix_determinant Qops %s) %s)" % (G.qll(c["m"]), G.res(out, lambda x: G.z(G.scaled(x))))

    def oracle(self, c, out):
        return op_oracle({"op": "det", "m": c["m"], "info": c["info"]}, out)

    def stratum(self, c, out):
        return "n%d" % len(c["m"])


def families():
    return [Helpers(), PlainLU(), Sequences(), DetZeroMinor()]
