"""C19 - equality of shapes is an equivalence that tracks the definition."""
import io, contextlib, copy
from fractions import Fraction as F
from core import Family, call
import gal as G
import gencommon as gc
from geomdl import NURBS, BSpline, compatibility

RULE = ("pairs (a, b) of curves / surfaces / volumes, rational and non-rational, precision in {default 18, 3, 6, 9}: b differs from a in "
        "exactly one component (a control point coordinate, a weight, a knot, a degree, a size, the parametric kind, the rationality) by "
        "0, tol/2, 2*tol or a large amount, or in none; plus comparisons with non-geometry objects and deep copies; both a == b, b == a, "
        "a != b, b != a, a == a and a == deepcopy(a) are evaluated; half of the shapes carry metadata (small non-zero id given as keyword or by the setter, coinciding "
        "with a degree / size / the parametric dimension, name, opt entries), the copy must keep definition and metadata; non-trivial = both shapes were built; distinct by case hash")
ASSUMPTIONS = ["__eq__ is checked as repaired by fixes/C19-eq-tolerance.diff and fixes/C19-eq-ctrlpts-result.diff: the comparison tolerance is 10 ** -precision",
               "both operands have the same precision (symmetry is only claimed then)",
               "float subtraction of the compared components is exact for the generated data (Sterbenz), so the exact model takes the same branch"]
THEOREM_NOTES = ("coq/Props/C19.v: eq_refl, eq_sym, deepcopy_eq, eq_implies_components_close, eq_wf_same_layout, component change >= tol implies "
                 "not equal for coordinate/weight, knot, degree, size, kind, rationality, ne = negb eq: all [G] over the reals on the repaired "
                 "model; eq_pinned_refuted: the pinned comparison accepts different control points")
LEVEL_TEXT = ("Coq theorems [G] about the Gallina model Model/Equal.v of the repaired SplineGeometry.__eq__/__ne__ (reflexive, symmetric, deep copy "
              "equal, equal only if all definition components agree within 10**-precision, any component change >= tol gives unequal, != is "
              "the negation); the model is tied to /repo by a correspondence family over single-component perturbations evaluated in Coq")
TECHNIQUE = "machine-checked proof in Coq over a hand-written Gallina model + model/implementation correspondence check evaluated by coqc (vm_compute) + exact Fraction oracle"


def quiet(fn, *a, **kw):
    with contextlib.redirect_stdout(io.StringIO()):
        return fn(*a, **kw)


def rand_shape(rng, kind, rational):
    pd = {"curve": 1, "surface": 2, "volume": 3}[kind]
    dim = rng.choice([2, 3]) if pd == 1 else 3
    degs, sizes, kvs = [], [], []
    for d in range(pd):
        p = rng.randint(1, 3 if pd < 3 else 2)
        nint = rng.choice([1, 2, 3]) if pd < 3 else rng.choice([1, 2])
        U, _ = gc.knotvector(rng, p, kind=rng.choice(["uniform", "mult"]), nint=nint)
        degs.append(p)
        kvs.append(U)
        sizes.append(len(U) - p - 1)
    n = 1
    for s in sizes:
        n *= s
    pts = gc.points(rng, n, dim, grid=4, lim=8)
    if rational:
        pts = compatibility.combine_ctrlpts_weights(pts, gc.weights(rng, n))
    return {"kind": kind, "rational": rational, "degs": degs, "kvs": kvs, "sizes": sizes, "cp": pts}


def apply_meta(o, meta):
    """object metadata that is not part of the definition: id, name, opt"""
    if not meta:
        return
    if meta.get("via") == "setter":
        o.id = meta["id"]
    o.name = meta["name"]
    for k, v in meta["opt"]:
        o.opt = [k, v]


def build(sh, precision=None, normalize=True, rational=None, meta=None):
    rational = sh["rational"] if rational is None else rational
    mod = NURBS if rational else BSpline
    kw = {}
    if meta and meta.get("via") == "kwarg":
        kw["id"] = meta["id"]
    if precision is not None:
        kw["precision"] = precision
    if not normalize:
        kw["normalize_kv"] = False
    kind = sh["kind"]
    if kind == "curve":
        o = mod.Curve(**kw)
        o.degree = sh["degs"][0]
        o.set_ctrlpts(copy.deepcopy(sh["cp"]))
        o.knotvector = list(sh["kvs"][0])
    else:
        o = (mod.Surface if kind == "surface" else mod.Volume)(**kw)
        # the three equivalent ways of stating the degrees: per direction, as one list, through the orders
        how = sum(sh["degs"]) % 3
        if how == 0:
            for d, p in zip("uvw", sh["degs"]):
                setattr(o, "degree_" + d, p)
        elif how == 1:
            o.degree = list(sh["degs"])
        else:
            for d, p in zip("uvw", sh["degs"]):
                setattr(o, "order_" + d, p + 1)
        o.set_ctrlpts(copy.deepcopy(sh["cp"]), *sh["sizes"])
        if sum(sh["sizes"]) % 2:
            o.knotvector = [list(k) for k in sh["kvs"]]
        else:
            for d, k in zip("uvw", sh["kvs"]):
                setattr(o, "knotvector_" + d, list(k))
    apply_meta(o, meta)
    return o


def defn(o):
    """definition read back through public getters"""
    pd = o.pdimension
    orders = [int(o.order)] if pd == 1 else [int(getattr(o, "order_" + d)) for d in "uvw"[:pd]]
    degs = [int(o.degree)] if pd == 1 else [int(x) for x in o.degree]
    if orders != [d + 1 for d in degs]:
        raise RuntimeError("order getters %s are not degree + 1 for degrees %s" % (orders, degs))
    return {"pdim": pd, "rat": bool(o.rational), "size": [int(x) for x in o.cpsize],
            "deg": [int(o.degree)] if pd == 1 else [int(x) for x in o.degree],
            "kv": [list(o.knotvector)] if pd == 1 else [list(k) for k in o.knotvector],
            "cp": copy.deepcopy(o.ctrlptsw if o.rational else o.ctrlpts)}


def shape_term(d):
    return "(mkShape %s %s %s %s %s %s)" % (G.n(d["pdim"]), G.b(d["rat"]), G.nl(d["size"]), G.nl(d["deg"]), G.qll(d["kv"]), G.qll(d["cp"]))


def delta_value(tol, how):
    return {"zero": 0.0, "half": tol / 2.0, "double": tol * 2.0, "big": 5.0, "mid": 0.03125}[how]


class Eq(Family):
    name = "eq"
    imports = ("Model.Equal",)
    count = {"quick": 260, "thorough": 3000}
    has_oracle = True

    def gen(self, rng, n):
        out = []
        comps = ["none", "coord", "coord", "weight", "knot", "knot", "degree", "size", "kind", "rational", "nonshape"]
        for i in range(n):
            kind = ("curve", "surface", "volume")[i % 3]
            rational = (i // 3) % 2 == 0
            comp = comps[(i // 6) % len(comps)]
            if comp == "weight" and not rational:
                comp = "coord"
            if comp == "rational":
                rational = True
            sh = rand_shape(rng, kind, rational)
            c = {"shape": sh, "comp": comp, "precision": None, "how": "zero", "normalize": True, "meta": None, "meta_b": None,
                 "idiom": comp == "weight" and (i // 66) % 2 == 0}
            if (i // 3) % 2 == 1 or comp == "none":
                # small non-zero ids that coincide with a degree, a size or the parametric dimension (CPython shares small ints)
                cand = [len(sh["degs"]), sh["degs"][0], sh["sizes"][0], sh["degs"][-1], sh["sizes"][-1]] + [rng.randint(1, 6)]
                c["meta"] = {"id": int(rng.choice(cand)), "via": rng.choice(["kwarg", "setter"]), "name": rng.choice(["crv", "part-7", ""]),
                             "opt": [["face_id", rng.randint(1, 6)], ["tag", "x"]][:rng.randint(0, 2)]}
                c["meta_b"] = {"id": int(rng.randint(1, 6)), "via": "setter", "name": "other", "opt": []}
            if comp in ("coord", "weight", "knot"):
                c["how"] = rng.choice(["zero", "half", "double", "double", "big" if comp != "knot" else "mid"])
                if c["how"] in ("half", "double"):
                    c["precision"] = rng.choice([3, 6, 9])
                else:
                    c["precision"] = rng.choice([None, None, 6])
                if comp == "knot":
                    c["normalize"] = rng.random() < 0.5
                    # an interior knot index (keeps the vector valid: distinct neighbours are >= 1/16 apart)
                    d = rng.randrange(len(sh["degs"]))
                    U, p = sh["kvs"][d], sh["degs"][d]
                    cand = [j for j in range(p + 1, len(U) - p - 1)]
                    # the largest index of a run of equal knots may be increased
                    cand = [j for j in cand if U[j + 1] > U[j]]
                    c["dir"], c["idx"] = d, rng.choice(cand)
                else:
                    c["pt"] = rng.randrange(len(sh["cp"]))
                    c["co"] = len(sh["cp"][0]) - 1 if comp == "weight" else rng.randrange(len(sh["cp"][0]) - (1 if rational else 0))
                    if rng.random() < 0.3 and comp == "coord":
                        sh["cp"][c["pt"]][c["co"]] = 0.0
            elif comp in ("degree", "size"):
                c["dir"] = rng.randrange(len(sh["degs"]))
            elif comp == "kind":
                other = rng.choice([k for k in ("curve", "surface", "volume") if k != kind])
                c["other"] = rand_shape(rng, other, rational)
            elif comp == "nonshape":
                c["value"] = rng.choice([5, None, "curve", [1, 2], 0.0])
            out.append(c)
        return out

    def _tol(self, c):
        prec = 18 if c["precision"] is None else c["precision"]
        return 10 ** (-prec)

    def impl(self, c):
        def run():
            sh = c["shape"]
            a = build(sh, c["precision"], c["normalize"], meta=c.get("meta"))
            comp = c["comp"]
            tol = self._tol(c)
            if comp == "nonshape":
                v = c["value"]
                return {"nonshape": [a == v, a != v], "eq_aa": a == a, "ne_aa": a != a, "def_a": defn(a)}
            if comp == "kind":
                b = build(c["other"], c["precision"])
            elif comp == "rational":
                b = build(sh, c["precision"], c["normalize"], rational=not sh["rational"])
            else:
                sh2 = copy.deepcopy(sh)
                d = delta_value(tol, c["how"])
                if comp in ("coord", "weight"):
                    sh2["cp"][c["pt"]][c["co"]] = sh["cp"][c["pt"]][c["co"]] + d
                elif comp == "knot":
                    sh2["kvs"][c["dir"]][c["idx"]] = sh["kvs"][c["dir"]][c["idx"]] + d
                b = build(sh2, c["precision"], c["normalize"], meta=c.get("meta_b"))
                if comp == "weight" and c.get("idiom") and sh["cp"][c["pt"]][-1] + d > 0:
                    # the weight is changed on a deep copy through the read-modify-write idiom of the weights view
                    b = copy.deepcopy(a)
                    w = b.weights
                    w[c["pt"]] = sh["cp"][c["pt"]][-1] + d
                    b.weights = w
                if comp == "degree":
                    if sh["kind"] == "curve":
                        b.degree = sh["degs"][0] + 1
                    else:
                        setattr(b, "degree_" + "uvw"[c["dir"]], sh["degs"][c["dir"]] + 1)
                elif comp == "size":
                    sz = list(b.cpsize)
                    sz[c["dir"]] += 1
                    if sh["kind"] != "curve" and sum(sz) % 2:
                        setattr(b, "ctrlpts_size_" + "uvw"[c["dir"]], sz[c["dir"]])     # the per-direction setter
                    else:
                        b.cpsize = sz
            cp = copy.deepcopy(a)
            meta_ok = (cp.id == a.id and cp.name == a.name and cp.opt == a.opt and cp.pdimension == a.pdimension and cp.rational == a.rational)
            res = {"meta_ok": meta_ok, "eq_ab": a == b, "eq_ba": b == a, "ne_ab": a != b, "ne_ba": b != a, "eq_aa": a == a, "ne_aa": a != a,
                   "eq_copy": a == cp, "eq_copy_rev": cp == a, "ne_copy": a != cp,
                   "def_a": defn(a), "def_b": defn(b), "def_copy": defn(cp)}
            # a second copy is edited IN PLACE through the lists its getters hand out (last knot of one direction + 1/8, first
            # coordinate of the first control point + 1): the source must keep its definition and the two must now differ
            cp2 = copy.deepcopy(a)
            dsel = c.get("dir", 0) % a.pdimension
            kv = cp2.knotvector if a.pdimension == 1 else cp2.knotvector[dsel]
            if c["comp"] in ("knot", "none", "degree"):
                kv[-1] = kv[-1] + 0.125
            else:
                pts = cp2.ctrlptsw if a.rational else cp2.ctrlpts
                pts[0][0] = pts[0][0] + 1.0
            res.update({"def_a2": defn(a), "def_cp2": defn(cp2), "eq_cp2": a == cp2, "eq_cp2_rev": cp2 == a})
            return res
        return call(quiet, run)

    def coq(self, c, out):
        if "ok" not in out:
            return None
        o = out["ok"]
        tol = G.Q(self._tol(c))
        lets = "let A := %s in " % shape_term(o["def_a"])
        parts = ["Bool.eqb (shape_eq Qops tl A A) %s" % G.b(o["eq_aa"]),
                 "Bool.eqb (shape_ne Qops tl A A) %s" % G.b(o["ne_aa"])]
        if "def_b" in o:
            lets += "let B := %s in " % shape_term(o["def_b"])
            if o["def_copy"] == o["def_a"]:
                lets += "let Cp := A in "
            else:
                lets += "let Cp := %s in " % shape_term(o["def_copy"])
            parts += ["Bool.eqb (shape_eq Qops tl A B) %s" % G.b(o["eq_ab"]),
                      "Bool.eqb (shape_eq Qops tl B A) %s" % G.b(o["eq_ba"]),
                      "Bool.eqb (shape_ne Qops tl A B) %s" % G.b(o["ne_ab"]),
                      "Bool.eqb (shape_ne Qops tl B A) %s" % G.b(o["ne_ba"]),
                      "Bool.eqb (shape_eq Qops tl A Cp) %s" % G.b(o["eq_copy"])]
            if "def_cp2" in o:
                lets += "let A2 := %s in let Cp2 := %s in " % ("A" if o["def_a2"] == o["def_a"] else shape_term(o["def_a2"]), shape_term(o["def_cp2"]))
                parts += ["Bool.eqb (shape_eq Qops tl A2 Cp2) %s" % G.b(o["eq_cp2"]),
                          "Bool.eqb (shape_eq Qops tl Cp2 A2) %s" % G.b(o["eq_cp2_rev"])]
        e = parts[0]
        for q_ in parts[1:]:
            e = "andb (%s) (%s)" % (e, q_)
        return "(let tl := %s in %s%s)" % (tol, lets, e)

    @staticmethod
    def _maxdiff(da, db):
        """None if the structures differ, else the largest component difference (exact)"""
        if (da["pdim"], da["rat"], da["size"], da["deg"]) != (db["pdim"], db["rat"], db["size"], db["deg"]):
            return None
        m = F(0)
        for key in ("kv", "cp"):
            if len(da[key]) != len(db[key]):
                return None
            for x, y in zip(da[key], db[key]):
                if len(x) != len(y):
                    return None
                for s, t in zip(x, y):
                    m = max(m, abs(F(s) - F(t)))
        return m

    def oracle(self, c, out):
        if "ok" not in out:
            return "eq: building or comparing raised: %s" % (out,)
        o = out["ok"]
        if o["eq_aa"] is not True:
            return "reflexive: a == a is %r" % (o["eq_aa"],)
        if o["ne_aa"] is not False:
            return "ne-negation: a != a is %r" % (o["ne_aa"],)
        if "nonshape" in o:
            if o["nonshape"] != [False, True]:
                return "nonshape: comparison with %r gives ==:%r !=:%r" % (c["value"], o["nonshape"][0], o["nonshape"][1])
            return None
        if o["eq_copy"] is not True or o["eq_copy_rev"] is not True or o["ne_copy"] is not False:
            return "deepcopy: a == deepcopy(a) is %r (reverse %r, != %r); metadata %s" % (o["eq_copy"], o["eq_copy_rev"], o["ne_copy"], c.get("meta"))
        if o["def_copy"] != o["def_a"]:
            diff = [k for k in o["def_a"] if o["def_a"][k] != o["def_copy"][k]]
            return "deepcopy: the copy's definition differs from the source in %s (metadata %s)" % (diff, c.get("meta"))
        if not o["meta_ok"]:
            return "deepcopy: id / name / opt / kind of the copy differ from the source (metadata %s)" % (c.get("meta"),)
        if o["eq_ab"] != o["eq_ba"]:
            return "symmetric: a == b is %r but b == a is %r" % (o["eq_ab"], o["eq_ba"])
        if c.get("idiom") and c["comp"] == "weight" and c["how"] in ("double", "big") and o["eq_ab"]:
            return "weight-idiom: a weight of a deep copy was changed by %s (tolerance %s) through w = copy.weights; w[i] = ...; copy.weights = w, the shapes still compare equal" % (
                delta_value(self._tol(c), c["how"]), self._tol(c))
        if "def_cp2" in o:
            if o["def_a2"] != o["def_a"]:
                diff = [k for k in o["def_a"] if o["def_a"][k] != o["def_a2"][k]]
                return "deepcopy-independent: editing a deep copy in place (through the list its getter returns) changed the source's %s" % (diff,)
            md2 = self._maxdiff(o["def_a2"], o["def_cp2"])
            exp2 = md2 is not None and md2 < F(1, 10 ** (18 if c["precision"] is None else c["precision"]))
            if o["eq_cp2"] != exp2 or o["eq_cp2_rev"] != exp2:
                return "deepcopy-edit: after editing the copy (largest component difference %s) a == copy is %r, copy == a is %r" % (
                    md2, o["eq_cp2"], o["eq_cp2_rev"])
        if o["ne_ab"] != (not o["eq_ab"]) or o["ne_ba"] != (not o["eq_ba"]):
            return "ne-negation: a == b is %r, a != b is %r" % (o["eq_ab"], o["ne_ab"])
        prec = 18 if c["precision"] is None else c["precision"]
        tol = F(1, 10 ** prec)
        md = self._maxdiff(o["def_a"], o["def_b"])
        if o["eq_ab"]:
            if md is None:
                return "equal-but-differ: a == b although kind / rationality / degree / size / lengths differ (%s)" % c["comp"]
            if md > tol:
                return "equal-but-differ: a == b although a %s differs by %s > tolerance %s" % (c["comp"], float(md), float(tol))
        return None

    def nontrivial(self, c, out):
        return "ok" in out

    def stratum(self, c, out):
        return "%s/%s/%s/%s%s" % (c["shape"]["kind"], "rat" if c["shape"]["rational"] else "nonrat", c["comp"], c["how"], "/meta" if c.get("meta") else "")


def families():
    return [Eq()]
