"""C04 - knot insertion never changes the shape."""
from fractions import Fraction as F
from core import Family, call
import gal as G
import gencommon as gc
from props import shapes_A as S
from geomdl import helpers, operations
from geomdl.exceptions import GeomdlException

TOL8 = S.TOL8

RULE = ("structured generator: kind {curve, surface, volume} x rational {no, yes} x every non-empty direction subset (plus the empty one) x "
        "parameter class {inside a span dyadic / non-dyadic, on an interior knot of multiplicity 1..p, domain end} x insertion count "
        "{1..p-s, too large, 0, negative, wrong-length list} x degrees 1..5 (curves) / 1..4 (surfaces) / 1..3 (volumes) x pairwise different "
        "sizes per direction x normalised / affine knot vectors; histories of 1..4 wrapper calls; non-trivial = the implementation "
        "performed at least one insertion (net grew); distinct by case hash")
ASSUMPTIONS = ["floating point rounding below 1e-9 is not observable",
               "knot vectors are clamped with interior multiplicities <= degree; parameters lie in the knot-vector domain",
               "insertion parameters are at least 1/128 away from every knot they do not coincide with (multiplicity tolerance 1e-7 is not probed)",
               "a multi-direction call in which one direction is inadmissible is only required to keep the evaluated shape (the property speaks of single-direction rejections)"]
THEOREM_NOTES = ("coq/Props/C04.v, all [G] (all degrees, all sorted knot vectors with any multiplicities, all parameters, all admissible counts): "
                 "knot_vector_spec; net_shape; single_insertion_is_boehm; single_insertion_preserves_curve; r_fold_is_iterated_single; "
                 "insertion_preserves_curve (any count); surface_v_is_rowwise / surface_u_is_columnwise; insertion_preserves_surface (u and v); "
                 "volume_is_fibrewise; insertion_preserves_volume (u, v, w); insert_knot_curve_correct (whole curve operation incl. span and "
                 "multiplicity search: rejected and unchanged, or same points); curve/surface states are the operation's; rejected_leaves_"
                 "curve/surface/volume_unchanged")
LEVEL_TEXT = ("Proof (Coq, reals) about the executable Gallina model of helpers.knot_insertion(_kv), operations.insert_knot and the object wrappers. "
              "General [G] theorems, no bound on degree, sizes, multiplicities or insertion count: the new knot vector is the old one plus exactly "
              "num copies of u in sorted position; the net grows by num, points left of the window are copied and right of it shifted; a single "
              "insertion computes Boehm's points and (Boehm's identity, proved for all degrees) leaves every curve point (Cox-de Boor sum, every "
              "homogeneous coordinate, hence rational shapes) unchanged; A5.1 with num = r+1 equals one more single insertion applied to the num = r "
              "result, hence every admissible count preserves the curve; surfaces (u: gather columns / flip_ctrlpts_u scatter, v: rows) and volumes "
              "(u, v, w: rows of points) are fibre-wise the curve algorithm (index maps proved) and every surface / volume point is unchanged in the "
              "direction of insertion while the other directions are untouched; the curve operation as a whole (span search, multiplicity search "
              "with the code's tolerance, check_num) either rejects exactly when num > degree - multiplicity and returns the curve unchanged, or "
              "preserves all points; an inadmissible single-direction insertion leaves curve, surface and volume (each direction) unchanged. "
              "Round 2 (Proofs/InsertOpSurf.v): the WHOLE operation on surfaces and volumes, any subset of directions, with the code's own span / "
              "multiplicity searches: raises exactly when a requested direction has an excess count, sizes grow by the counts in the requested "
              "directions only, other knot vectors untouched, every point unchanged (also when a later direction raises after an earlier one was applied). "
              "Only tied by the correspondence check + exact oracle (not Coq theorems): sequences of calls (composition of the per-call theorems), "
              "check_num=False, floating-point rounding, and that the evaluators compute the Cox-de Boor sums (C01).")
LEVEL_NOTE = ("Trusted: Coq 8.16.1 kernel incl. vm_compute; standard-library axioms of Reals (sig_forall_dec, functional_extensionality_dep) as "
              "printed by Print Assumptions; the hand-written model's fidelity is sampled by the correspondence check on every run (helpers, "
              "operations.insert_knot on curve/surface/volume x rational x all direction subsets, wrapper histories; 1e-9 tolerance); "
              "floating-point rounding is modelled as exact.")
# functions of the numerical core this property rests on that are also tied by the translator (tie theorems: Proofs/GenTie*.v, restated in Props/)
TRANSLATED = ["helpers.find_span_linear", "helpers.find_spans", "helpers.find_multiplicity", "helpers.knot_insertion_alpha", "helpers.knot_insertion", "helpers.knot_insertion_kv", "utilities.check_params"]
TECHNIQUE = ("Coq proof (Boehm's identity by induction on the degree; loop invariants of A5.1 over functional arrays; de Boor triangle closed form; "
             "index-map lemmas by lia/nia) on a Gallina model executed by vm_compute against geomdl outputs + exact Fraction before/after oracle")


# ------------------------------------------------------------------ generators
def pick_param(rng, kv, p, cls):
    """(parameter, class actually used).  kv clamped (possibly affine)."""
    n = len(kv) - p - 1
    lo, hi = kv[p], kv[n]
    interior = sorted(set(k for k in kv if lo < k < hi))
    if cls == "knot" and not interior:
        cls = "span"
    if cls == "knot":
        return rng.choice(interior), "knot"
    if cls == "end":
        return rng.choice([lo, hi]), "end"
    ds = sorted(set(kv))
    i = rng.randrange(len(ds) - 1)
    if cls == "span3":
        t = rng.choice([1 / 3.0, 0.3, 0.7, 0.6])
    else:
        t = rng.choice([0.5, 0.25, 0.75, 0.125, 0.875])
    return ds[i] + (ds[i + 1] - ds[i]) * t, cls


def pick_num(rng, p, s, want=None):
    """(num, class): valid 1..p-s, too large, zero"""
    room = p - s
    r = rng.random() if want is None else {"valid": 0.0, "big": 0.8, "zero": 0.99}[want]
    if r < 0.75 and room >= 1:
        # prefer covering every count 1..room
        return rng.randint(1, room), "valid"
    if r < 0.97 or room < 1:
        return max(room, 0) + rng.randint(1, 2), "big"
    return 0, "zero"


def gen_call(rng, kvs, degs, dirs=None, single_ok=None):
    """parameters and counts of one insert_knot call for the current knot vectors"""
    pd = len(kvs)
    if dirs is None:
        subsets = [[d for d in range(pd) if (m >> d) & 1] for m in range(1, 2 ** pd)]
        dirs = rng.choice(subsets) if rng.random() < 0.95 else []
    params, nums, cls = [None] * pd, [0] * pd, []
    for d in range(pd):
        if d in dirs:
            c = rng.choice(["span", "span", "span3", "knot", "knot", "knot", "end"]) if rng.random() < 0.97 else "end"
            u, c = pick_param(rng, kvs[d], degs[d], c)
            s = S.mult(kvs[d], u)
            num, nc = pick_num(rng, degs[d], s, single_ok)
            params[d], nums[d] = u, num
            cls.append("%s%s-%s" % (S.DIRS[d], c, nc))
        else:
            # direction not selected: either no parameter or a zero count
            if rng.random() < 0.3:
                params[d] = kvs[d][degs[d]] + (kvs[d][-1] - kvs[d][0]) * 0.5
                nums[d] = 0
            else:
                nums[d] = rng.choice([0, 1])
    return params, nums, "+".join(cls) or "none"


def predicted(kvs, degs, params, nums):
    """knot vectors after the call as the property demands (stops at the first inadmissible direction)"""
    kvs = [list(k) for k in kvs]
    for d in range(len(kvs)):
        if params[d] is not None and nums[d] > 0:
            if nums[d] > degs[d] - S.mult(kvs[d], params[d]):
                break
            kvs[d] = sorted(kvs[d] + [params[d]] * nums[d])
    return kvs


# ------------------------------------------------------------------ oracle (property statement)
def check_insert(before, after, params, nums, raised, check=True):
    """the property on one call: before/after are snapshots"""
    pd = before["pdim"]
    msg = S.structure_ok(after)
    if msg:
        return "structure: " + msg
    if any(n < 0 for n in nums) or len(nums) != pd:
        if not raised:
            return "reject: malformed insertion counts %s accepted" % (nums,)
        if after != before:
            return "reject-unchanged: rejected call modified the object"
        return None
    active = [d for d in range(pd) if params[d] is not None and nums[d] > 0]
    bad = [d for d in active if nums[d] > before["deg"][d] - S.mult(before["kv"][d], params[d])]
    if len(active) == 1 and bad:
        d = active[0]
        if not raised:
            return "reject: inserting %r %d times in direction %s (degree %d, multiplicity %d) was not rejected" % (
                params[d], nums[d], S.DIRS[d], before["deg"][d], S.mult(before["kv"][d], params[d]))
        if after != before:
            return "reject-unchanged: the rejected insertion modified the object"
        return None
    if not bad:
        if raised:
            return "accept: an admissible insertion %s x %s was rejected" % (params, nums)
        for d in range(pd):
            exp_kv = sorted(before["kv"][d] + ([params[d]] * nums[d] if d in active else []))
            if len(after["kv"][d]) != len(exp_kv) or any(abs(a - b) > 1e-14 * max(1.0, abs(b)) for a, b in zip(after["kv"][d], exp_kv)):
                return "knots: knot vector %s is %s, expected %s" % (S.DIRS[d], after["kv"][d], exp_kv)
            exp_size = before["size"][d] + (nums[d] if d in active else 0)
            if after["size"][d] != exp_size:
                return "size: size in direction %s is %d, expected %d" % (S.DIRS[d], after["size"][d], exp_size)
        if not active and after != before:
            return "noop: a call without insertions changed the object"
    else:
        if not raised:
            return "reject: inadmissible direction(s) %s accepted" % ([S.DIRS[d] for d in bad],)
    if after["deg"] != before["deg"] or after["rational"] != before["rational"]:
        return "degree: degrees changed"
    m = S.same_shape(before, after)
    if m:
        return "shape: " + m
    return None


def check_evals(before, evals):
    """the implementation's own evaluation after the operation against the exact shape before"""
    if not evals:
        return None
    ex = S.Exact(before)
    for prm, val in evals:
        if isinstance(val, dict):
            return "evaluate: evaluation after the operation failed at %s: %s" % (prm, val)
        e = ex.at([F(x) for x in prm])
        if not gc.closel(val, e, 1e-8):
            return "evaluate: evaluate_single(%s) = %s after the operation, the shape before gives %s" % (prm, val, [float(x) for x in e])
    return None


def probes(rng, kvs, degs, k=3):
    out = []
    for _ in range(k):
        out.append([kv[p] + (kv[len(kv) - p - 1] - kv[p]) * rng.choice([0.0, 0.125, 0.3, 0.5, 0.625, 0.9, 1.0]) for kv, p in zip(kvs, degs)])
    return out


def run_evals(obj, prms):
    out = []
    for prm in prms:
        r = call(lambda: S.quiet(obj.evaluate_single, prm[0] if obj.pdimension == 1 else tuple(prm)))
        out.append([prm, [float(x) for x in r["ok"]] if "ok" in r else r])
    return out


# ------------------------------------------------------------------ families
class Helper(Family):
    """helpers.knot_insertion / knot_insertion_kv / knot_insertion_alpha, points and rows of points"""
    name = "helper"
    imports = ("Model.Basis", "Model.KnotIns", "Model.InsertKnot", "Run.InsertKnotH")
    count = {"quick": 90, "thorough": 1200}
    has_oracle = True

    def gen(self, rng, n):
        out = []
        for i in range(n):
            p = 1 + i % 5 if i < 25 else rng.randint(1, 5)
            kv = S.clamped_kv(rng, p, rng.randint(0, 4), nondyadic=rng.random() < 0.2)
            if rng.random() < 0.25:
                a, b = rng.choice([2.0, 0.5, 4.0]), rng.choice([-1.0, 0.25, 3.0])
                kv = [a * k + b for k in kv]
            npts = len(kv) - p - 1
            u, cls = pick_param(rng, kv, p, rng.choice(["span", "span3", "knot", "knot"]))
            s = S.mult(kv, u)
            if p - s < 1:
                u, cls = pick_param(rng, kv, p, "span")
                s = 0
            num = 1 + (i % (p - s)) if i < 40 else rng.randint(1, p - s)
            rows = rng.random() < 0.3
            dim = rng.choice([1, 2, 3, 4])
            if rows:
                w = rng.randint(1, 3)
                P = [gc.points(rng, w, dim) for _ in range(npts)]
            else:
                P = gc.points(rng, npts, dim)
            out.append({"p": p, "U": kv, "P": P, "u": u, "num": num, "s": s, "rows": rows, "cls": cls,
                        "defaults": (not rows) and rng.random() < 0.3})
        return out

    def _span(self, c):
        return gc.exact_span(gc.fr(c["U"]), c["p"], len(c["P"]), F(c["u"]))

    def impl(self, c):
        k = self._span(c)

        def f():
            if c["defaults"]:
                Q = helpers.knot_insertion(c["p"], c["U"], c["P"], c["u"], num=c["num"])
            else:
                Q = helpers.knot_insertion(c["p"], c["U"], c["P"], c["u"], num=c["num"], s=c["s"], span=k)
            V = helpers.knot_insertion_kv(c["U"], c["u"], k, c["num"])
            al = helpers.knot_insertion_alpha(c["u"], tuple(c["U"]), k, 0, k - c["p"] + 1)
            return {"Q": Q, "V": V, "alpha": al}
        return call(f)

    def coq(self, c, out):
        if "ok" not in out:
            return None
        k = self._span(c)
        o = out["ok"]
        a = (G.n(c["p"]), G.ql(c["U"]))
        tail = (G.Q(c["u"]), G.n(c["num"]), G.n(c["s"]), G.n(k))
        if c["rows"]:
            e1 = "closeLLL (knot_insertion_rows Qops %s %s %s %s %s %s %s) %s" % (a + (G.qlll(c["P"]),) + tail + (G.slll(o["Q"]),))
        else:
            e1 = "closeLL (knot_insertion Qops %s %s %s %s %s %s %s) %s" % (a + (G.qll(c["P"]),) + tail + (G.sll(o["Q"]),))
        e2 = "closeL (knot_insertion_kv %s %s %s %s) %s" % (G.ql(c["U"]), G.Q(c["u"]), G.n(k), G.n(c["num"]), G.sl(o["V"]))
        e3 = "closeQ (ins_alpha Qops %s %s %s 0 %s) %s" % (G.ql(c["U"]), G.Q(c["u"]), G.n(k), G.n(k - c["p"] + 1), G.z(G.scaled(o["alpha"])))
        e4 = "andb (Nat.eqb (find_multiplicity Qops %s %s %s) %s) (Nat.eqb (find_span_linear Qops %s %s %s %s) %s)" % (
            G.Q(TOL8), G.Q(c["u"]), G.ql(c["U"]), G.n(c["s"]), G.n(c["p"]), G.ql(c["U"]), G.n(len(c["P"])), G.Q(c["u"]), G.n(k))
        return "(andb (andb (%s) (%s)) (andb (%s) (%s)))" % (e1, e2, e3, e4)

    def coq_show(self, c, out):
        k = self._span(c)
        if c["rows"]:
            return "(knot_insertion_rows Qops %s %s %s %s %s %s %s)" % (G.n(c["p"]), G.ql(c["U"]), G.qlll(c["P"]), G.Q(c["u"]), G.n(c["num"]), G.n(c["s"]), G.n(k))
        return "(knot_insertion Qops %s %s %s %s %s %s %s)" % (G.n(c["p"]), G.ql(c["U"]), G.qll(c["P"]), G.Q(c["u"]), G.n(c["num"]), G.n(c["s"]), G.n(k))

    def oracle(self, c, out):
        if "ok" not in out:
            return "helper: knot insertion failed on a valid input: %s" % (out,)
        o = out["ok"]
        p, U, P = c["p"], c["U"], c["P"]
        Q, V = o["Q"], o["V"]
        expV = sorted(U + [c["u"]] * c["num"])
        if V != expV:
            return "helper-kv: new knot vector %s expected %s" % (V, expV)
        if len(Q) != len(P) + c["num"]:
            return "helper-size: %d control points, expected %d" % (len(Q), len(P) + c["num"])
        if c["rows"]:
            if any(len(q) != len(P[0]) for q in Q):
                return "helper-rows: row lengths changed"
            cols = [([row[j] for row in P], [row[j] for row in Q]) for j in range(len(P[0]))]
        else:
            cols = [(P, Q)]
        for (A, B) in cols:
            if any(len(b) != len(A[0]) for b in B):
                return "helper-dim: point dimension changed"
            sa = {"pdim": 1, "rational": False, "deg": [p], "kv": [U], "size": [len(A)], "P": A}
            sb = {"pdim": 1, "rational": False, "deg": [p], "kv": [V], "size": [len(B)], "P": B}
            m = S.same_shape(sa, sb)
            if m:
                return "helper-shape: " + m
        return None

    def nontrivial(self, c, out):
        return "ok" in out

    def stratum(self, c, out):
        return "p%d/%s/s%d/num%d/%s" % (c["p"], c["cls"], c["s"], c["num"], "rows" if c["rows"] else "pts")


def g_call(sn, before_term, params, nums, check):
    fn = ["", "insert_knot_curve", "insert_knot_surf", "insert_knot_vol"][sn["pdim"]]
    return "(%s Qops %s %s %s %s %s)" % (fn, G.Q(TOL8), G.b(check), before_term, S.g_optQl(params), S.g_zl(nums))


class Op(Family):
    """operations.insert_knot on curves, surfaces and volumes"""
    name = "op"
    imports = ("Model.Basis", "Model.KnotIns", "Model.InsertKnot", "Run.InsertKnotH")
    count = {"quick": 260, "thorough": 3000}
    has_oracle = True

    def gen(self, rng, n):
        out = []
        for i in range(n):
            pd = [1, 2, 2, 3, 3][i % 5]
            rational = (i // 5) % 2 == 1
            sh = S.gen_shape(rng, pd, rational, normalize=rng.random() < 0.75, nondyadic=rng.random() < 0.2)
            dirs = None
            if i < 70:
                # every direction subset of every kind, rational or not
                subsets = [[d for d in range(pd) if (m >> d) & 1] for m in range(1, 2 ** pd)]
                dirs = subsets[(i // 10) % len(subsets)]
            params, nums, cls = gen_call(rng, sh["kv"], sh["deg"], dirs, "valid" if i < 70 and i % 3 else None)
            check = True
            mal = "none"
            r = rng.random()
            if r < 0.04:
                mal = "numlen"
                nums = nums[:-1] if rng.random() < 0.5 else nums + [1]
            elif r < 0.08:
                mal = "negative"
                nums[rng.randrange(pd)] = -rng.randint(1, 2)
            elif r < 0.16:
                # check_num=False is only meaningful for admissible calls
                if all(params[d] is None or nums[d] <= sh["deg"][d] - S.mult(sh["kv"][d], params[d]) for d in range(pd)):
                    check = False
            out.append({"shape": sh, "params": params, "nums": nums, "check": check, "mal": mal, "cls": cls,
                        "probe": probes(rng, predicted(sh["kv"], sh["deg"], params, nums) if mal == "none" else sh["kv"], sh["deg"])})
        return out

    def impl(self, c):
        obj = S.build(c["shape"])
        before = S.snapshot(obj)
        try:
            S.quiet(operations.insert_knot, obj, list(c["params"]), list(c["nums"]), check_num=c["check"])
            raised = False
        except GeomdlException:
            raised = True
        except Exception as e:
            return {"crash": "%s: %s" % (type(e).__name__, str(e)[:120])}
        after = S.snapshot(obj)
        return {"ok": {"raised": raised, "before": before, "after": after, "evals": run_evals(obj, c["probe"])}}

    def coq(self, c, out):
        if "ok" not in out:
            return None
        o = out["ok"]
        return "(let r := %s in andb (Bool.eqb (snd r) %s) %s)" % (
            g_call(o["before"], S.g_geom(o["before"]), c["params"], c["nums"], c["check"]), G.b(o["raised"]), S.g_cmp("(fst r)", o["after"]))

    def coq_show(self, c, out):
        o = out["ok"]
        return "(let r := %s in (snd r, fst r))" % g_call(o["before"], S.g_geom(o["before"]), c["params"], c["nums"], c["check"])

    def oracle(self, c, out):
        if "ok" not in out:
            return "crash: insert_knot raised %s" % (out,)
        o = out["ok"]
        m = check_insert(o["before"], o["after"], c["params"], c["nums"], o["raised"], c["check"])
        return m or check_evals(o["before"], o["evals"])

    def nontrivial(self, c, out):
        return "ok" in out and out["ok"]["after"]["size"] != out["ok"]["before"]["size"]

    def stratum(self, c, out):
        sh = c["shape"]
        return "%s%s/%s/%s%s" % (["", "curve", "surface", "volume"][sh["pdim"]], "-rat" if sh["rational"] else "", c["cls"],
                                 c["mal"], "" if c["check"] else "/nocheck")


class Seq(Family):
    """histories of 1..4 calls of Curve/Surface/Volume.insert_knot (object wrappers)"""
    name = "seq"
    imports = ("Model.Basis", "Model.KnotIns", "Model.InsertKnot", "Run.InsertKnotH")
    count = {"quick": 110, "thorough": 1200}
    has_oracle = True

    def gen(self, rng, n):
        out = []
        for i in range(n):
            pd = [1, 2, 3][i % 3]
            rational = (i // 3) % 2 == 1
            sh = S.gen_shape(rng, pd, rational, normalize=rng.random() < 0.8, maxint=2,
                             budget={1: 30, 2: 40, 3: 60}[pd])
            kvs = [list(k) for k in sh["kv"]]
            steps = []
            for _ in range(rng.randint(1, 4)):
                params, nums, cls = gen_call(rng, kvs, sh["deg"], None, "valid" if rng.random() < 0.6 else None)
                st = {"params": params, "nums": nums, "cls": cls, "check_r": True}
                if rng.random() < 0.06:
                    j = rng.randrange(pd)
                    st["params"][j] = rng.choice([-0.25, 1.5]) if sh["normalize"] else st["params"][j]
                    st["cls"] += "/outside" if sh["normalize"] else ""
                elif rng.random() < 0.08 and all(params[d] is None or nums[d] <= sh["deg"][d] - S.mult(kvs[d], params[d]) for d in range(pd)):
                    st["check_r"] = False
                steps.append(st)
                if not any(p is not None and not (kvs[d][0] <= p <= kvs[d][-1]) for d, p in enumerate(st["params"])):
                    kvs = predicted(kvs, sh["deg"], st["params"], st["nums"])
            out.append({"shape": sh, "steps": steps, "probe": probes(rng, kvs, sh["deg"], 2)})
        return out

    def impl(self, c):
        obj = S.build(c["shape"])
        snaps = [S.snapshot(obj)]
        status = []
        pd = c["shape"]["pdim"]
        if c["shape"]["pdim"] > 1 and c["shape"]["normalize"] and len(c["steps"]) % 2 == 0:
            obj.sample_size = 3
            S.quiet(obj.evaluate)    # exercise the re-evaluation branch of the wrapper
        for st in c["steps"]:
            kw = {} if st["check_r"] else {"check_r": False}     # default of the wrapper = checked
            prm = st["params"]
            try:
                if pd == 1:
                    S.quiet(obj.insert_knot, prm[0], num=st["nums"][0], **kw)
                elif pd == 2:
                    S.quiet(obj.insert_knot, u=prm[0], v=prm[1], num_u=st["nums"][0], num_v=st["nums"][1], **kw)
                else:
                    S.quiet(obj.insert_knot, u=prm[0], v=prm[1], w=prm[2], num_u=st["nums"][0], num_v=st["nums"][1], num_w=st["nums"][2], **kw)
                status.append(True)
            except GeomdlException:
                status.append(False)
            except Exception as e:
                return {"crash": "%s: %s" % (type(e).__name__, str(e)[:120])}
            snaps.append(S.snapshot(obj))
        return {"ok": {"status": status, "snaps": snaps, "evals": run_evals(obj, c["probe"])}}

    def _term(self, c, out):
        o = out["ok"]
        sn0 = o["snaps"][0]
        pd = sn0["pdim"]
        fn = ["", "curve_insert_knot", "surf_insert_knot", "vol_insert_knot"][pd]
        lets = "let g0 := %s in " % S.g_geom(sn0)
        for i, st in enumerate(c["steps"]):
            if pd == 1:
                # the curve wrapper takes the parameter itself (never None)
                args = "%s %s" % (S.g_optQ(st["params"][0]), "(%d)%%Z" % st["nums"][0])
            else:
                args = " ".join(S.g_optQ(x) for x in st["params"]) + " " + " ".join("(%d)%%Z" % x for x in st["nums"])
            lets += "let r%d := %s Qops %s %s g%d %s %s in let g%d := okor r%d g%d in " % (
                i + 1, fn, G.Q(TOL8), G.b(c["shape"]["normalize"]), i, args, G.b(st["check_r"]), i + 1, i + 1, i)
        return lets, len(c["steps"])

    def coq(self, c, out):
        if "ok" not in out:
            return None
        o = out["ok"]
        lets, k = self._term(c, out)
        oks = "[" + "; ".join("isOk r%d" % (i + 1) for i in range(k)) + "]"
        return "(%s andb (eqLbool %s %s) %s)" % (lets, oks, G.bl(o["status"]), S.g_cmp("g%d" % k, o["snaps"][-1]))

    def coq_show(self, c, out):
        lets, k = self._term(c, out)
        return "(%s g%d)" % (lets, k)

    def oracle(self, c, out):
        if "ok" not in out:
            return "crash: the wrapper raised %s" % (out,)
        o = out["ok"]
        norm = c["shape"]["normalize"]
        for i, st in enumerate(c["steps"]):
            before, after = o["snaps"][i], o["snaps"][i + 1]
            outside = norm and any(p is not None and not (0.0 <= p <= 1.0) for p in st["params"])
            if outside:
                if o["status"][i]:
                    return "reject: parameter outside [0,1] accepted by the wrapper"
                if after != before:
                    return "reject-unchanged: rejected wrapper call modified the object"
                continue
            if not o["status"][i]:
                return "accept: the wrapper raised on parameters inside the domain (step %d)" % i
            # the wrapper swallows the GeomdlException of an inadmissible insertion: detect it from the state
            active = [d for d in range(before["pdim"]) if st["params"][d] is not None and st["nums"][d] > 0]
            bad = [d for d in active if st["nums"][d] > before["deg"][d] - S.mult(before["kv"][d], st["params"][d])]
            m = check_insert(before, after, st["params"], st["nums"], bool(bad), st["check_r"])
            if m:
                return m + " (step %d of the history)" % i
        m = S.same_shape(o["snaps"][0], o["snaps"][-1])
        if m:
            return "shape: after the whole history: " + m
        return check_evals(o["snaps"][0], o["evals"])

    def nontrivial(self, c, out):
        return "ok" in out and out["ok"]["snaps"][-1]["size"] != out["ok"]["snaps"][0]["size"]

    def stratum(self, c, out):
        sh = c["shape"]
        return "%s%s/len%d" % (["", "curve", "surface", "volume"][sh["pdim"]], "-rat" if sh["rational"] else "", len(c["steps"]))


def families():
    return [Helper(), Op(), Seq()]
