"""C18 — shapes stay inside the hull of their control points; bounding box; clamped end points; length bounds."""
from fractions import Fraction as F
from core import Family, call
import gal as G
import gencommon as gc
import tpexact as T
from geomdl import operations, linalg, utilities

TOL8 = 10e-8

RULE = ("structured generator over kind {curve, surface, volume} x rational {no, yes} x degree per direction 1..5 / 1..3 / 1..2 x "
        "knot-vector kind {clamped uniform, clamped with repeated interior knots, unclamped} x parameter class {span interior, on a "
        "knot, domain start, domain end, non-dyadic} plus all domain corners; sampled grids (evalpts) with sample sizes 2..9; "
        "non-trivial = the implementation returned a value and at least one direction has an interior knot or the shape is "
        "rational; distinct by case hash")
ASSUMPTIONS = ["floating point rounding below 1e-9 is not observable", "all weights are positive (property hypothesis)",
               "control points of one shape all have the same dimension"]
THEOREM_NOTES = ("coq/Props/C18.v: hull membership via every separating direction for curves, surfaces, volumes and their rational "
                 "versions [G]; bbox = component-wise min/max [G]; evaluated points inside the bbox [G]; clamped curve end points and "
                 "surface corners [G]; chord <= polyline [G over R]; polyline <= control polygon NOT proved (oracle only)")
LEVEL_TEXT = ("General theorems (all degrees, all sorted knot vectors with any multiplicities, all parameters of the closed domain, "
              "all dimensions, all directions): convex-hull containment of curve/surface/volume points in the active control points, "
              "also for rational shapes with positive weights; bounding-box specification and containment; clamped end points / "
              "corners; chord <= polyline length <= control-polygon length (round 2, Proofs/HullPolyline.v: C(u) = P_0 + sum T_i(u)(P_i - P_{i-1}) "
              "with monotone T_i; any degree, any sorted knot vector, any dimension, any non-decreasing parameter sequence).  The tie between the Gallina model (Model/Eval.v, Model/Hull.v) and geomdl is the "
              "sampled correspondence of this check.")
LEVEL_NOTE = "theorems are over the real-number instance of the model; the executable rational instance is what the correspondence runs"
# functions of the numerical core this property rests on that are also tied by the translator (tie theorems: Proofs/GenTie*.v, restated in Props/)
TRANSLATED = ["helpers.find_span_linear", "helpers.basis_function", "utilities.evaluate_bounding_box", "evaluators.CurveEvaluator.evaluate", "evaluators.CurveEvaluatorRational.evaluate", "evaluators.SurfaceEvaluator.evaluate", "evaluators.SurfaceEvaluatorRational.evaluate", "evaluators.VolumeEvaluator.evaluate", "evaluators.VolumeEvaluatorRational.evaluate", "_operations.find_ctrlpts_curve", "_operations.find_ctrlpts_surface", "linalg.point_distance"]
TECHNIQUE = "Coq proofs (induction over the evaluators' accumulation loops; partition of unity + non-negativity on closed spans) + exact Fraction oracles"


def _dirs(rng, dim):
    ds = []
    for i in range(dim):
        e = [0] * dim
        e[i] = 1
        ds.append(e)
    for _ in range(6):
        d = [rng.randint(-5, 5) for _ in range(dim)]
        if any(d):
            ds.append(d)
    return ds


def _all_corners(pd):
    out = [()]
    for _ in range(pd):
        out = [c + (w,) for c in out for w in (0, 1)]
    return out


def _hull_violation(shape, params, pt, dirs, label):
    """None if pt lies (up to 1e-9) between min and max of d.P_r over the exact active window for every direction"""
    act = [i for i, _ in T.active_indices(shape, params)]
    P = shape["ctrlpts"]
    x = T.fr_point(pt)
    for d in dirs:
        vals = [sum(F(dc) * F(c) for dc, c in zip(d, P[i])) for i in act]
        v = sum(F(dc) * c for dc, c in zip(d, x))
        tol = F(1, 10 ** 9) * max([1] + [abs(t) for t in vals])
        if v < min(vals) - tol or v > max(vals) + tol:
            return "%s: point %s at %s leaves the hull of its %d active control points in direction %s: %r not in [%r, %r]" % (
                label, pt, params, len(act), d, float(v), float(min(vals)), float(max(vals)))
    return None


def _bbox_exact(P):
    dim = len(P[0])
    return [min(F(p[c]) for p in P) for c in range(dim)], [max(F(p[c]) for p in P) for c in range(dim)]


def _in_bbox(pt, mn, mx, tol=1e-9):
    for x, a, b in zip(pt, mn, mx):
        t = F(tol) * max(1, abs(F(a)), abs(F(b)))
        if F(x) < F(a) - t or F(x) > F(b) + t:
            return False
    return True


def _edited(c):
    """the shape the queries are about: after the optional edit of the control points"""
    s = c["shape"]
    if not c.get("edit"):
        return s
    f, sh = F(c["factor"]), [F(x) for x in c["shift"]]
    if c["edit"] == "scale":
        P2 = [[float(F(x) * f) for x in pt] for pt in s["ctrlpts"]]
    elif c["edit"] == "translate":
        P2 = [[float(F(x) + d) for x, d in zip(pt, sh)] for pt in s["ctrlpts"]]
    else:
        P2 = [[float(F(x) * f + d) for x, d in zip(pt, sh)] for pt in s["ctrlpts"]]
    s2 = dict(s)
    s2["ctrlpts"] = P2
    return s2



def _add_edit(rng, c, i, dim):
    if i % 3 == 1:
        c["edit"] = ["ctrlpts", "scale", "translate"][(i // 3) % 3]
        c["factor"] = rng.choice([2.0, -1.5, 0.5])
        c["shift"] = [rng.randint(-40, 40) / 4.0 for _ in range(dim)]
    else:
        c["edit"] = None
    return c


def _apply_edit(o, c, s):
    if c["edit"] == "scale":
        operations.scale(o, c["factor"], inplace=True)
    elif c["edit"] == "translate":
        operations.translate(o, c["shift"], inplace=True)
    else:
        o.ctrlpts = [list(p) for p in s["ctrlpts"]]


class Hull(Family):
    name = "hull"
    imports = ("Model.Basis", "Model.Knots", "Model.Eval", "Model.Homog", "Model.Hull")
    count = {"quick": 150, "thorough": 1500}
    has_oracle = True

    def gen(self, rng, n):
        out = []
        for i in range(n):
            s = T.random_shape(rng)
            pd = T.PD[s["kind"]]
            params = [T.corner_params(s, c) for c in _all_corners(pd)]
            for _ in range(3 if pd < 3 else 2):
                params.append(T.random_params(rng, s)[0])
            c = {"shape": s, "params": params, "dirs": _dirs(rng, s["dim"]), "edit": None}
            if i % 3 == 1:
                # the bounding box and the evaluated points are read, THEN the control points are replaced
                c["edit"] = ["ctrlpts", "scale", "translate"][(i // 3) % 3]
                c["factor"] = rng.choice([2.0, -1.5, 0.5])
                c["shift"] = [rng.randint(-40, 40) / 4.0 for _ in range(s["dim"])]
            out.append(c)
        return out

    def _eff(self, c):
        return _edited(c)

    def impl(self, c):
        s0 = c["shape"]
        s = self._eff(c)

        def f():
            o = T.build(s0)
            if not T.kv_unchanged(o, s0):
                return {"skip": "knot vector altered by normalisation"}
            if c.get("edit"):
                _ = o.bbox
                o.sample_size = 2
                _ = o.evalpts
                if c["edit"] == "scale":
                    operations.scale(o, c["factor"], inplace=True)
                elif c["edit"] == "translate":
                    operations.translate(o, c["shift"], inplace=True)
                else:
                    o.ctrlpts = [list(p) for p in s["ctrlpts"]]
            pts = [T.eval_single(o, p) for p in c["params"]]
            bb = o.bbox
            act = None
            if s["kind"] == "curve":
                act = [[list(q) for q in operations.find_ctrlpts(o, p[0])] for p in c["params"]]
            elif s["kind"] == "surface":
                act = [[[list(q) for q in row] for row in operations.find_ctrlpts(o, p[0], p[1])] for p in c["params"]]
            return {"pts": pts, "bbox": [list(bb[0]), list(bb[1])], "active": act,
                    "bbox_fn": [list(x) for x in utilities.evaluate_bounding_box(o.ctrlpts)]}
        return call(f)

    def coq(self, c, out):
        if "ok" not in out or "skip" in out["ok"]:
            return None
        s, o = self._eff(c), out["ok"]
        lets = T.coq_shape_lets(s)
        pts = "[" + "; ".join(T.coq_point(s, p) for p in c["params"]) + "]"
        parts = ["closeLL %s %s" % (pts, G.sll(o["pts"])),
                 "match bbox Qops P with Ok (mn, mx) => andb (closeL mn %s) (closeL mx %s) | _ => false end" % (G.sl(o["bbox"][0]), G.sl(o["bbox"][1]))]
        if s["kind"] == "curve":
            for p, a in zip(c["params"], o["active"]):
                parts.append("closeLL (find_ctrlpts_curve Qops %s U0 P %s) %s" % (G.n(s["degree"][0]), G.Q(p[0]), G.sll(a)))
        elif s["kind"] == "surface":
            net = "Pw" if s["rational"] else "P"
            for p, a in zip(c["params"], o["active"]):
                parts.append("all2 eqLLQ (find_ctrlpts_surface Qops %s %s U0 U1 %s %s %s %s %s) %s" % (
                    G.n(s["degree"][0]), G.n(s["degree"][1]), G.n(s["size"][0]), G.n(s["size"][1]), net, G.Q(p[0]), G.Q(p[1]), G.qlll(a)))
        e = parts[0]
        for q in parts[1:]:
            e = "andb (%s) (%s)" % (e, q)
        return "(" + lets + e + ")"

    def coq_show(self, c, out):
        s = self._eff(c)
        return "(" + T.coq_shape_lets(s) + "([" + "; ".join(T.coq_point(s, p) for p in c["params"]) + "], bbox Qops P))"

    def oracle(self, c, out):
        if "ok" not in out:
            return "hull: evaluation / bbox / find_ctrlpts failed on a valid shape: %s" % (out,)
        o, s = out["ok"], self._eff(c)
        if "skip" in o:
            return None
        P = s["ctrlpts"]
        mn, mx = _bbox_exact(P)
        for name in ("bbox", "bbox_fn"):
            if not (gc.closel(o[name][0], mn) and gc.closel(o[name][1], mx)):
                return "bbox: %s reports %s, the component-wise min/max of the control points is %s%s" % (
                    name, o[name], [[float(x) for x in mn], [float(x) for x in mx]],
                    " (the box was read before the control points were replaced by %s)" % c["edit"] if c.get("edit") else "")
        pd = T.PD[s["kind"]]
        corners = _all_corners(pd)
        for k, (prm, pt) in enumerate(zip(c["params"], o["pts"])):
            m = _hull_violation(s, prm, pt, c["dirs"], "hull")
            if m:
                return m
            if not _in_bbox(pt, o["bbox"][0], o["bbox"][1]):
                return "in-bbox: point %s at %s lies outside the reported bounding box %s" % (pt, prm, o["bbox"])
            if k < len(corners) and T.is_clamped(s):
                idx = T.flat_index(s, [0 if w == 0 else n - 1 for w, n in zip(corners[k], s["size"])][:pd])
                if not T.close_pt(pt, T.fr_point(P[idx]), 1e-9):
                    return "endpoint: clamped %s at corner %s evaluates to %s, the corner control point is %s" % (s["kind"], prm, pt, P[idx])
            if o["active"] is not None:
                act = [i for i, _ in T.active_indices(s, prm)]
                got = o["active"][k]
                if s["kind"] == "curve":
                    exp = [P[i] for i in act]
                    flat = got
                else:
                    Pw = T.weighted(s)
                    exp = [Pw[i] for i in act]
                    flat = [q for row in got for q in row]
                    if len(got) != s["degree"][0] + 1 or any(len(r) != s["degree"][1] + 1 for r in got):
                        return "find_ctrlpts: window shape %dx%d for degrees %s" % (len(got), len(got[0]) if got else 0, s["degree"])
                if len(flat) != len(exp) or not all(T.close_pt(a, T.fr_point(b), 1e-12) for a, b in zip(flat, exp)):
                    return "find_ctrlpts: at %s returned %s, the active window is %s" % (prm, flat, exp)
        return None

    def nontrivial(self, c, out):
        s = c["shape"]
        return "ok" in out and "skip" not in out["ok"] and (s["rational"] or any(len(U) > 2 * (p + 1) for U, p in zip(s["kv"], s["degree"])))

    def stratum(self, c, out):
        s = c["shape"]
        return "%s/%s/p%s/%s/%s" % (s["kind"], "rat" if s["rational"] else "poly", "".join(str(p) for p in s["degree"]), "+".join(sorted(set(s["kvkind"]))),
                                    "edit-" + c["edit"] if c.get("edit") else "fresh")


class EvalPts(Family):
    """sampled grids: every evaluated point in the hull of its active window and inside the bounding box; ends"""
    name = "evalpts"
    imports = ("Model.Basis", "Model.Knots", "Model.Eval", "Model.Homog", "Model.Hull")
    count = {"quick": 70, "thorough": 700}
    has_oracle = True

    def gen(self, rng, n):
        out = []
        for i in range(n):
            kind = rng.choice(["curve", "curve", "surface", "volume"]) if i % 7 else "volume"
            s = T.random_shape(rng, kind=kind)
            k = {"curve": rng.randint(2, 9), "surface": rng.randint(2, 5), "volume": rng.randint(2, 3)}[kind]
            out.append(_add_edit(rng, {"shape": s, "sample": k, "dirs": _dirs(rng, s["dim"])}, i, s["dim"]))
        return out

    def impl(self, c):
        s0 = c["shape"]
        s = _edited(c)

        def f():
            o = T.build(s0)
            if not T.kv_unchanged(o, s0):
                return {"skip": "knot vector altered by normalisation"}
            o.sample_size = c["sample"]
            if c.get("edit"):
                _ = o.evalpts          # evaluated points and bounding box are read before the control points are replaced
                _ = o.bbox
                _apply_edit(o, c, s)
            pts = [list(p) for p in o.evalpts]
            bb = o.bbox
            # the sample size actually used (it differs from the requested one when the domain is not [0,1]: C17's concern)
            ns = [int(x) for x in o.data["sample_size"]]
            grids = [linalg.linspace(d[0], d[1], k, decimals=18) for d, k in zip(T.domain(s), ns)]
            return {"pts": pts, "bbox": [list(bb[0]), list(bb[1])], "grids": grids, "ns": ns}
        return call(f)

    def _params(self, s, grids):
        if s["kind"] == "curve":
            return [[u] for u in grids[0]]
        if s["kind"] == "surface":
            return [[u, v] for u in grids[0] for v in grids[1]]
        return [[u, v, w] for u in grids[0] for v in grids[1] for w in grids[2]]

    def coq(self, c, out):
        if "ok" not in out or "skip" in out["ok"]:
            return None
        s, o, k = _edited(c), out["ok"], c["sample"]
        dim = s["dim"] + (1 if s["rational"] else 0)
        net = "Pw" if s["rational"] else "P"
        dom = T.domain(s)
        deg = " ".join(G.n(p) for p in s["degree"])
        kvs = " ".join("U%d" % i for i in range(len(s["kv"])))
        sz = " ".join(G.n(x) for x in s["size"])
        rng_ = " ".join("%s %s" % (G.Q(a), G.Q(b)) for a, b in dom)
        ks = " ".join(G.n(k_) for k_ in o["ns"])
        if len(o["pts"]) > 400:
            return None
        if s["kind"] == "curve":
            t = "curve_evalpts Qops %s %s %s %s %s %s %s" % (G.Q(TOL8), G.n(dim), deg, kvs, net, rng_, ks)
        elif s["kind"] == "surface":
            t = "surface_evalpts Qops %s %s %s %s %s %s %s %s" % (G.Q(TOL8), G.n(dim), deg, kvs, sz, net, rng_, ks)
        else:
            t = "volume_evalpts Qops %s %s %s %s %s %s %s %s" % (G.Q(TOL8), G.n(dim), deg, kvs, sz, net, rng_, ks)
        if s["rational"]:
            t = "map (project Qops) (%s)" % t
        return "(" + T.coq_shape_lets(s) + "closeLL (%s) %s)" % (t, G.sll(o["pts"]))

    def oracle(self, c, out):
        if "ok" not in out:
            return "evalpts: evaluation failed on a valid shape: %s" % (out,)
        o, s = out["ok"], _edited(c)
        if "skip" in o:
            return None
        params = self._params(s, o["grids"])
        if len(params) != len(o["pts"]):
            return "evalpts-count: %d points for sample sizes %s (%s)" % (len(o["pts"]), o["ns"], s["kind"])
        for prm, pt in zip(params, o["pts"]):
            m = _hull_violation(s, prm, pt, c["dirs"], "evalpts-hull")
            if m:
                return m
            if not _in_bbox(pt, o["bbox"][0], o["bbox"][1]):
                return "evalpts-in-bbox: evaluated point %s at %s lies outside the reported bounding box %s" % (pt, prm, o["bbox"])
        if T.is_clamped(s):
            P = s["ctrlpts"]
            if not T.close_pt(o["pts"][0], T.fr_point(P[0])):
                return "evalpts-start: first evaluated point %s differs from the first control point %s" % (o["pts"][0], P[0])
            if not T.close_pt(o["pts"][-1], T.fr_point(P[-1])):
                return "evalpts-end: last evaluated point %s differs from the last control point %s" % (o["pts"][-1], P[-1])
        return None

    def nontrivial(self, c, out):
        return "ok" in out and "skip" not in out["ok"]

    def stratum(self, c, out):
        s = c["shape"]
        return "%s/%s/k%d/%s" % (s["kind"], "rat" if s["rational"] else "poly", c["sample"], "edit-" + c["edit"] if c.get("edit") else "fresh")


class Length(Family):
    """operations.length_curve: chord <= length <= control polygon (non-rational curves)"""
    name = "length"
    imports = ("Model.Basis", "Model.Knots", "Model.Eval", "Model.Homog", "Model.Hull")
    count = {"quick": 80, "thorough": 800}
    has_oracle = True

    def gen(self, rng, n):
        out = []
        for i in range(n):
            r = rng.random()
            if r < 0.1:
                s = T.random_shape(rng, kind="surface", rational=False)
                out.append({"shape": s, "sample": 3, "mal": "not-a-curve", "edit": None})
                continue
            s = T.random_shape(rng, kind="curve", rational=False)
            if r < 0.25:
                # straight control polygon: chord = length = polygon (equality case)
                n_ = s["size"][0]
                a = [rng.randint(-40, 40) / 8.0 for _ in range(s["dim"])]
                d = [rng.randint(-8, 8) / 8.0 for _ in range(s["dim"])]
                ts = sorted(rng.sample(range(0, 64), n_))
                s["ctrlpts"] = [[a[c] + d[c] * t for c in range(s["dim"])] for t in ts]
            cc = _add_edit(rng, {"shape": s, "sample": rng.choice([2, 3, 5, 8, 13, 21]), "mal": "none"}, i, s["dim"])
            if rng.random() < 0.3:
                # non-default `precision` option (decimals kept for sampled parameters): the sample sizes make 1/(n-1) non-representable
                cc["precision"] = rng.choice([3, 4, 6])
                cc["sample"] = rng.choice([4, 7, 10, 13])
            out.append(cc)
        return out

    def impl(self, c):
        s0 = c["shape"]
        s = _edited(c)

        def f():
            o = T.build(s0, precision=c["precision"]) if c.get("precision") else T.build(s0)
            if not T.kv_unchanged(o, s0):
                return {"skip": "knot vector altered by normalisation"}
            o.sample_size = c["sample"]
            if c.get("edit"):
                _ = operations.length_curve(o)      # the length (and the evaluated points) are read before the edit
                _apply_edit(o, c, s)
            L = operations.length_curve(o)
            pts = [list(p) for p in o.evalpts]
            segs = [linalg.point_distance(pts[i], pts[i + 1]) for i in range(len(pts) - 1)]
            return {"length": L, "segs": segs, "npts": len(pts), "n": int(o.data["sample_size"][0])}
        return call(f)

    def coq(self, c, out):
        if c["mal"] != "none" or "ok" not in out or "skip" in out["ok"] or c.get("precision"):
            return None     # with a precision option the sampled parameters are rounded: only the oracle (length bounds) applies
        s, o = _edited(c), out["ok"]
        (a, b), = T.domain(s)
        t = "curve_evalpts Qops %s %s %s U0 P %s %s %s" % (G.Q(TOL8), G.n(s["dim"]), G.n(s["degree"][0]), G.Q(a), G.Q(b), G.n(o["n"]))
        if o["n"] > 200:
            return None
        sq = [F(x) * F(x) for x in o["segs"]]
        return "(" + T.coq_shape_lets(s) + "closeL (polyline_sq Qops (%s)) %s)" % (t, G.sl(sq))

    def oracle(self, c, out):
        if c["mal"] != "none":
            return None if "rej" in out else "length: length_curve accepted a %s: %s" % (c["shape"]["kind"], out)
        if "ok" not in out:
            return "length: length_curve failed on a valid curve: %s" % (out,)
        o, s = out["ok"], _edited(c)
        if "skip" in o:
            return None
        L = F(o["length"])
        tot = 0.0
        for d in o["segs"]:
            tot += d
        if not gc.close(L, tot, 1e-12):
            return "length-sum: length %r is not the sum of the distances of consecutive evaluated points %r" % (o["length"], tot)
        if o["npts"] != o["n"]:
            return "length-samples: %d evaluated points for sample size %d" % (o["npts"], o["n"])
        (a, b), = T.domain(s)
        start, end = T.eval_exact(s, [a]), T.eval_exact(s, [b])
        chord_lo, _ = T.dist_bounds(start, end)
        poly_hi = sum(T.dist_bounds(p, q)[1] for p, q in zip(s["ctrlpts"], s["ctrlpts"][1:]))
        tol = F(1, 10 ** 9) * max(1, poly_hi)
        if L < chord_lo - tol:
            return "length-chord: approximate length %r is shorter than the end-to-end chord %r" % (o["length"], float(chord_lo))
        if L > poly_hi + tol:
            return "length-polygon: approximate length %r exceeds the control polygon length %r" % (o["length"], float(poly_hi))
        return None

    def nontrivial(self, c, out):
        return "ok" in out and "skip" not in out["ok"]

    def stratum(self, c, out):
        return "%s/k%d/%s" % (c["mal"], c["sample"], "edit-" + c["edit"] if c.get("edit") else "fresh")


def families():
    return [Hull(), EvalPts(), Length()]
