"""C09 - weights, weighted and unweighted control points stay mutually consistent."""
import io, contextlib, copy
from fractions import Fraction as F
from core import Family, call
import gal as G
import gencommon as gc
from geomdl import NURBS, BSpline, compatibility, convert, CPGen

RULE = ("helpers: random nets (dimension 1..4, 1..7 points, weights from a positive set, ~15 % malformed: zero weight, empty point, "
        "length mismatch); views: histories of <= 8 setter/getter operations on NURBS curves, surfaces and volumes (every prefix is "
        "replayed on a new object and all three views are read); convert/scaling: random shapes of all three kinds evaluated at "
        "3 parameters incl. the domain ends; gridw: every grid size 1..6 x 1..6 with pairwise distinct weights, histories of "
        "generate / weight / read / reset; non-trivial = implementation returned values and (views) at least one setter succeeded; "
        "distinct by case hash")
ASSUMPTIONS = ["floating point rounding below 1e-9 is not observable",
               "GridWeighted is checked as repaired by fixes/C09-gridweighted-*.diff",
               "ragged control point lists are only generated for curves (for surfaces/volumes the failed setter leaves sizes 0, outside the view machine)",
               "for surfaces, control point lists shorter than size_u * size_v are not generated (IndexError while rebuilding ctrlpts2d leaves a half-updated object)"]
THEOREM_NOTES = ("coq/Props/C09.v: inverse laws of the helper conversions [G, reals, non-zero weights]; view machine invariant and "
                 "views_consistent_after_any_history [G, any scalar type, induction over operation lists]; set_view_roundtrip [G]; "
                 "weight scaling invariance for curves, surfaces, volumes [G]; unit weights same shape: curves, surfaces and volumes at EVERY parameter incl. the closed domain ends [G, round 2, "
                 "Proofs/WeightsUnit.v; the unconditional Definition is refuted on a ragged net and replaced by the well-formed statement]; GridWeighted own weight and cache invariant [G]")
LEVEL_TEXT = ("Coq theorems about the Gallina model Model/Weights.v + Model/Eval.v: helper conversions mutually inverse, cache invariant of the "
              "NURBS view machine over arbitrary operation lists, setter round trips, weight-scaling invariance (all kinds), unit-weight "
              "equivalence (curves, surfaces, volumes, every parameter), GridWeighted own-weight and cache invariant; model tied to /repo by "
              "five correspondence families evaluated in Coq")
# functions of the numerical core this property rests on that are also tied by the translator (tie theorems: Proofs/GenTie*.v, restated in Props/)
TRANSLATED = ["compatibility.generate_ctrlptsw", "compatibility.generate_ctrlptsw2d", "compatibility.generate_ctrlpts_weights", "compatibility.generate_ctrlpts2d_weights", "compatibility.combine_ctrlpts_weights", "compatibility.separate_ctrlpts_weights"]
TECHNIQUE = "machine-checked proof in Coq over a hand-written Gallina model + model/implementation correspondence check evaluated by coqc (vm_compute) + exact Fraction oracles"

TOL8 = 10e-8


def quiet(fn, *a, **kw):
    with contextlib.redirect_stdout(io.StringIO()):
        return fn(*a, **kw)


def fr(x):
    return gc.fr(x)


def close_nested(a, b, tol=1e-9):
    return gc.closel(a, b, tol)


# ------------------------------------------------------------------ exact tensor-product evaluation (oracle)
def basis_exact(U, p, n, u):
    U = fr(U)
    u = F(u)
    k = gc.exact_span(U, p, n, u)
    if u >= U[n]:
        Ns = gc.basis_closed(U, p, k, u)
    else:
        Ns = [gc.cdb(U, p, k - p + j, u) for j in range(p + 1)]
    return k, Ns


def eval_exact(degs, kvs, sizes, P, params, rational):
    """P flat (v fastest, then u, then w); returns the exact point (projected if rational)"""
    bs = [basis_exact(kvs[d], degs[d], sizes[d], params[d]) for d in range(len(degs))]
    dim = len(P[0])
    pt = [F(0)] * dim
    if len(degs) == 1:
        k, N = bs[0]
        for a in range(degs[0] + 1):
            q = P[k - degs[0] + a]
            pt = [x + N[a] * F(c) for x, c in zip(pt, q)]
    elif len(degs) == 2:
        (ku, Nu), (kv, Nv) = bs
        for a in range(degs[0] + 1):
            for b in range(degs[1] + 1):
                q = P[(kv - degs[1] + b) + sizes[1] * (ku - degs[0] + a)]
                pt = [x + Nu[a] * Nv[b] * F(c) for x, c in zip(pt, q)]
    else:
        (ku, Nu), (kv, Nv), (kw, Nw) = bs
        for a in range(degs[0] + 1):
            for b in range(degs[1] + 1):
                for c_ in range(degs[2] + 1):
                    q = P[(kv - degs[1] + b) + sizes[1] * ((ku - degs[0] + a) + sizes[0] * (kw - degs[2] + c_))]
                    pt = [x + Nu[a] * Nv[b] * Nw[c_] * F(c) for x, c in zip(pt, q)]
    if rational:
        return [x / pt[-1] for x in pt[:-1]]
    return pt


# ------------------------------------------------------------------ shape generation
def rand_shape(rng, kind, rational, maxdeg=3):
    pd = {"curve": 1, "surface": 2, "volume": 3}[kind]
    dim = rng.choice([2, 3]) if pd == 1 else 3
    degs, sizes, kvs = [], [], []
    for d in range(pd):
        p = rng.randint(1, maxdeg if pd < 3 else 2)
        nint = rng.choice([0, 1, 2]) if pd < 3 else rng.choice([0, 1])
        U, _ = gc.knotvector(rng, p, kind=rng.choice(["uniform", "mult"]), nint=nint)
        degs.append(p)
        kvs.append(U)
        sizes.append(len(U) - p - 1)
    n = 1
    for s in sizes:
        n *= s
    pts = gc.points(rng, n, dim, grid=4, lim=8)
    ws = gc.weights(rng, n) if rational else None
    return {"kind": kind, "degs": degs, "kvs": kvs, "sizes": sizes, "pts": pts, "ws": ws, "dim": dim}


def build(shape, rational):
    mod = NURBS if rational else BSpline
    kind = shape["kind"]
    pts = shape["pts"]
    if rational:
        pts = compatibility.combine_ctrlpts_weights(pts, shape["ws"])
    if kind == "curve":
        o = mod.Curve()
        o.degree = shape["degs"][0]
        o.set_ctrlpts(pts)
        o.knotvector = shape["kvs"][0]
    elif kind == "surface":
        o = mod.Surface()
        o.degree_u, o.degree_v = shape["degs"]
        o.set_ctrlpts(pts, *shape["sizes"])
        o.knotvector_u, o.knotvector_v = shape["kvs"]
    else:
        o = mod.Volume()
        o.degree_u, o.degree_v, o.degree_w = shape["degs"]
        o.set_ctrlpts(pts, *shape["sizes"])
        o.knotvector_u, o.knotvector_v, o.knotvector_w = shape["kvs"]
    return o


def obj_kvs(o):
    return [list(o.knotvector)] if o.pdimension == 1 else [list(k) for k in o.knotvector]


def obj_sizes(o):
    return [o.ctrlpts_size] if o.pdimension == 1 else list(o.cpsize)


def obj_degs(o):
    return [o.degree] if o.pdimension == 1 else list(o.degree)


def eval_single(o, params):
    return o.evaluate_single(params[0] if o.pdimension == 1 else tuple(params))


def rand_params(rng, shape):
    out = []
    for cls in ("start", "end", None):
        out.append([gc.param(rng, U, p, cls)[0] for U, p in zip(shape["kvs"], shape["degs"])])
    return out


def coq_point(degs, kvs, sizes, P, params, dimh, rational):
    """Gallina term for the model's evaluated point; P homogeneous if rational; dimh = len(P[0])"""
    if len(degs) == 1:
        t = "(curve_point Qops %s %s %s %s %s)" % (G.n(dimh), G.n(degs[0]), G.ql(kvs[0]), P, G.Q(params[0]))
    elif len(degs) == 2:
        t = "(surface_point Qops %s %s %s %s %s %s %s %s %s %s)" % (G.n(dimh), G.n(degs[0]), G.n(degs[1]), G.ql(kvs[0]), G.ql(kvs[1]),
                                                                    G.n(sizes[0]), G.n(sizes[1]), P, G.Q(params[0]), G.Q(params[1]))
    else:
        t = "(volume_point Qops %s %s %s %s %s %s %s %s %s %s %s %s %s %s)" % (
            G.n(dimh), G.n(degs[0]), G.n(degs[1]), G.n(degs[2]), G.ql(kvs[0]), G.ql(kvs[1]), G.ql(kvs[2]),
            G.n(sizes[0]), G.n(sizes[1]), G.n(sizes[2]), P, G.Q(params[0]), G.Q(params[1]), G.Q(params[2]))
    return "(project Qops %s)" % t if rational else t


def conj(parts):
    e = parts[0]
    for q_ in parts[1:]:
        e = "andb (%s) (%s)" % (e, q_)
    return "(" + e + ")"


# ------------------------------------------------------------------ family 1: helper conversions
class Helpers(Family):
    name = "helpers"
    imports = ("Model.Weights", "Run.WeightsH")
    count = {"quick": 140, "thorough": 1500}
    has_oracle = True

    def gen(self, rng, n):
        out = []
        for i in range(n):
            dim = rng.randint(1, 4)
            m = rng.randint(1, 7)
            P = gc.points(rng, m, dim, grid=4, lim=16)
            W = gc.weights(rng, m)
            if i % 3 == 0:
                W = rng.sample([0.125, 0.25, 0.5, 0.75, 1.5, 2.0, 3.0, 4.0, 5.0, 7.0], m)   # pairwise distinct
            mal = "none"
            r = rng.random()
            if r < 0.06:
                mal = "zero"
                W[rng.randrange(m)] = 0.0
            elif r < 0.10:
                mal = "length"
                W = W[:-1] if rng.random() < 0.5 or m == 1 else W + [2.0]
            elif r < 0.14:
                mal = "empty"
                P[rng.randrange(m)] = []
            rows = rng.randint(1, 3)
            out.append({"P": P, "W": W, "mal": mal, "rows": rows})
        return out

    def impl(self, c):
        P, W = c["P"], c["W"]
        o = {}
        o["comb"] = call(compatibility.combine_ctrlpts_weights, P, W)
        if "ok" in o["comb"]:
            Pw = o["comb"]["ok"]
            o["sep"] = call(compatibility.separate_ctrlpts_weights, Pw)
            # P with the weight appended: (x, y, z, w) form for generate_ctrlptsw
            Pxw = [list(p) + [w] for p, w in zip(P, W)]
            o["genw"] = call(compatibility.generate_ctrlptsw, Pxw)
            o["genu"] = call(compatibility.generate_ctrlpts_weights, Pw)
            rows = c["rows"]
            grid_xw = [Pxw for _ in range(rows)]
            grid_w = [Pw for _ in range(rows)]
            o["genw2d"] = call(compatibility.generate_ctrlptsw2d, grid_xw)
            o["genu2d"] = call(compatibility.generate_ctrlpts2d_weights, grid_w)
            if "ok" in o["sep"]:
                o["comb2"] = call(compatibility.combine_ctrlpts_weights, *o["sep"]["ok"])
            if "ok" in o["genw"]:
                o["genu_genw"] = call(compatibility.generate_ctrlpts_weights, o["genw"]["ok"])
            if "ok" in o["genu"]:
                o["genw_genu"] = call(compatibility.generate_ctrlptsw, o["genu"]["ok"])
        o["comb_none"] = call(compatibility.combine_ctrlpts_weights, P)
        return {"ok": o}

    def coq(self, c, out):
        o = out["ok"]
        P, W = c["P"], c["W"]
        parts = ["res_cmp closeLL (Ok (combine_cw Qops %s %s)) %s" % (G.qll(P), G.ql(W), G.res(o["comb"], G.sll)),
                 "res_cmp closeLL (Ok (combine_cw Qops %s (ones Qops %d))) %s" % (G.qll(P), len(P), G.res(o["comb_none"], G.sll))]
        if "ok" in o["comb"]:
            Pw = o["comb"]["ok"]           # implementation floats, fed back exactly
            Pxw = [list(p) + [w] for p, w in zip(P, W)]
            pair = lambda v: "(%s, %s)" % (G.sll(v[0]), G.sl(v[1]))
            parts.append("res_cmp cmp_sep (separate_res Qops %s) %s" % (G.qll(Pw), G.res(o["sep"], pair)))
            parts.append("res_cmp closeLL (generate_ctrlptsw Qops %s) %s" % (G.qll(Pxw), G.res(o["genw"], G.sll)))
            parts.append("res_cmp closeLL (generate_ctrlpts_weights Qops %s) %s" % (G.qll(Pw), G.res(o["genu"], G.sll)))
            rows = c["rows"]
            parts.append("res_cmp closeLLL (generate_ctrlptsw2d Qops %s) %s" % (G.qlll([Pxw] * rows), G.res(o["genw2d"], G.slll)))
            parts.append("res_cmp closeLLL (generate_ctrlpts2d_weights Qops %s) %s" % (G.qlll([Pw] * rows), G.res(o["genu2d"], G.slll)))
        return conj(parts)

    def oracle(self, c, out):
        if "ok" not in out:
            return "helpers: harness failure %s" % (out,)
        o = out["ok"]
        P, W, mal = c["P"], c["W"], c["mal"]
        if mal in ("empty",):
            return None
        if "ok" not in o["comb"]:
            return "combine: raised on a valid net: %s" % (o["comb"],)
        Pw = o["comb"]["ok"]
        m = min(len(P), len(W))
        # definition: weighted point = (c*w ..., w)
        for i in range(m):
            exp = [F(x) * F(W[i]) for x in P[i]] + [F(W[i])]
            if not gc.closel(Pw[i], exp):
                return "combine-def: point %d is %s, expected %s" % (i, Pw[i], [float(x) for x in exp])
        if mal != "none":
            return None
        if "ok" not in o["sep"] or not gc.closel(o["sep"]["ok"][0], P) or not gc.closel(o["sep"]["ok"][1], W):
            return "separate-combine: separate(combine(P, W)) = %s, expected (P, W)" % (o["sep"],)
        if "ok" not in o.get("comb2", {}) or not gc.closel(o["comb2"]["ok"], Pw):
            return "combine-separate: combine(separate(Pw)) differs from Pw"
        Pxw = [list(p) + [w] for p, w in zip(P, W)]
        if "ok" not in o["genw"] or not gc.closel(o["genw"]["ok"], Pw):
            return "generate_ctrlptsw: (x,y,z,w) -> %s, expected the weighted points %s" % (o["genw"], Pw)
        if "ok" not in o["genu"] or not gc.closel(o["genu"]["ok"], Pxw):
            return "generate_ctrlpts_weights: %s, expected %s" % (o["genu"], Pxw)
        if "ok" not in o.get("genu_genw", {}) or not gc.closel(o["genu_genw"]["ok"], Pxw):
            return "generate round trip (u after w) is not the identity"
        if "ok" not in o.get("genw_genu", {}) or not gc.closel(o["genw_genu"]["ok"], Pw):
            return "generate round trip (w after u) is not the identity"
        rows = c["rows"]
        if "ok" not in o["genw2d"] or not gc.closel(o["genw2d"]["ok"], [Pw] * rows):
            return "generate_ctrlptsw2d differs from the row-wise 1-D conversion"
        if "ok" not in o["genu2d"] or not gc.closel(o["genu2d"]["ok"], [Pxw] * rows):
            return "generate_ctrlpts2d_weights differs from the row-wise 1-D conversion"
        if "ok" not in o["comb_none"] or not gc.closel(o["comb_none"]["ok"], [list(p) + [1.0] for p in P]):
            return "combine(P, None): unit weights expected"
        return None

    def nontrivial(self, c, out):
        return c["mal"] == "none" and len(c["P"]) > 1

    def stratum(self, c, out):
        return "%s/dim%d" % (c["mal"], len(c["P"][0]) if c["P"] and c["P"][0] else 0)


# ------------------------------------------------------------------ family 2: the three views of a NURBS object
def view_obj(c):
    kind = c["kind"]
    if kind == "curve":
        o = NURBS.Curve()
        o.degree = c["degs"][0]
        o.set_ctrlpts(c["cpw"])
    elif kind == "surface":
        o = NURBS.Surface()
        o.degree_u, o.degree_v = c["degs"]
        o.set_ctrlpts(c["cpw"], *c["sizes"])
    else:
        o = NURBS.Volume()
        o.degree_u, o.degree_v, o.degree_w = c["degs"]
        o.set_ctrlpts(c["cpw"], *c["sizes"])
    return o


def view_apply(o, op):
    t = op[0]
    if t == "setw":
        o.ctrlptsw = copy.deepcopy(op[1])
        return None
    if t == "setp":
        o.ctrlpts = copy.deepcopy(op[1])
        return None
    if t == "setwts":
        if len(op) > 2 and op[2] == "inplace":
            # the read-modify-write idiom: edit the list the getter hands out and assign it back
            lst = o.weights
            if isinstance(lst, list) and len(lst) == len(op[1]):
                lst[:] = list(op[1])
                o.weights = lst
                return None
        o.weights = list(op[1])
        return None
    if t == "getw":
        return copy.deepcopy(o.ctrlptsw)
    if t == "getp":
        return copy.deepcopy(o.ctrlpts)
    return list(o.weights)


class Views(Family):
    name = "views"
    imports = ("Model.Weights", "Run.WeightsH")
    count = {"quick": 75, "thorough": 900}
    has_oracle = True

    def gen(self, rng, n):
        out = []
        for i in range(n):
            kind = ("curve", "surface", "volume")[i % 3]
            if kind == "curve":
                degs = [rng.randint(1, 3)]
                sizes = [degs[0] + 1 + rng.randint(0, 3)]
                dim = rng.choice([2, 3])
            elif kind == "surface":
                degs = [rng.randint(1, 2), rng.randint(1, 2)]
                sizes = [degs[0] + 1 + rng.randint(0, 1), degs[1] + 1 + rng.randint(0, 1)]
                dim = 3
            else:
                degs = [1, 1, 1]
                sizes = [2, 2, rng.choice([2, 3])]
                dim = 3
            m = 1
            for s in sizes:
                m *= s
            cpw = compatibility.combine_ctrlpts_weights(gc.points(rng, m, dim, grid=4, lim=8), gc.weights(rng, m))
            ops = []
            mal = "none"
            for _ in range(rng.randint(2, 8)):
                r = rng.random()
                if r < 0.16:
                    v = compatibility.combine_ctrlpts_weights(gc.points(rng, m, dim, grid=4, lim=8), gc.weights(rng, m))
                    if kind == "curve" and rng.random() < 0.12:
                        mal = "short"
                        v = v[:degs[0]]
                    elif kind == "curve" and rng.random() < 0.08:
                        mal = "ragged"
                        v[-1] = v[-1][:-1]
                    ops.append(["setw", v])
                elif r < 0.36:
                    k = m
                    if rng.random() < 0.1:
                        mal = "count"
                        # fewer points than the grid on a surface make set_ctrlpts fail half-way (IndexError while
                        # rebuilding ctrlpts2d): not generated
                        k = m + rng.choice([-1, 1]) if kind == "volume" else m + 1
                    ops.append(["setp", gc.points(rng, k, dim, grid=4, lim=8)])
                elif r < 0.56:
                    w = gc.weights(rng, m)
                    if rng.random() < 0.5:
                        w = [rng.choice([0.125, 0.375, 0.625, 1.25, 2.5, 3.5, 6.0]) * (1 + j) for j in range(m)]
                    if rng.random() < 0.08:
                        mal = "zero"
                        w[rng.randrange(m)] = 0.0
                    ops.append(["setwts", w] + (["inplace"] if (len(w) == m and rng.random() < 0.35) else []))
                elif r < 0.72:
                    ops.append(["getp"])
                elif r < 0.88:
                    ops.append(["getwts"])
                else:
                    ops.append(["getw"])
            out.append({"kind": kind, "degs": degs, "sizes": sizes, "cpw": cpw, "ops": ops, "mal": mal})
        return out

    def impl(self, c):
        def run():
            o = view_obj(c)
            outs = []
            for op in c["ops"]:
                outs.append(call(view_apply, o, op))
            final = copy.deepcopy(o.ctrlptsw)
            # all three views after every prefix, read from a replayed object (reading fills caches)
            prefix = []
            for k in range(len(c["ops"]) + 1):
                o2 = view_obj(c)
                for op in c["ops"][:k]:
                    call(view_apply, o2, op)
                prefix.append([call(lambda: copy.deepcopy(o2.ctrlptsw)), call(lambda: copy.deepcopy(o2.ctrlpts)), call(lambda: list(o2.weights))])
            return {"outs": outs, "final": final, "prefix": prefix}
        return call(quiet, run)

    @staticmethod
    def _mins(c):
        if c["kind"] == "curve":
            return c["degs"][0] + 1, 3
        return 0, (3 if c["kind"] == "surface" else 4)

    def coq(self, c, out):
        if "ok" not in out:
            return None
        o = out["ok"]
        ml, md = self._mins(c)
        ops = []
        for op in c["ops"]:
            t = op[0]
            if t == "setw":
                ops.append("VSetCpw %s" % G.qll(op[1]))
            elif t == "setp":
                ops.append("VSetPts %s" % G.qll(op[1]))
            elif t == "setwts":
                ops.append("VSetWts %s" % G.ql(op[1]))
            else:
                ops.append({"getw": "VGetCpw", "getp": "VGetPts", "getwts": "VGetWts"}[t])
        outs = []
        for op, r in zip(c["ops"], o["outs"]):
            t = op[0]
            if t in ("setw", "setp", "setwts"):
                outs.append(G.res(r, lambda v: "IvNone"))
            elif t == "getwts":
                outs.append(G.res(r, lambda v: "(IvWts %s)" % G.sl(v)))
            else:
                outs.append(G.res(r, lambda v: "(IvPts %s)" % G.sll(v)))
        return "(check_views %s %s %s [%s] [%s] %s)" % (G.n(ml), G.n(md), G.qll(c["cpw"]), "; ".join(ops), "; ".join(outs), G.sll(o["final"]))

    def oracle(self, c, out):
        if "ok" not in out:
            return "views: harness failure %s" % (out,)
        o = out["ok"]
        # (a) the three views are related by multiplication with the weight after every prefix
        for k, (pw, p, w) in enumerate(o["prefix"]):
            if "ok" not in pw:
                return "views: ctrlptsw getter raised after %d ops" % k
            if any(len(x) >= 1 and x[-1] == 0.0 for x in pw["ok"]):
                continue        # a zero weight was written: the unweighted view does not exist
            if any(len(x) != len(pw["ok"][0]) for x in pw["ok"]):
                continue
            if "ok" not in p or "ok" not in w:
                return "views: getter raised after %d ops on positive weights: %s %s" % (k, p, w)
            P, W, PW = p["ok"], w["ok"], pw["ok"]
            if len(P) != len(PW) or len(W) != len(PW):
                return "views-length: after %d ops ctrlpts has %d, weights %d, ctrlptsw %d entries" % (k, len(P), len(W), len(PW))
            for i in range(len(PW)):
                exp = [F(x) * F(W[i]) for x in P[i]] + [F(W[i])]
                if not gc.closel(PW[i], exp):
                    return "views-consistency: after %d ops point %d: ctrlptsw=%s but ctrlpts*w,w=%s" % (k, i, PW[i], [float(x) for x in exp])
        # (b) setting one view and reading the others round-trips
        for k, (op, r) in enumerate(zip(c["ops"], o["outs"])):
            if "ok" not in r or op[0] not in ("setw", "setp", "setwts"):
                continue
            before, after = o["prefix"][k], o["prefix"][k + 1]
            if not all("ok" in x for x in before) or not all("ok" in x for x in after):
                continue
            if op[0] == "setw" and not gc.closel(after[0]["ok"], op[1]):
                return "roundtrip-ctrlptsw: set then get differs after op %d" % k
            if op[0] == "setp" and len(op[1]) == len(before[2]["ok"]):
                if not gc.closel(after[1]["ok"], op[1]):
                    return "roundtrip-ctrlpts: set ctrlpts then get returns %s, expected %s (op %d)" % (after[1]["ok"], op[1], k)
                if not gc.closel(after[2]["ok"], before[2]["ok"]):
                    return "roundtrip-ctrlpts: weights changed by setting ctrlpts (op %d)" % k
            if op[0] == "setwts" and len(op[1]) == len(before[1]["ok"]) and all(x != 0.0 for x in op[1]):
                if not gc.closel(after[2]["ok"], op[1]):
                    return "roundtrip-weights: set weights then get returns %s, expected %s (op %d)" % (after[2]["ok"], op[1], k)
                if not gc.closel(after[1]["ok"], before[1]["ok"]):
                    return "roundtrip-weights: ctrlpts changed by setting weights: %s -> %s (op %d)" % (before[1]["ok"], after[1]["ok"], k)
        return None

    def nontrivial(self, c, out):
        return "ok" in out and any("ok" in r and op[0].startswith("set") for op, r in zip(c["ops"], out["ok"]["outs"]))

    def stratum(self, c, out):
        return "%s/%s" % (c["kind"], c["mal"])


# ------------------------------------------------------------------ family 3: convert both ways
class Convert(Family):
    name = "convert"
    imports = ("Model.Weights", "Model.Eval", "Run.WeightsH")
    count = {"quick": 54, "thorough": 540}
    has_oracle = True

    def gen(self, rng, n):
        out = []
        for i in range(n):
            kind = ("curve", "surface", "volume")[i % 3]
            sh = rand_shape(rng, kind, False)
            sh["params"] = rand_params(rng, sh)
            sh["back"] = ("unit", "nonunit", "max1", "min1", "unit", "max1")[(i // 3) % 6]
            m = len(sh["pts"])
            if sh["back"] == "unit":
                wb = [1.0] * m
            elif sh["back"] == "nonunit":
                wb = [2.0] + [1.0] * (m - 1)
            else:
                # largest (smallest) weight exactly 1, at least one other weight below (above) 1
                pool = [1.0, 0.5, 0.25, 0.75] if sh["back"] == "max1" else [1.0, 2.0, 3.0, 1.5]
                wb = [rng.choice(pool) for _ in range(m)]
                a, b = rng.sample(range(m), 2)
                wb[a], wb[b] = 1.0, pool[rng.randint(1, 3)]
            sh["wback"] = wb
            out.append(sh)
        return out

    def impl(self, c):
        def run():
            b = build(c, False)
            nb = convert.bspline_to_nurbs(b)
            o = {"rational": bool(nb.rational), "cpw": copy.deepcopy(nb.ctrlptsw), "weights": list(nb.weights),
                 "kvs": obj_kvs(nb), "degs": obj_degs(nb), "sizes": obj_sizes(nb),
                 "pts_b": [eval_single(b, p) for p in c["params"]], "pts_n": [eval_single(nb, p) for p in c["params"]]}
            if c["back"] != "unit":
                nb.weights = list(c["wback"])
            bb = convert.nurbs_to_bspline(nb)
            o["back_rational"] = bool(bb.rational)
            o["back_same_object"] = bb is nb
            o["back_ctrlpts"] = copy.deepcopy(bb.ctrlpts)
            o["back_kvs"] = obj_kvs(bb)
            o["pts_bb"] = [eval_single(bb, p) for p in c["params"]]
            return o
        return call(quiet, run)

    def coq(self, c, out):
        if "ok" not in out:
            return None
        o = out["ok"]
        P = G.qll(c["pts"])
        dim = c["dim"]
        parts = ["closeLL (to_rational Qops %s) %s" % (P, G.sll(o["cpw"]))]
        for prm, pn, pb in zip(c["params"], o["pts_n"], o["pts_b"]):
            parts.append("closeL %s %s" % (coq_point(o["degs"], o["kvs"], o["sizes"], "(to_rational Qops %s)" % P, prm, dim + 1, True), G.sl(pn)))
            parts.append("closeL %s %s" % (coq_point(o["degs"], o["kvs"], o["sizes"], P, prm, dim, False), G.sl(pb)))
        unit = c["back"] == "unit"
        parts.append("Bool.eqb (all_unit Qops %s %s) %s" % (G.Q(TOL8), G.ql(c["wback"]), G.b(not o["back_rational"])))
        if not unit:
            for prm, pbb in zip(c["params"], o["pts_bb"]):
                parts.append("closeL %s %s" % (coq_point(o["degs"], o["kvs"], o["sizes"], "(combine_cw Qops %s %s)" % (P, G.ql(c["wback"])), prm, dim + 1, True), G.sl(pbb)))
        if unit:
            parts.append("closeLL (fst (separate_cw Qops (to_rational Qops %s))) %s" % (P, G.sll(o["back_ctrlpts"])))
        return conj(parts)

    def oracle(self, c, out):
        if "ok" not in out:
            return "convert: conversion or evaluation raised on a valid shape: %s" % (out,)
        o = out["ok"]
        if not o["rational"]:
            return "convert: bspline_to_nurbs returned a non-rational object"
        if any(w != 1.0 for w in o["weights"]):
            return "convert: weights after bspline_to_nurbs are %s" % o["weights"]
        for prm, pb, pn, pbb in zip(c["params"], o["pts_b"], o["pts_n"], o["pts_bb"]):
            exact = eval_exact(c["degs"], o["kvs"], c["sizes"], c["pts"], prm, False)
            if not gc.closel(pb, exact):
                return "convert: B-spline evaluation at %s = %s, exact %s" % (prm, pb, [float(x) for x in exact])
            if not gc.closel(pn, exact):
                return "convert-eval: bspline_to_nurbs evaluates to %s at %s, the B-spline gives %s" % (pn, prm, [float(x) for x in exact])
            if c["back"] == "unit" and not gc.closel(pbb, exact):
                return "convert-eval: nurbs_to_bspline evaluates to %s at %s, expected %s" % (pbb, prm, [float(x) for x in exact])
        if c["back"] == "unit":
            if o["back_rational"]:
                return "convert: nurbs_to_bspline kept a unit-weight shape rational"
            if not gc.closel(o["back_ctrlpts"], c["pts"]) or not gc.closel(o["back_kvs"], o["kvs"]):
                return "convert: round trip changed control points or knot vectors"
        else:
            if not o["back_rational"] or not o["back_same_object"]:
                return "convert: a rational shape with the non-unit weights %s was converted to a non-rational one" % (c["wback"],)
            cpw = [[F(x) * F(w) for x in p] + [F(w)] for p, w in zip(c["pts"], c["wback"])]
            for prm, pbb in zip(c["params"], o["pts_bb"]):
                exact = eval_exact(c["degs"], o["kvs"], c["sizes"], cpw, prm, True)
                if not gc.closel(pbb, exact):
                    return "convert-eval: after nurbs_to_bspline the shape with weights %s evaluates to %s at %s, expected %s" % (
                        c["wback"], pbb, prm, [float(x) for x in exact])
        return None

    def stratum(self, c, out):
        return "%s/%s" % (c["kind"], c["back"])


# ------------------------------------------------------------------ family 4: scaling all weights
class Scaling(Family):
    name = "scaling"
    imports = ("Model.Weights", "Model.Eval", "Run.WeightsH")
    count = {"quick": 42, "thorough": 450}
    has_oracle = True

    def gen(self, rng, n):
        out = []
        for i in range(n):
            kind = ("curve", "surface", "volume")[i % 3]
            sh = rand_shape(rng, kind, True)
            sh["params"] = rand_params(rng, sh)
            sh["c"] = rng.choice([0.125, 0.5, 2.0, 3.0, 7.0, 0.375, 10.0])
            sh["via"] = rng.choice(["weights", "ctrlptsw"])
            out.append(sh)
        return out

    def impl(self, c):
        def run():
            nb = build(c, True)
            o = {"kvs": obj_kvs(nb), "before": [eval_single(nb, p) for p in c["params"]], "cpw0": copy.deepcopy(nb.ctrlptsw)}
            if c["via"] == "weights":
                nb.weights = [w * c["c"] for w in nb.weights]
            else:
                nb.ctrlptsw = [[x * c["c"] for x in pt] for pt in nb.ctrlptsw]
            o["after"] = [eval_single(nb, p) for p in c["params"]]
            o["cpw1"] = copy.deepcopy(nb.ctrlptsw)
            o["ctrlpts1"] = copy.deepcopy(nb.ctrlpts)
            o["weights1"] = list(nb.weights)
            return o
        return call(quiet, run)

    def coq(self, c, out):
        if "ok" not in out:
            return None
        o = out["ok"]
        P, W = G.qll(c["pts"]), G.ql(c["ws"])
        Ws = G.ql([F(w) * F(c["c"]) for w in c["ws"]])
        dimh = c["dim"] + 1
        parts = ["closeLL (combine_cw Qops %s %s) %s" % (P, W, G.sll(o["cpw0"])),
                 "closeLL (combine_cw Qops %s %s) %s" % (P, Ws, G.sll(o["cpw1"]))]
        for prm, a, b in zip(c["params"], o["before"], o["after"]):
            parts.append("closeL %s %s" % (coq_point(c["degs"], o["kvs"], c["sizes"], "(combine_cw Qops %s %s)" % (P, W), prm, dimh, True), G.sl(a)))
            parts.append("closeL %s %s" % (coq_point(c["degs"], o["kvs"], c["sizes"], "(combine_cw Qops %s %s)" % (P, Ws), prm, dimh, True), G.sl(b)))
        return conj(parts)

    def oracle(self, c, out):
        if "ok" not in out:
            return "scaling: raised on a valid rational shape: %s" % (out,)
        o = out["ok"]
        cpw = [[F(x) * F(w) for x in p] + [F(w)] for p, w in zip(c["pts"], c["ws"])]
        for prm, a, b in zip(c["params"], o["before"], o["after"]):
            exact = eval_exact(c["degs"], o["kvs"], c["sizes"], cpw, prm, True)
            if not gc.closel(a, exact):
                return "scaling: rational evaluation at %s = %s, exact %s" % (prm, a, [float(x) for x in exact])
            if not gc.closel(b, a):
                return "scaling-moved: multiplying all weights by %s moved the point at %s from %s to %s" % (c["c"], prm, a, b)
        if not gc.closel(o["ctrlpts1"], c["pts"]):
            return "scaling: unweighted control points changed"
        if not gc.closel(o["weights1"], [F(w) * F(c["c"]) for w in c["ws"]]):
            return "scaling: weights are %s" % o["weights1"]
        return None

    def stratum(self, c, out):
        return "%s/%s" % (c["kind"], c["via"])


# ------------------------------------------------------------------ family 5: GridWeighted
def grid_apply(g, op):
    t = op[0]
    if t == "gen":
        g.generate(op[1], op[2])
        return None
    if t == "all":
        g.weight = op[1]
        return None
    if t == "list":
        g.weight = list(op[1])
        return None
    if t == "read":
        return copy.deepcopy(g.grid)
    if t == "readw":
        return list(g.weight)
    g.reset()
    return None


def distinct_weights(rng, n):
    base = [0.125 * k for k in range(1, 8 * 8)]
    return rng.sample(base, n)


class GridW(Family):
    name = "gridw"
    imports = ("Model.Weights", "Run.WeightsH")
    count = {"quick": 48, "thorough": 400}
    has_oracle = True

    def gen(self, rng, n):
        out = []
        sizes = [(a, b) for a in range(1, 7) for b in range(1, 7)]
        rng.shuffle(sizes)
        for i in range(n):
            nu, nv = sizes[i % 36]
            sx, sy = rng.choice([1.0, 2.0, 3.0, 7.0]), rng.choice([1.0, 4.0, 5.0, 13.0])
            z = rng.choice([0.0, 1.0, -2.5])
            m = (nu + 1) * (nv + 1)
            ops = [["gen", nu, nv]]
            if i >= 36:
                if rng.random() < 0.5:
                    ops.append(["read"])
            ops.append(["list", distinct_weights(rng, m)])
            ops.append(["read"])
            for _ in range(rng.randint(0, 4)):
                r = rng.random()
                if r < 0.2:
                    ops.append(["all", rng.choice([0.5, 2.0, 3.0])])
                elif r < 0.4:
                    ops.append(["list", distinct_weights(rng, m)])
                elif r < 0.5:
                    ops.append(["list", distinct_weights(rng, m + 1)])          # wrong length: ValueError
                elif r < 0.55:
                    ops.append(["all", -1.0])
                elif r < 0.65:
                    ops.append(["reset"])
                elif r < 0.78:
                    nu2, nv2 = rng.randint(0, 4), rng.randint(1, 4)
                    ops.append(["gen", nu2, nv2])
                    if nu2 >= 1:
                        m = (nu2 + 1) * (nv2 + 1)
                elif r < 0.9:
                    ops.append(["read"])
                else:
                    ops.append(["readw"])
            ops.append(["read"])
            out.append({"sx": sx, "sy": sy, "z": z, "ops": ops})
        return out

    def impl(self, c):
        def run():
            g = CPGen.GridWeighted(c["sx"], c["sy"], z_value=c["z"])
            return [call(grid_apply, g, op) for op in c["ops"]]
        return call(quiet, run)

    def coq(self, c, out):
        if "ok" not in out:
            return None
        ops, outs = [], []
        for op, r in zip(c["ops"], out["ok"]):
            t = op[0]
            if t == "gen":
                ops.append("GGenerate %s %s" % (G.n(op[1]), G.n(op[2])))
            elif t == "all":
                ops.append("GSetAll %s" % G.Q(op[1]))
            elif t == "list":
                ops.append("GSetList %s" % G.ql(op[1]))
            else:
                ops.append({"read": "GRead", "readw": "GReadW", "reset": "GReset"}[t])
            if t == "read":
                outs.append(G.res(r, lambda v: "(IgGrid %s)" % G.slll(v)))
            elif t == "readw":
                outs.append(G.res(r, lambda v: "(IgW %s)" % G.sl(v)))
            else:
                outs.append(G.res(r, lambda v: "IgNone"))
        return "(check_grid %s %s %s [%s] [%s])" % (G.Q(c["sx"]), G.Q(c["sy"]), G.Q(c["z"]), "; ".join(ops), "; ".join(outs))

    def oracle(self, c, out):
        if "ok" not in out:
            return "gridw: harness failure %s" % (out,)
        # independent replay of the definition: current division numbers and current weights
        nu = nv = None
        W = None
        for k, (op, r) in enumerate(zip(c["ops"], out["ok"])):
            t = op[0]
            if t == "gen":
                if op[1] >= 1 and op[2] >= 1:
                    if "ok" not in r:
                        return "gridw: generate(%d, %d) raised %s" % (op[1], op[2], r)
                    nu, nv, W = op[1], op[2], None
                elif "rej" not in r:
                    return "gridw: generate(%d, %d) not rejected" % (op[1], op[2])
            elif t == "reset":
                nu = nv = W = None
            elif t == "all":
                if nu is not None and op[1] > 0:
                    if "ok" not in r:
                        return "gridw: weight setter raised %s" % (r,)
                    W = [op[1]] * ((nu + 1) * (nv + 1))
                elif "rej" not in r:
                    return "gridw: invalid weight accepted"
            elif t == "list":
                if nu is not None and len(op[1]) == (nu + 1) * (nv + 1):
                    if "ok" not in r:
                        return "gridw: weight setter raised %s" % (r,)
                    W = list(op[1])
                elif "rej" not in r:
                    return "gridw: weight list of the wrong size accepted"
            elif t == "read":
                if "ok" not in r:
                    return "gridw: grid getter raised %s" % (r,)
                grid = r["ok"]
                if nu is None:
                    if grid != []:
                        return "gridw: grid not empty after reset"
                    continue
                if len(grid) != nu + 1 or any(len(row) != nv + 1 for row in grid):
                    return "gridw-shape: %d rows, expected %d x %d" % (len(grid), nu + 1, nv + 1)
                dx, dy = F(c["sx"]) / nu, F(c["sy"]) / nv
                for i in range(nu + 1):
                    for j in range(nv + 1):
                        w = F(W[j + i * (nv + 1)]) if W is not None else F(1)
                        exp = [i * dx * w, j * dy * w, F(c["z"]) * w, w]
                        if not gc.closel(grid[i][j], exp):
                            return "gridw-own-weight: after op %d grid point (%d,%d) = %s, expected %s (its own weight %s)" % (
                                k, i, j, grid[i][j], [float(x) for x in exp], float(w))
        return None

    def nontrivial(self, c, out):
        return "ok" in out and all("ok" in r for op, r in zip(c["ops"], out["ok"]) if op[0] == "read")

    def stratum(self, c, out):
        return "%dx%d" % (c["ops"][0][1], c["ops"][0][2])


def families():
    return [Helpers(), Views(), Convert(), Scaling(), GridW()]
