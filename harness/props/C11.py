"""C11 - fitted curves and surfaces meet interpolation and least-squares conditions."""
import math
from fractions import Fraction as F
from core import Family, call
import gal as G
import gencommon as gc
from geomdl import fitting, linalg

RULE = ("structured generators over number of data points (3..12 quick / 3..40 thorough per direction) x dimension {2,3} x degree "
        "1..5 x parametrisation {chord length, centripetal} x all admissible control-point counts x data kind {Pythagorean steps "
        "(exact chord lengths: the Coq model is evaluated), general grid points (irrational chords: exact oracle; model evaluated on "
        "small sizes)}; surfaces with different sizes and degrees per direction; non-trivial = the implementation returned a "
        "shape and the fit has at least one interior control point ; distinct by case hash")
ASSUMPTIONS = [
    "floating point rounding below 1e-8 (control points) / 1e-9 (parameters, knots) is not observable",
    "sqrt is not modelled: the chord lengths computed by the implementation's own point_distance (and math.sqrt for the centripetal method) are inputs of the model, checked against the exact squared distances",
    "data points with distinct consecutive points (one malformed stratum: all points identical)",
    "the Coq model is evaluated on inputs where exact rational evaluation is affordable (size / degree caps in cost_ok) and well conditioned (control points within 8x the data range); every case is checked by the exact oracle",
]
THEOREM_NOTES = "see coq/Props/C11.v: [G] general, 'given pivots' = under the hypothesis that Doolittle meets no zero pivot"
LEVEL_TEXT = ("Coq theorems over the reals about the Gallina model coq/Model/Fit.v (uses Model/LinAlg.v, Model/Basis.v, Model/Eval.v): parameters start "
              "at 0, end at 1 and are non-decreasing [G]; the averaged knot vector is a valid clamped knot vector accepted by knotvector.check [G]; "
              "collocation row i applied to the control points is the B-spline sum over the active window [G]; interpolate_curve returns a curve "
              "whose evaluator-model point at every parameter u_k is the data point Q_k, from the chords, given non-zero Doolittle pivots [G]; "
              "interpolate_surface: the two passes compose to S(u_k, v_l) = Q_kl for different sizes / degrees per direction, given non-zero pivots "
              "and in-range spans [G]; least-squares: a solution of the normal equations minimises the summed squared residual [G, pure algebra]; "
              "approximate_curve (and every row / column solve of approximate_surface) keeps the end data points as end control points and its "
              "interior control points solve the normal equations, hence are least-squares optimal, given non-zero pivots [G]. Round 2 "
              "(Proofs/FitSurfMore.v): interpolate_surface from the chords with the span hypotheses discharged (only non-zero pivots remain), "
              "approximate_surface keeps the four corner data points as corner control points and interpolates them (composition of the two passes). "
              "The LU factorisations EXIST (Proofs/BsplineTP.v, CollocationLU*.v, ApproxLU.v): the averaged knot vector satisfies the "
              "Schoenberg-Whitney conditions, B-spline collocation minors are totally positive (knot insertion / Boehm), so every Doolittle pivot of "
              "the interpolation matrix is > 0 for every degree and size, and N^T N is positive definite - hence, WITHOUT any pivot hypothesis: for "
              "data with positive chords interpolate_curve returns a curve passing through every data point at its parameter, interpolate_surface "
              "likewise, approximate_curve is least-squares optimal with interpolated ends, approximate_surface interpolates the corners; also on "
              "the executed Q instance.  NOT proved: least-squares optimality of the composed two-pass surface; sqrt (chord lengths are inputs "
              "of the model); floating point.")
LEVEL_NOTE = ("Trusted: Coq 8.16.1 kernel incl. vm_compute; standard-library real-number axioms as printed by Print Assumptions; the hand-written "
              "model's fidelity to geomdl/fitting.py is sampled by the correspondence check (1e-8 tolerance on control points); chord lengths "
              "(sqrt) are inputs of the model")
# functions of the numerical core this property rests on that are also tied by the translator (tie theorems: Proofs/GenTie*.v, restated in Props/)
TRANSLATED = ["helpers.find_span_linear", "helpers.basis_function_one", "linalg.lu_solve", "linalg.lu_decomposition", "_linalg.doolittle", "linalg.forward_substitution", "linalg.backward_substitution", "linalg.matrix_transpose", "linalg.matrix_multiply", "fitting.compute_knot_vector", "fitting.compute_knot_vector2", "fitting.compute_params_curve", "fitting._build_coeff_matrix", "fitting.interpolate_curve", "fitting.compute_params_surface", "fitting.interpolate_surface", "fitting.approximate_curve"]
TECHNIQUE = "machine-checked proof in Coq over a hand-written Gallina model + model/implementation correspondence check evaluated by coqc (vm_compute) + exact Fraction oracles (exact evaluation of the fitted shape at the data parameters, normal equations)"

THOROUGH = [False]

# step vectors with perfect-square Euclidean length (chord length AND its square root are exact)
STEPS2 = [(1, 0), (0, 1), (4, 0), (0, 4), (9, 0), (0, 9), (16, 0), (0, 16), (15, 20), (20, 15), (7, 24), (24, 7)]
STEPS3 = [(1, 0, 0), (0, 4, 0), (0, 0, 9), (16, 0, 0), (1, 4, 8), (4, 8, 1), (8, 1, 4), (4, 4, 7), (7, 4, 4), (3, 6, 6), (6, 6, 3),
          (0, 15, 20), (9, 12, 20), (12, 15, 16), (20, 9, 12)]
# integer length only (chord-length parametrisation)
STEPS2I = [(3, 4), (4, 3), (5, 12), (12, 5), (6, 8), (8, 15), (2, 0), (0, 3), (5, 0)]
STEPS3I = [(1, 2, 2), (2, 3, 6), (2, 6, 9), (6, 2, 3), (3, 4, 12), (0, 3, 4), (2, 0, 0), (0, 0, 5)]


def signed(rng, st):
    return tuple(x * rng.choice([1, -1]) for x in st)


def polyline(rng, n, dim, centripetal, scale=1.0):
    """points with exactly representable chord lengths (and square roots when centripetal)"""
    steps = list(STEPS2 if dim == 2 else STEPS3)
    if not centripetal:
        steps += STEPS2I if dim == 2 else STEPS3I
    p = [float(rng.randint(-8, 8)) for _ in range(dim)]
    pts = [list(p)]
    for _ in range(n - 1):
        st = signed(rng, rng.choice(steps))
        p = [a + b * scale for a, b in zip(p, st)]
        pts.append(list(p))
    return pts


def general_points(rng, n, dim):
    pts = []
    while len(pts) < n:
        q = [rng.randint(-64, 64) / 4.0 for _ in range(dim)]
        if not pts or q != pts[-1]:
            pts.append(q)
    return pts


def chords(pts, centripetal):
    """the implementation's own chord values (inputs of the model)"""
    out = []
    for i in range(1, len(pts)):
        d = linalg.point_distance(pts[i], pts[i - 1])
        out.append(math.sqrt(d) if centripetal else d)
    return out


def spec_params(pts, centripetal):
    """Eqs 9.4-9.6 with correctly rounded square roots (independent of the implementation); floats"""
    ds = []
    for a, b in zip(pts, pts[1:]):
        s = sum((F(x) - F(y)) ** 2 for x, y in zip(a, b))
        d = math.sqrt(s)      # Fraction -> float conversion is exact for this data (multiples of 1/16)
        ds.append(math.sqrt(d) if centripetal else d)
    tot = math.fsum(ds)
    return [math.fsum(ds[:i]) / tot for i in range(len(pts))]


def spec_params_surface(pts, su, sv, centripetal):
    rows = [spec_params([pts[v + sv * u] for u in range(su)], centripetal) for v in range(sv)]
    cols = [spec_params([pts[v + sv * u] for v in range(sv)], centripetal) for u in range(su)]
    uk = [math.fsum(r[u] for r in rows) / sv for u in range(su)]
    vl = [math.fsum(c[v] for c in cols) / su for v in range(sv)]
    return uk, vl


def basis_all(U, p, n, u):
    """[N_{j,p}(u) for j < n] exactly; at the right end of the domain the last function is 1"""
    if u >= U[n]:
        k = gc.exact_span(U, p, n, u)
        Ns = gc.basis_closed(U, p, k, u)
        return [Ns[j - (k - p)] if k - p <= j <= k else F(0) for j in range(n)]
    k = gc.exact_span(U, p, n, u)
    Ns = gc.basis_closed(U, p, k, u)      # A2.2 in exact arithmetic (equals Cox-de Boor on the span)
    out = [F(0)] * n
    for j in range(p + 1):
        out[k - p + j] = Ns[j]
    return out


def eval_surface_exact(pu, pv, Uu, Uv, su, sv, P, u, v):
    Nu = basis_all(Uu, pu, su, u)
    Nv = basis_all(Uv, pv, sv, v)
    dim = len(P[0])
    return [sum(Nu[i] * Nv[j] * F(P[j + sv * i][c]) for i in range(su) if Nu[i] for j in range(sv) if Nv[j]) for c in range(dim)]


def eval_curve(p, U, P, u):
    Ns = basis_all(U, p, len(P), u)
    return [sum(Ns[i] * F(P[i][c]) for i in range(len(P)) if Ns[i]) for c in range(len(P[0]))]


def pt_close(a, b, tol=F(1, 10 ** 7)):
    sc = max([F(1)] + [abs(F(x)) for x in b])
    return all(abs(F(x) - F(y)) <= tol * sc for x, y in zip(a, b)) and len(a) == len(b)


def params_msg(label, got, exp):
    if len(got) != len(exp) or any(abs(a - b) > 1e-9 for a, b in zip(got, exp)):
        return "%s: parameters %s differ from the chord-length / centripetal definition %s" % (label, got[:6], exp[:6])
    if got[0] != 0.0 or abs(got[-1] - 1.0) > 1e-12 or any(a > b + 1e-15 for a, b in zip(got, got[1:])):
        return "%s: parameters do not run monotonically from 0 to 1: %s" % (label, got[:8])
    return None


def kv_msg(label, kv, p, n):
    if len(kv) != n + p + 1 or any(a > b for a, b in zip(kv, kv[1:])) or kv[:p + 1] != [0.0] * (p + 1) or kv[-p - 1:] != [1.0] * (p + 1):
        return "%s: knot vector is not a clamped non-decreasing vector of length n+p+1: %s" % (label, kv)
    return None


def size_for(rng, i, lo=3):
    hi = 40 if THOROUGH[0] else 12
    # mostly small, some large
    r = rng.random()
    if r < 0.55:
        return rng.randint(lo, min(hi, 7))
    if r < 0.9:
        return rng.randint(lo, min(hi, 12))
    return rng.randint(lo, hi)


def cost_ok(n, p, approx=False):
    """exact evaluation of the model grows steeply with size and degree: evaluate it only where it stays cheap
    (larger inputs are covered by the exact oracle)"""
    if approx:
        return n <= 12 or (p <= 2 and n <= 28) or (p <= 3 and n <= 16)
    return n <= 12 or (p <= 2 and n <= 40) or (p <= 3 and n <= 24) or (p <= 4 and n <= 16)


def well_conditioned(case, out):
    """least-squares / interpolation systems whose solution is far larger than the data are ill-conditioned: the float result
    is then compared by the exact oracle only"""
    if "ok" not in out:
        return True
    big = max([1.0] + [abs(x) for q in case["pts"] for x in q])
    return max(abs(x) for q in out["ok"]["P"] for x in q) <= 8 * big + 8


def model_ok(case, out=None):
    """evaluate the Coq model on this case? (exact chords always; irrational chords only for small sizes)"""
    if out is not None and not well_conditioned(case, out):
        return False
    if "su" in case:
        ap = "cu" in case
        if not (cost_ok(case["su"], case["pu"], ap) and cost_ok(case["sv"], case["pv"], ap) and case["su"] * case["sv"] <= 80):
            return False
    else:
        if not cost_ok(len(case["pts"]), case["p"], "c" in case):
            return False
    return case["data"] == "pyth" or case.get("small", False)


# ------------------------------------------------------------------ curves
class InterpCurve(Family):
    name = "interp_curve"
    imports = ("Model.Fit", "Model.LinAlg", "Run.LinAlgH")
    count = {"quick": 120, "thorough": 700}
    has_oracle = True
    timeout = 120

    def gen(self, rng, n):
        THOROUGH[0] = n >= self.count["thorough"]
        out = []
        for i in range(n):
            dim = 2 + i % 2
            cent = (i // 2) % 2 == 1
            mal = None
            if i % 11 == 10:
                mal = rng.choice(["degree", "identical"])
            data = "pyth" if i % 3 else "general"
            npts = size_for(rng, i)
            p = rng.randint(1, min(5, npts - 1))
            pts = polyline(rng, npts, dim, cent) if data == "pyth" else general_points(rng, npts, dim)
            if mal == "degree":
                p = npts + rng.randint(0, 1)
            if mal == "identical":
                pts = [list(pts[0]) for _ in pts]
            if mal is None and not cent and i % 13 == 7 and npts >= 4:
                # near-duplicate final sample: the last chord is 2^-21 (< 10e-8 of the total chord length), so the last but one
                # parameter lies within 1e-7 of the domain end - still a valid, strictly increasing configuration.  Checked by
                # the exact oracle only (the collocation matrix has condition number ~1e7)
                pts = polyline(rng, npts, dim, False)
                pts[-1] = [pts[-2][0] + 2.0 ** -21] + list(pts[-2][1:])
                data, p = "neardup", min(p, 3)
            out.append({"pts": pts, "p": p, "cent": cent, "data": data, "mal": mal, "small": npts <= 4 and data != "neardup"})
        return out

    def impl(self, c):
        linalg.matrix_identity.cache_clear()
        def f():
            crv = fitting.interpolate_curve(c["pts"], c["p"], centripetal=c["cent"])
            return {"P": [list(x) for x in crv.ctrlpts], "kv": list(crv.knotvector), "deg": crv.degree,
                    "uk": fitting.compute_params_curve(c["pts"], c["cent"])}
        r = call(f)
        r["cds"] = chords(c["pts"], c["cent"])
        return r

    def coq(self, c, out):
        if not model_ok(c, out):
            return None
        cds = out["cds"]
        e = "(andb (close_chords %s (sqdists Qops %s) %s) (res_cmp cmp_fit1 (interpolate_curve Qops %s %s %s) %s))" % (
            G.b(c["cent"]), G.qll(c["pts"]), G.ql(cds), G.qll(c["pts"]), G.n(c["p"]), G.ql(cds),
            G.res(out, lambda o: "(%s, %s)" % (G.sll(o["P"]), G.sl(o["kv"]))))
        if "ok" in out:
            e = "(andb %s (res_cmp closeL (compute_params_curve Qops %s) (Ok %s)))" % (e, G.ql(cds), G.sl(out["ok"]["uk"]))
        return e

    def coq_show(self, c, out):
        return "(interpolate_curve Qops %s %s %s)" % (G.qll(c["pts"]), G.n(c["p"]), G.ql(out["cds"]))

    def oracle(self, c, out):
        if c["mal"]:
            return None if "ok" not in out else ("interp-curve: malformed input (%s) accepted" % c["mal"] if c["mal"] == "identical" else None)
        if "ok" not in out:
            return "interp-curve: no curve for %d distinct-consecutive data points, degree %d: %s" % (len(c["pts"]), c["p"], out)
        o = out["ok"]
        pts, p = c["pts"], c["p"]
        if o["deg"] != p or len(o["P"]) != len(pts):
            return "interp-curve-shape: degree %s with %d control points" % (o["deg"], len(o["P"]))
        m = params_msg("interp-curve-params", o["uk"], spec_params(pts, c["cent"])) or kv_msg("interp-curve-knots", o["kv"], p, len(pts))
        if m:
            return m
        U = gc.fr(o["kv"])
        for k, (u, q) in enumerate(zip(o["uk"], pts)):
            v = eval_curve(p, U, o["P"], F(u))
            if not pt_close(v, q):
                return "interp-curve: C(u_%d) = %s but data point %d is %s (u = %r)" % (k, [float(x) for x in v], k, q, u)
        return None

    def nontrivial(self, c, out):
        return "ok" in out and len(c["pts"]) > c["p"] + 1

    def stratum(self, c, out):
        return "n%d/p%d/%dD/%s/%s/%s" % (min(len(c["pts"]), 13), c["p"], len(c["pts"][0]), "cent" if c["cent"] else "chord", c["data"], c["mal"] or "valid")


def approx_oracle_1d(label, p, kv, P, uk, pts):
    """end points interpolated; interior control points satisfy the normal equations of sum_k |Q_k - C(u_k)|^2"""
    U = gc.fr(kv)
    n = len(P)
    if not pt_close(eval_curve(p, U, P, F(uk[0])), pts[0]) or not pt_close(eval_curve(p, U, P, F(uk[-1])), pts[-1]):
        return "%s-ends: the curve does not interpolate the end data points" % label
    if not pt_close(P[0], pts[0]) or not pt_close(P[-1], pts[-1]):
        return "%s-ends: first / last control points differ from the end data points" % label
    Ns = [basis_all(U, p, n, F(u)) for u in uk]
    res = [[sum(Ns[k][i] * F(P[i][c]) for i in range(n) if Ns[k][i]) - F(pts[k][c]) for c in range(len(pts[0]))] for k in range(len(pts))]
    scale = max([F(1)] + [abs(F(x)) for q in pts for x in q])
    for j in range(1, n - 1):
        for c in range(len(pts[0])):
            g = sum(Ns[k][j] * res[k][c] for k in range(1, len(pts) - 1))
            if abs(g) > F(1, 10 ** 7) * scale:
                return "%s-normal-equations: gradient of the squared error w.r.t. control point %d coordinate %d is %r (not 0)" % (label, j, c, float(g))
    return None


class ApproxCurve(Family):
    name = "approx_curve"
    imports = ("Model.Fit", "Model.LinAlg", "Run.LinAlgH")
    count = {"quick": 120, "thorough": 700}
    has_oracle = True
    timeout = 120

    def gen(self, rng, n):
        THOROUGH[0] = n >= self.count["thorough"]
        out = []
        i = 0
        while len(out) < n:
            i += 1
            dim = 2 + i % 2
            cent = (i // 2) % 2 == 1
            data = "pyth" if i % 3 else "general"
            npts = size_for(rng, i, lo=4)
            p = rng.randint(1, min(5, npts - 3))
            # all admissible control point counts: degree+2 .. npts-1 (cycled), sometimes the default (keyword omitted)
            c_all = list(range(p + 2, npts))
            c = c_all[i % len(c_all)]
            pts = polyline(rng, npts, dim, cent) if data == "pyth" else general_points(rng, npts, dim)
            out.append({"pts": pts, "p": p, "c": c, "default": c == npts - 1 and i % 2 == 0, "cent": cent, "data": data, "small": npts <= 5})
        return out

    def impl(self, c):
        linalg.matrix_identity.cache_clear()
        def f():
            kw = {"centripetal": c["cent"]}
            if not c["default"]:
                kw["ctrlpts_size"] = c["c"]
            crv = fitting.approximate_curve(c["pts"], c["p"], **kw)
            return {"P": [list(x) for x in crv.ctrlpts], "kv": list(crv.knotvector), "deg": crv.degree,
                    "uk": fitting.compute_params_curve(c["pts"], c["cent"])}
        r = call(f)
        r["cds"] = chords(c["pts"], c["cent"])
        return r

    def coq(self, c, out):
        if not model_ok(c, out):
            return None
        cds = out["cds"]
        return "(andb (close_chords %s (sqdists Qops %s) %s) (res_cmp cmp_fit1 (approximate_curve Qops %s %s %s %s) %s))" % (
            G.b(c["cent"]), G.qll(c["pts"]), G.ql(cds), G.qll(c["pts"]), G.n(c["p"]), G.n(c["c"]), G.ql(cds),
            G.res(out, lambda o: "(%s, %s)" % (G.sll(o["P"]), G.sl(o["kv"]))))

    def coq_show(self, c, out):
        return "(approximate_curve Qops %s %s %s %s)" % (G.qll(c["pts"]), G.n(c["p"]), G.n(c["c"]), G.ql(out["cds"]))

    def oracle(self, c, out):
        if "ok" not in out:
            return "approx-curve: no curve for %d data points, degree %d, %d control points: %s" % (len(c["pts"]), c["p"], c["c"], out)
        o = out["ok"]
        pts, p = c["pts"], c["p"]
        if o["deg"] != p or len(o["P"]) != c["c"]:
            return "approx-curve-shape: degree %s with %d control points (requested %d)" % (o["deg"], len(o["P"]), c["c"])
        m = params_msg("approx-curve-params", o["uk"], spec_params(pts, c["cent"])) or kv_msg("approx-curve-knots", o["kv"], p, c["c"])
        if m:
            return m
        m = approx_oracle_1d("approx-curve", p, o["kv"], o["P"], o["uk"], pts)
        if m:
            return m
        # not beaten by perturbed interior control points
        U = gc.fr(o["kv"])
        def sse(P):
            return sum(sum((a - F(b)) ** 2 for a, b in zip(eval_curve(p, U, P, F(u)), q)) for u, q in zip(o["uk"], pts))
        base = sse(o["P"])
        for j in (1, len(o["P"]) // 2, len(o["P"]) - 2):
            for d in (F(1, 8), F(-1, 8)):
                P2 = [list(x) for x in o["P"]]
                P2[j][0] = F(P2[j][0]) + d
                if sse(P2) < base - F(1, 10 ** 6):
                    return "approx-curve-minimum: moving control point %d by %s lowers the summed squared distance" % (j, d)
        return None

    def nontrivial(self, c, out):
        return "ok" in out

    def stratum(self, c, out):
        return "n%d/p%d/c%d/%dD/%s/%s" % (min(len(c["pts"]), 13), c["p"], min(c["c"], 13), len(c["pts"][0]), "cent" if c["cent"] else "chord", c["data"])


# ------------------------------------------------------------------ surfaces
def surface_points(rng, su, sv, dim, cent, data):
    """flat list, v fastest.  'pyth': translation surface A[u] + B[v] of two polylines with exact chords"""
    if data == "pyth":
        A = polyline(rng, su, dim, cent)
        B = polyline(rng, sv, dim, cent)
        # keep the two polylines from being parallel step by step: B uses the step table in another order (already random)
        return [[a + b for a, b in zip(A[u], B[v])] for u in range(su) for v in range(sv)]
    pts = []
    for u in range(su):
        for v in range(sv):
            q = [4.0 * u + rng.randint(-6, 6) / 4.0, 4.0 * v + rng.randint(-6, 6) / 4.0] + ([rng.randint(-32, 32) / 4.0] if dim == 3 else [])
            pts.append(q)
    return pts


def surface_chords(pts, su, sv, cent):
    cu = [chords([pts[v + sv * u] for u in range(su)], cent) for v in range(sv)]
    cv = [chords([pts[v + sv * u] for v in range(sv)], cent) for u in range(su)]
    return cu, cv


def surf_sizes(rng, i):
    hi = 14 if THOROUGH[0] else 7
    su = rng.randint(3, hi)
    sv = rng.randint(3, hi)
    if su == sv:
        sv = sv + 1 if sv < hi else sv - 1
    if THOROUGH[0] and i % 17 == 0:
        su = rng.randint(20, 40)
        sv = rng.randint(3, 5)
    return su, sv


class InterpSurface(Family):
    name = "interp_surface"
    imports = ("Model.Fit", "Model.LinAlg", "Run.LinAlgH")
    count = {"quick": 50, "thorough": 300}
    has_oracle = True
    timeout = 300

    def gen(self, rng, n):
        THOROUGH[0] = n >= self.count["thorough"]
        out = []
        for i in range(n):
            dim = 3 if i % 4 else 2
            cent = i % 2 == 1
            data = "pyth" if i % 3 else "general"
            su, sv = surf_sizes(rng, i)
            if data == "pyth" and not THOROUGH[0]:
                su, sv = min(su, 6), min(sv, 5)
            pu = rng.randint(1, min(5, su - 1))
            pv = rng.randint(1, min(5, sv - 1))
            if pu == pv and pv > 1:
                pv -= 1
            if i % 6 == 5:
                # the smallest grids with the same degree in both directions: both knot vectors are [0]*(p+1) + [1]*(p+1),
                # only the parameters (hence the collocation matrices) differ between u and v
                pu = pv = rng.choice([2, 3, 4] if data != "pyth" else [2, 3])
                su = sv = pu + 1
            out.append({"pts": surface_points(rng, su, sv, dim, cent, data), "su": su, "sv": sv, "pu": pu, "pv": pv,
                        "cent": cent, "data": data, "small": su * sv <= 12})
        return out

    def impl(self, c):
        linalg.matrix_identity.cache_clear()
        def f():
            s = fitting.interpolate_surface(c["pts"], c["su"], c["sv"], c["pu"], c["pv"], centripetal=c["cent"])
            uk, vl = fitting.compute_params_surface(c["pts"], c["su"], c["sv"], c["cent"])
            return {"P": [list(x) for x in s.ctrlpts], "kvu": list(s.knotvector_u), "kvv": list(s.knotvector_v),
                    "deg": [s.degree_u, s.degree_v], "size": [s.ctrlpts_size_u, s.ctrlpts_size_v], "uk": list(uk), "vl": list(vl)}
        r = call(f)
        r["cds"] = surface_chords(c["pts"], c["su"], c["sv"], c["cent"])
        return r

    def coq(self, c, out):
        if not model_ok(c, out):
            return None
        cu, cv = out["cds"]
        e = "(res_cmp cmp_fit2 (interpolate_surface Qops %s %s %s %s %s %s %s) %s)" % (
            G.qll(c["pts"]), G.n(c["su"]), G.n(c["sv"]), G.n(c["pu"]), G.n(c["pv"]), G.qll(cu), G.qll(cv),
            G.res(out, lambda o: "(%s, %s, %s)" % (G.sll(o["P"]), G.sl(o["kvu"]), G.sl(o["kvv"]))))
        if "ok" in out:
            e = "(andb %s (res_cmp cmp_pair (compute_params_surface Qops %s %s %s %s) (Ok (%s, %s))))" % (
                e, G.n(c["su"]), G.n(c["sv"]), G.qll(cu), G.qll(cv), G.sl(out["ok"]["uk"]), G.sl(out["ok"]["vl"]))
        chk = "; ".join("(close_chords %s (sqdists Qops %s) %s)" % (G.b(c["cent"]), G.qll([c["pts"][v + c["sv"] * u] for u in range(c["su"])]), G.ql(cu[v]))
                       for v in range(c["sv"]))
        return "(andb %s (forallb (fun b => b) [%s]))" % (e, chk)

    def oracle(self, c, out):
        if "ok" not in out:
            return "interp-surface: no surface for %dx%d data points: %s" % (c["su"], c["sv"], out)
        o = out["ok"]
        su, sv, pu, pv, pts = c["su"], c["sv"], c["pu"], c["pv"], c["pts"]
        if o["deg"] != [pu, pv] or o["size"] != [su, sv] or len(o["P"]) != su * sv:
            return "interp-surface-shape: degrees %s sizes %s" % (o["deg"], o["size"])
        euk, evl = spec_params_surface(pts, su, sv, c["cent"])
        m = (params_msg("interp-surface-params-u", o["uk"], euk) or params_msg("interp-surface-params-v", o["vl"], evl)
             or kv_msg("interp-surface-knots-u", o["kvu"], pu, su) or kv_msg("interp-surface-knots-v", o["kvv"], pv, sv))
        if m:
            return m
        Uu, Uv = gc.fr(o["kvu"]), gc.fr(o["kvv"])
        for u in range(su):
            for v in range(sv):
                if su * sv > 150 and (u * 7 + v * 3) % 5:      # large grids: a fixed fifth of the points plus the borders
                    if 0 < u < su - 1 and 0 < v < sv - 1:
                        continue
                val = eval_surface_exact(pu, pv, Uu, Uv, su, sv, o["P"], F(o["uk"][u]), F(o["vl"][v]))
                if not pt_close(val, pts[v + sv * u]):
                    return "interp-surface: S(u_%d, v_%d) = %s but the data point is %s" % (u, v, [float(x) for x in val], pts[v + sv * u])
        return None

    def nontrivial(self, c, out):
        return "ok" in out

    def stratum(self, c, out):
        return "%dx%d/p%d,%d/%dD/%s/%s" % (min(c["su"], 15), min(c["sv"], 15), c["pu"], c["pv"], len(c["pts"][0]), "cent" if c["cent"] else "chord", c["data"])


class ApproxSurface(Family):
    name = "approx_surface"
    imports = ("Model.Fit", "Model.LinAlg", "Run.LinAlgH")
    count = {"quick": 44, "thorough": 300}
    has_oracle = True
    timeout = 300

    def gen(self, rng, n):
        THOROUGH[0] = n >= self.count["thorough"]
        out = []
        for i in range(n):
            dim = 3 if i % 4 else 2
            cent = i % 2 == 1
            data = "pyth" if i % 3 else "general"
            su, sv = surf_sizes(rng, i)
            su, sv = max(su, 4), max(sv, 4)
            if su == sv:
                su += 1
            if data == "pyth" and not THOROUGH[0]:
                su, sv = min(su, 7), min(sv, 6)
            pu = rng.randint(1, min(4, su - 3))
            pv = rng.randint(1, min(4, sv - 3))
            cu_all = list(range(pu + 2, su))
            cv_all = list(range(pv + 2, sv))
            cu = cu_all[i % len(cu_all)]
            cv = cv_all[(i // 2) % len(cv_all)]
            out.append({"pts": surface_points(rng, su, sv, dim, cent, data), "su": su, "sv": sv, "pu": pu, "pv": pv, "cu": cu, "cv": cv,
                        "default": cu == su - 1 and cv == sv - 1 and i % 2 == 0, "cent": cent, "data": data, "small": False})
        return out

    def impl(self, c):
        linalg.matrix_identity.cache_clear()
        def f():
            kw = {"centripetal": c["cent"]}
            if not c["default"]:
                kw["ctrlpts_size_u"], kw["ctrlpts_size_v"] = c["cu"], c["cv"]
            s = fitting.approximate_surface(c["pts"], c["su"], c["sv"], c["pu"], c["pv"], **kw)
            uk, vl = fitting.compute_params_surface(c["pts"], c["su"], c["sv"], c["cent"])
            return {"P": [list(x) for x in s.ctrlpts], "kvu": list(s.knotvector_u), "kvv": list(s.knotvector_v),
                    "deg": [s.degree_u, s.degree_v], "size": [s.ctrlpts_size_u, s.ctrlpts_size_v], "uk": list(uk), "vl": list(vl)}
        r = call(f)
        r["cds"] = surface_chords(c["pts"], c["su"], c["sv"], c["cent"])
        return r

    def coq(self, c, out):
        if not model_ok(c, out):
            return None
        cu, cv = out["cds"]
        return "(res_cmp cmp_fit2 (approximate_surface Qops %s %s %s %s %s %s %s %s %s) %s)" % (
            G.qll(c["pts"]), G.n(c["su"]), G.n(c["sv"]), G.n(c["pu"]), G.n(c["pv"]), G.n(c["cu"]), G.n(c["cv"]), G.qll(cu), G.qll(cv),
            G.res(out, lambda o: "(%s, %s, %s)" % (G.sll(o["P"]), G.sl(o["kvu"]), G.sl(o["kvv"]))))

    def oracle(self, c, out):
        if "ok" not in out:
            return "approx-surface: no surface for %dx%d data points, %dx%d control points: %s" % (c["su"], c["sv"], c["cu"], c["cv"], out)
        o = out["ok"]
        su, sv, pu, pv, cu, cv, pts = c["su"], c["sv"], c["pu"], c["pv"], c["cu"], c["cv"], c["pts"]
        if o["deg"] != [pu, pv] or o["size"] != [cu, cv] or len(o["P"]) != cu * cv:
            return "approx-surface-shape: degrees %s sizes %s (requested %s)" % (o["deg"], o["size"], [cu, cv])
        euk, evl = spec_params_surface(pts, su, sv, c["cent"])
        m = (params_msg("approx-surface-params-u", o["uk"], euk) or params_msg("approx-surface-params-v", o["vl"], evl)
             or kv_msg("approx-surface-knots-u", o["kvu"], pu, cu) or kv_msg("approx-surface-knots-v", o["kvv"], pv, cv))
        if m:
            return m
        Uu, Uv = gc.fr(o["kvu"]), gc.fr(o["kvv"])
        for (u, v) in ((0, 0), (0, sv - 1), (su - 1, 0), (su - 1, sv - 1)):
            val = eval_surface_exact(pu, pv, Uu, Uv, cu, cv, o["P"], F(o["uk"][u]), F(o["vl"][v]))
            if not pt_close(val, pts[v + sv * u]):
                return "approx-surface-corners: S at the corner (%d,%d) = %s but the data point is %s" % (u, v, [float(x) for x in val], pts[v + sv * u])
        # the two boundary curves u = 0 / u = 1 are the least-squares curves of the boundary data rows (A9.7 fits rows, then columns)
        for iu, ud in ((0, 0), (cu - 1, su - 1)):
            m = approx_oracle_1d("approx-surface-boundary(u=%d)" % ud, pv, o["kvv"], [o["P"][j + cv * iu] for j in range(cv)], o["vl"],
                                 [pts[v + sv * ud] for v in range(sv)])
            if m:
                return m
        return None

    def nontrivial(self, c, out):
        return "ok" in out

    def stratum(self, c, out):
        return "%dx%d/c%dx%d/p%d,%d/%s/%s" % (min(c["su"], 15), min(c["sv"], 15), min(c["cu"], 15), min(c["cv"], 15), c["pu"], c["pv"], "cent" if c["cent"] else "chord", c["data"])


# ------------------------------------------------------------------ public helper functions on exact (dyadic) parameters
class Knots(Family):
    name = "knots"
    imports = ("Model.Fit", "Run.LinAlgH")
    count = {"quick": 120, "thorough": 1000}
    has_oracle = True

    def gen(self, rng, n):
        out = []
        for i in range(n):
            npts = rng.randint(3, 14)
            cuts = sorted(rng.sample(range(1, 64), npts - 2))
            uk = [0.0] + [x / 64.0 for x in cuts] + [1.0]
            p = rng.randint(1, min(5, npts - 1))
            if i % 4 == 3:
                # parameters of general (irrational-chord) data: curve, and surface with rows / columns of different chord patterns
                dim, cent = 2 + (i // 4) % 2, (i // 8) % 2 == 1
                if (i // 4) % 3 == 0:
                    out.append({"fn": "params_curve", "pts": general_points(rng, rng.randint(3, 12), dim), "cent": cent})
                else:
                    su, sv = rng.randint(3, 7), rng.randint(3, 6)
                    if su == sv:
                        su += 1
                    out.append({"fn": "params_surface", "pts": surface_points(rng, su, sv, dim, cent, "general"), "su": su, "sv": sv, "cent": cent})
            elif i % 2 == 0:
                out.append({"fn": "kv", "p": p, "n": npts, "uk": uk})
            else:
                p = rng.randint(1, min(5, max(1, npts - 3)))
                c_all = list(range(p + 1, npts))
                out.append({"fn": "kv2", "p": p, "n": npts, "c": c_all[i % len(c_all)], "uk": uk})
        return out

    def impl(self, c):
        if c["fn"] == "kv":
            return call(fitting.compute_knot_vector, c["p"], c["n"], c["uk"])
        if c["fn"] == "params_curve":
            r = call(fitting.compute_params_curve, c["pts"], c["cent"])
            r["cds"] = chords(c["pts"], c["cent"])
            return r
        if c["fn"] == "params_surface":
            r = call(lambda: [list(x) for x in fitting.compute_params_surface(c["pts"], c["su"], c["sv"], c["cent"])])
            r["cds"] = surface_chords(c["pts"], c["su"], c["sv"], c["cent"])
            return r
        return call(fitting.compute_knot_vector2, c["p"], c["n"], c["c"], c["uk"])

    def coq(self, c, out):
        if c["fn"] == "params_curve":
            return "(andb (close_chords %s (sqdists Qops %s) %s) (res_cmp closeL (compute_params_curve Qops %s) %s))" % (
                G.b(c["cent"]), G.qll(c["pts"]), G.ql(out["cds"]), G.ql(out["cds"]), G.res(out, G.sl))
        if c["fn"] == "params_surface":
            cu, cv = out["cds"]
            su, sv, pts = c["su"], c["sv"], c["pts"]
            chk = ["(close_chords %s (sqdists Qops %s) %s)" % (G.b(c["cent"]), G.qll([pts[v + sv * u] for u in range(su)]), G.ql(cu[v])) for v in range(sv)]
            chk += ["(close_chords %s (sqdists Qops %s) %s)" % (G.b(c["cent"]), G.qll([pts[v + sv * u] for v in range(sv)]), G.ql(cv[u])) for u in range(su)]
            return "(andb (forallb (fun b => b) [%s]) (res_cmp cmp_pair (compute_params_surface Qops %s %s %s %s) %s))" % (
                "; ".join(chk), G.n(su), G.n(sv), G.qll(cu), G.qll(cv), G.res(out, lambda o: "(%s, %s)" % (G.sl(o[0]), G.sl(o[1]))))
        if c["fn"] == "kv":
            return "(res_cmp closeL (Ok (compute_knot_vector Qops %s %s %s)) %s)" % (G.n(c["p"]), G.n(c["n"]), G.ql(c["uk"]), G.res(out, G.sl))
        return "(res_cmp closeL (Ok (compute_knot_vector2 Qops %s %s %s %s)) %s)" % (G.n(c["p"]), G.n(c["n"]), G.n(c["c"]), G.ql(c["uk"]), G.res(out, G.sl))

    def oracle(self, c, out):
        if "ok" not in out:
            return "knots: failed %s" % (out,)
        if c["fn"] == "params_curve":
            return params_msg("params-curve", out["ok"], spec_params(c["pts"], c["cent"]))
        if c["fn"] == "params_surface":
            euk, evl = spec_params_surface(c["pts"], c["su"], c["sv"], c["cent"])
            return params_msg("params-surface-u", out["ok"][0], euk) or params_msg("params-surface-v", out["ok"][1], evl)
        kv, p, uk = out["ok"], c["p"], gc.fr(c["uk"])
        if c["fn"] == "kv":
            n = c["n"]
            exp = [F(0)] * (p + 1) + [sum(uk[j] for j in range(i + 1, i + p + 1)) / p for i in range(n - p - 1)] + [F(1)] * (p + 1)
            if not gc.closel(kv, exp):
                return "knots-average: %s differs from Eq 9.8 %s" % (kv, [float(x) for x in exp])
            return kv_msg("knots-average", kv, p, n)
        r, cc = c["n"], c["c"]
        d = F(r, cc - p)
        exp = [F(0)] * (p + 1)
        for j in range(1, cc - p):
            i = int(j * d)
            al = j * d - i
            exp.append((1 - al) * uk[i - 1] + al * uk[i])
        exp += [F(1)] * (p + 1)
        if not gc.closel(kv, exp):
            return "knots-9.69: %s differs from Eqs 9.68/9.69 %s" % (kv, [float(x) for x in exp])
        return kv_msg("knots-9.69", kv, p, cc)

    def stratum(self, c, out):
        return "%s/p%s" % (c["fn"], c.get("p", "-"))


def families():
    return [InterpCurve(), ApproxCurve(), InterpSurface(), ApproxSurface(), Knots()]
