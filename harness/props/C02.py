"""C02 - derivatives returned are the true derivatives of the shape."""
import warnings
from fractions import Fraction as F
from math import factorial
from core import Family, call
import gal as G
import gencommon as gc
from geomdl import helpers, operations, evaluators, BSpline, NURBS

warnings.simplefilter("ignore")

RULE = ("structured generator over {curve, surface} x {BSpline, NURBS} x evaluator family {A3.2/A3.6/A4.2/A4.4, A3.3/A3.4/A3.7/A3.8 "
        "(non-rational objects)} x degree 1..5 (a few 6..7) per direction with different sizes per direction x knot vectors {clamped "
        "uniform, clamped with interior multiplicities 1..p, unclamped, non-normalised affine image} x parameter class {span interior, "
        "on a knot (also of multiplicity p), domain start, domain end, non-dyadic} x derivative order 0..degree+2 x normalize_kv flag; "
        "helpers.curve_deriv_cpts / surface_deriv_cpts directly; operations.derivative_curve / derivative_surface; "
        "operations.tangent / normal (single parameter and parameter lists, normalised or not); ~5 % out-of-domain parameters; "
        "non-trivial = implementation returned a value and the knot vector has an interior knot or order >= 2; distinct by case hash")
ASSUMPTIONS = ["floating point rounding below 1e-9 relative to the size of a derivative vector is not observable",
               "derivatives at a knot are the derivatives from the right (the polynomial piece of the span that starts at the knot), at "
               "the domain end from the left",
               "Surface.derivatives: the entries SKL[k][l] with k + l <= order are the contract (The NURBS Book, A3.6/A3.8); the alternative "
               "evaluator leaves the other entries of the square at zero, the default evaluator fills them with exact derivatives; both are "
               "accepted and both are modelled faithfully",
               "the alternative evaluators (CurveEvaluator2 / SurfaceEvaluator2) exist for non-rational shapes only",
               "hodograph constructors: rational input is refused by the library (returns the input with a warning) and is not generated",
               "modelled as repaired by fixes/C02-surface-deriv-cpts-loop.diff and fixes/C02-hodograph-keep-parametrization.diff",
               "unit vectors: sqrt is not modelled; the model returns the unnormalised vector, the comparison is done on signed squares "
               "x*|x|/(v.v); unit length is checked exactly on the squared norm of the returned floats (1e-9)"]
THEOREM_NOTES = ("see coq/Props/C02.v (16 theorems): [G] row 0 of A2.3 is A2.2; order-0 entry is the evaluated point; zero vectors above the degree "
                 "(curves and surfaces, both evaluator families); Leibniz/quotient identity of A4.2 for every order and dimension; hodograph control "
                 "points (Abel summation, relative to the algebraic derivative Eq. 2.7) and A3.3 row 1 = Q; normal = cross product, orthogonal to both "
                 "tangents; unit vector has norm 1.  [B] A4.4 Leibniz identity for all k, l <= 3; A2.3 rows = Eq. 2.9 recursion for degree <= 5 and rows "
                 "sum to zero for degree <= 6 on a symbolic knot window (all multiplicity patterns); A3.4 = A3.2 for degree <= 3 and A3.8 (repaired) = "
                 "A3.6 on the triangle k+l <= order for bi-degree <= (2,2), every order 0..p+2 (includes order > degree)")
LEVEL_TEXT = ("proof.  GENERAL (all degrees, knot vectors, multiplicities, orders incl. orders above the degree): the Eq. 2.9 recursion dN is order by "
              "order the TRUE analytic (epsilon-delta, derivable_pt_lim) derivative of the Cox-de Boor functions inside every non-empty span and the "
              "right derivative at knots; A2.3 (basis_function_ders) = dN for every degree (ndu table, Eq. 2.10, ders_for_r invariant), A2.5 = dN, "
              "A2.3 = A2.5; the derivative vectors of the default evaluators are the true derivatives of the shapes of C01: non-rational curves "
              "(A3.2), rational curves with positive weights (A4.2; general Leibniz rule + uniqueness of the quotient's derivatives), non-rational "
              "surfaces (A3.6; every entry SKL[k][l] is the mixed partial, stated as one-variable derivatives with the other parameter fixed), "
              "rational surfaces (A4.4: Leibniz identity for every order, mixed partials) - two-sided inside spans, right derivatives on the half-open "
              "span incl. its left knot, left derivatives at the closed domain end for curves; order-0 entry = evaluated point; tangent vectors are the "
              "derivatives of the evaluated point and the normal is the cross product of the two true partials, orthogonal to both, unit length over R; "
              "hodograph control-point formula; the ALTERNATIVE evaluators (A3.3/A3.4, A3.7/A3.8) equal the default ones for all degrees and orders (derivative "
              "control points represent the k-th derivative: iterated Abel summation).  The hodograph OBJECTS (Proofs/HodographObj.v, [G]): "
              "derivative_curve returns a valid curve of degree p-1 on U[1:-1] whose evaluated point is the first-derivative row of the evaluator and "
              "the true derivative of the evaluated point of the input; derivative_surface returns three valid surfaces whose points are S_u, S_v, S_uv "
              "= the true (mixed) partials, on the half-open domain; at the CLOSED right end / edges they are the left (one-sided) derivatives and "
              "equal the evaluator rows (Proofs/HodographEnd.v: identities between polynomial pieces, valid for every real parameter); the k-fold "
              "hodograph (k <= p) evaluates to the k-th derivative row of the original curve; operations.normal / tangent of a non-rational surface "
              "are the cross product / the points of the hodograph surfaces.  ONLY TIED BY CORRESPONDENCE against the exact piecewise-polynomial "
              "Fraction oracle: rational inputs of the constructors (returned unchanged); volumes have no "
              "derivative API.  Three input classes of the hodograph constructors are recorded known findings (degree-1 shapes, knot of multiplicity = degree)")
LEVEL_NOTE = ("theorems are about the hand-written Gallina model (Model/Derivs.v, Model/Basis.v), tied to evaluators.py/helpers.py/operations.py "
              "by the sampled correspondence check; the oracle differentiates the exact polynomial pieces (interpolated from exact Cox-de Boor "
              "values) formally and divides power series for rational shapes, independently of every derivative formula of the library")
# functions of the numerical core this property rests on that are also tied by the translator (tie theorems: Proofs/GenTie*.v, restated in Props/)
TRANSLATED = ["helpers.find_span_linear", "helpers.find_spans", "helpers.basis_function_ders", "helpers.basis_function_ders_one", "helpers.basis_function", "helpers.curve_deriv_cpts", "helpers.surface_deriv_cpts", "helpers.basis_function_all", "evaluators.CurveEvaluator.derivatives", "evaluators.CurveEvaluatorRational.derivatives", "evaluators.CurveEvaluator2.derivatives", "evaluators.SurfaceEvaluator.derivatives", "evaluators.SurfaceEvaluatorRational.derivatives", "evaluators.SurfaceEvaluator2.derivatives"]
TECHNIQUE = "Coq 8.16: real analysis with derivable_pt_lim (Eq. 2.7/2.9 are the true derivatives, all degrees); induction + ring/field over R for the rational quotient rule; field on symbolic knot windows for A2.3; exact Fraction oracle"


# ------------------------------------------------------------------ exact piecewise-polynomial oracle
def poly_interp(xs, ys):
    """monomial coefficients (low to high) of the polynomial through (xs, ys); Newton divided differences"""
    n = len(xs)
    dd = list(ys)
    for j in range(1, n):
        for i in range(n - 1, j - 1, -1):
            dd[i] = (dd[i] - dd[i - 1]) / (xs[i] - xs[i - j])
    coef = [F(0)] * n
    for i in range(n - 1, -1, -1):
        new = [F(0)] * n
        for k in range(n - 1):
            new[k + 1] += coef[k]
        for k in range(n):
            new[k] -= xs[i] * coef[k]
        new[0] += dd[i]
        coef = new
    return coef


def poly_der_at(coef, x, k):
    s = F(0)
    for m in range(k, len(coef)):
        s += coef[m] * (factorial(m) // factorial(m - k)) * x ** (m - k)
    return s


_piece_cache = {}


def basis_pieces(U, p, span):
    """exact polynomial pieces of N_{span-p..span,p} on [U[span], U[span+1]): interpolation of Cox-de Boor values at p+1 interior points"""
    key = (tuple(U), p, span)
    if key in _piece_cache:
        return _piece_cache[key]
    a, b = U[span], U[span + 1]
    xs = [a + (b - a) * F(m + 1, p + 2) for m in range(p + 1)]
    out = [poly_interp(xs, [gc.cdb(U, p, span - p + j, x) for x in xs]) for j in range(p + 1)]
    if len(_piece_cache) > 3000:
        _piece_cache.clear()
    _piece_cache[key] = out
    return out


def basis_ders_exact(U, p, n, u, maxk):
    """(span, D): D[k][j] = k-th derivative at u (from the right; from the left at the domain end) of N_{span-p+j,p}"""
    span = gc.exact_span(U, p, n, u)
    pieces = basis_pieces(U, p, span)
    return span, [[poly_der_at(pieces[j], u, k) for j in range(p + 1)] for k in range(maxk + 1)]


def curve_ders_exact(p, U, P, u, order, rational):
    U = gc.fr(U); u = F(u); P = gc.fr(P)
    span, D = basis_ders_exact(U, p, len(P), u, order)
    dim = len(P[0])
    A = [[sum(D[k][j] * P[span - p + j][c] for j in range(p + 1)) for c in range(dim)] for k in range(order + 1)]
    if not rational:
        return A
    a = [[A[k][c] / factorial(k) for c in range(dim - 1)] for k in range(order + 1)]
    w = [A[k][-1] / factorial(k) for k in range(order + 1)]
    cs = []
    for k in range(order + 1):     # power-series division A(u+e) / w(u+e)
        cs.append([(a[k][c] - sum(w[i] * cs[k - i][c] for i in range(1, k + 1))) / w[0] for c in range(dim - 1)])
    return [[x * factorial(k) for x in cs[k]] for k in range(order + 1)]


def surface_ders_exact(pu, pv, Uu, Uv, su, sv, P, u, v, order, rational):
    """exact mixed partials S[k][l], 0 <= k, l <= order; P flat with v fastest"""
    Uu = gc.fr(Uu); Uv = gc.fr(Uv); u = F(u); v = F(v); P = gc.fr(P)
    spu, Du = basis_ders_exact(Uu, pu, su, u, order)
    spv, Dv = basis_ders_exact(Uv, pv, sv, v, order)
    dim = len(P[0])
    loc = [[P[(spv - pv + b) + sv * (spu - pu + a)] for b in range(pv + 1)] for a in range(pu + 1)]
    A = [[None] * (order + 1) for _ in range(order + 1)]
    for k in range(order + 1):
        tmp = [[sum(Du[k][a] * loc[a][b][c] for a in range(pu + 1)) for c in range(dim)] for b in range(pv + 1)]
        for l in range(order + 1):
            A[k][l] = [sum(Dv[l][b] * tmp[b][c] for b in range(pv + 1)) for c in range(dim)]
    if not rational:
        return A
    fk = [factorial(k) for k in range(order + 1)]
    a = [[[A[k][l][c] / (fk[k] * fk[l]) for c in range(dim - 1)] for l in range(order + 1)] for k in range(order + 1)]
    w = [[A[k][l][-1] / (fk[k] * fk[l]) for l in range(order + 1)] for k in range(order + 1)]
    cs = [[None] * (order + 1) for _ in range(order + 1)]
    for k in range(order + 1):
        for l in range(order + 1):
            acc = list(a[k][l])
            for i in range(k + 1):
                for j in range(l + 1):
                    if i or j:
                        acc = [x - w[i][j] * y for x, y in zip(acc, cs[k - i][l - j])]
            cs[k][l] = [x / w[0][0] for x in acc]
    return [[[x * fk[k] * fk[l] for x in cs[k][l]] for l in range(order + 1)] for k in range(order + 1)]


def vclose(got, exp, tol=1e-9, scale=None):
    """componentwise |got - exp| <= tol * max(1, max |exp|, scale) (error relative to the size of the vector; for derivative vectors
    scale = the largest component of the lower-order vectors: a high derivative that is exactly zero is computed from them)"""
    if len(got) != len(exp):
        return False
    s = max([F(1)] + [abs(F(x)) for x in exp] + ([F(scale)] if scale is not None else []))
    return all(abs(F(g) - F(e)) <= F(tol) * s for g, e in zip(got, exp))


def second_level_zero(U, p):
    """True iff the second-derivative control points of A3.3 over the whole knot vector divide by a zero knot difference
    (a run of p equal knots: an interior knot of multiplicity = degree for a clamped knot vector)"""
    n = len(U) - p - 1
    return any(U[i + p + 1] == U[i + 2] for i in range(0, n - 2))


def max_interior_mult(U, p):
    ks = U[p + 1:len(U) - p - 1]
    return max([ks.count(k) for k in ks] + [0])


# ------------------------------------------------------------------ generators
def param(rng, U, p, cls=None):
    """gc.param, but the off-grid class uses 10-bit fractions of the domain (about 1/3, 1/10, ...) instead of 53-bit ones: the exact
    rationals of high-order rational derivatives stay small enough for the Coq evaluation"""
    u, cls = gc.param(rng, U, p, cls)
    if cls == "third":
        n = len(U) - p - 1
        lo, hi = U[p], U[n]
        u = lo + (hi - lo) * (rng.choice([341, 103, 717, 683, 307, 921]) / 1024.0)
    return u, cls


def gen_curve(rng, pmax=5, rational=None, nint=None):
    p = rng.randint(1, pmax) if rng.random() < 0.9 else rng.randint(1, 7)
    normalize = rng.random() < 0.4
    kind = rng.choice(["uniform", "mult", "mult", "unclamped01"]) if normalize else None
    if kind == "unclamped01":
        # unclamped knot vector that is already normalised: first knot 0, last knot 1, dyadic grid
        m = 2 * (p + 1) + (rng.choice([0, 1, 2, 3]) if nint is None else nint)
        vals = sorted([0, 64] + rng.sample(range(1, 64), m - 2))
        if rng.random() < 0.3 and m > 2 * p + 3:
            j = rng.randint(p + 1, m - p - 2)
            vals[j] = vals[j - 1]
        U = [v / 64.0 for v in sorted(vals)]
    else:
        U, kind = gc.knotvector(rng, p, kind, nint=nint)
    n = len(U) - p - 1
    rational = (rng.random() < 0.5) if rational is None else rational
    dim = rng.randint(2, 3)
    P = gc.points(rng, n, dim)
    if rational:
        ws = gc.weights(rng, n)
        P = [[c * w for c in pt] + [w] for pt, w in zip(P, ws)]
    # the non-default span search option (binary search) on clamped knot vectors: same spans, hence same derivatives
    return {"p": p, "U": U, "P": P, "rational": rational, "normalize": normalize, "kind": kind,
            "binsearch": kind in ("uniform", "mult", "affine") and rng.random() < 0.25}


def gen_surface(rng, pmax=4, rational=None):
    out = {}
    normalize = rng.random() < 0.4
    for d in "uv":
        p = rng.randint(1, pmax)
        kind = rng.choice(["uniform", "mult", "mult", "mult", "uniform", "unclamped01"]) if normalize else None
        if kind == "unclamped01":
            # unclamped knot vector that is already normalised (first knot 0, last knot 1, dyadic grid): the constructors that slice
            # knot vectors (hodographs) must not re-normalise the slices
            m = 2 * (p + 1) + rng.choice([0, 1, 2])
            U = [v / 64.0 for v in sorted([0, 64] + rng.sample(range(1, 64), m - 2))]
        else:
            U, kind = gc.knotvector(rng, p, kind, nint=rng.choice([0, 1, 2, 3]))
        out["p" + d], out["U" + d], out["kind" + d] = p, U, kind
        out["s" + d] = len(U) - p - 1
    rational = (rng.random() < 0.5) if rational is None else rational
    n = out["su"] * out["sv"]
    P = gc.points(rng, n, 3)
    if rational:
        ws = gc.weights(rng, n)
        P = [[c * w for c in pt] + [w] for pt, w in zip(P, ws)]
    out.update({"P": P, "rational": rational, "normalize": normalize,
                "binsearch": all(out["kind" + d] in ("uniform", "mult", "affine") for d in "uv") and rng.random() < 0.25})
    return out


def mk_curve(c, alg2=False):
    kw = {"find_span_func": helpers.find_span_binsearch} if c.get("binsearch") else {}
    crv = (NURBS.Curve if c["rational"] else BSpline.Curve)(normalize_kv=c["normalize"], **kw)
    crv.degree = c["p"]
    if c["rational"]:
        crv.ctrlptsw = [list(pt) for pt in c["P"]]
    else:
        crv.ctrlpts = [list(pt) for pt in c["P"]]
    crv.knotvector = list(c["U"])
    if list(crv.knotvector) != list(c["U"]):
        raise RuntimeError("harness: knot vector was changed by normalisation")
    if alg2:
        crv.evaluator = evaluators.CurveEvaluator2()
    return crv


def mk_surface(c, alg2=False):
    kw = {"find_span_func": helpers.find_span_binsearch} if c.get("binsearch") else {}
    srf = (NURBS.Surface if c["rational"] else BSpline.Surface)(normalize_kv=c["normalize"], **kw)
    srf.degree_u, srf.degree_v = c["pu"], c["pv"]
    srf.set_ctrlpts([list(pt) for pt in c["P"]], c["su"], c["sv"])
    srf.knotvector_u = list(c["Uu"])
    srf.knotvector_v = list(c["Uv"])
    if list(srf.knotvector_u) != list(c["Uu"]) or list(srf.knotvector_v) != list(c["Uv"]):
        raise RuntimeError("harness: knot vector was changed by normalisation")
    if alg2:
        srf.evaluator = evaluators.SurfaceEvaluator2()
    return srf


def curve_args(c):
    return "%s %s %s %s %s %s %s" % (G.b(c["normalize"]), G.b(c["rational"]), G.b(c.get("alg2", False)), G.n(len(c["P"][0])),
                                     G.n(c["p"]), G.ql(c["U"]), G.qll(c["P"]))


def surf_args(c):
    return "%s %s %s %s %s %s %s %s %s %s %s" % (G.b(c["normalize"]), G.b(c["rational"]), G.b(c.get("alg2", False)), G.n(len(c["P"][0])),
                                                 G.n(c["pu"]), G.n(c["pv"]), G.ql(c["Uu"]), G.ql(c["Uv"]), G.n(c["su"]), G.n(c["sv"]), G.qll(c["P"]))


def conj(parts):
    e = parts[0]
    for q_ in parts[1:]:
        e = "andb (%s) (%s)" % (e, q_)
    return "(" + e + ")"


def out_of_domain(rng, lo, hi):
    return rng.choice([lo - 0.5, hi + 0.25, lo - 2.0, hi + 1.0])


def lists(x):
    if isinstance(x, (list, tuple)):
        return [lists(y) for y in x]
    return x


# ------------------------------------------------------------------ families
class CurveDers(Family):
    name = "curve"
    imports = ("Model.Derivs", "Run.DerivsH")
    count = {"quick": 260, "thorough": 3000}
    has_oracle = True

    def gen(self, rng, n):
        out = []
        for i in range(n):
            c = gen_curve(rng)
            p, U = c["p"], c["U"]
            c["u"], c["cls"] = param(rng, U, p)
            c["order"] = rng.randint(0, p + 2) if i % 3 else rng.choice([p, p + 1, p + 2])
            c["alg2"] = (not c["rational"]) and rng.random() < 0.5
            if c["normalize"] and rng.random() < 0.06:
                c["u"], c["cls"] = out_of_domain(rng, 0.0, 1.0), "outside"
            out.append(c)
        return out

    def impl(self, c):
        return call(lambda: lists(mk_curve(c, c["alg2"]).derivatives(c["u"], c["order"])))

    def coq(self, c, out):
        return "(res_cmp closeVVr (Curve_derivatives Qops %s %s %s) %s)" % (curve_args(c), G.Q(c["u"]), G.n(c["order"]), G.res(out, G.sll))

    def coq_show(self, c, out):
        return "(Curve_derivatives Qops %s %s %s)" % (curve_args(c), G.Q(c["u"]), G.n(c["order"]))

    def oracle(self, c, out):
        if c["cls"] == "outside":
            return None if "rej" in out else "curve-domain: parameter %r outside [0,1] was not refused: %s" % (c["u"], str(out)[:80])
        if "ok" not in out:
            return "curve-derivatives: failed on a valid input (order %d, degree %d, %s): %s" % (
                c["order"], c["p"], "alternative evaluator" if c["alg2"] else "default evaluator", out)
        got = out["ok"]
        exp = curve_ders_exact(c["p"], c["U"], c["P"], c["u"], c["order"], c["rational"])
        if len(got) != c["order"] + 1:
            return "curve-shape: %d vectors for order %d" % (len(got), c["order"])
        run = F(1)
        for k in range(c["order"] + 1):
            run = max([run] + [abs(F(x)) for x in exp[k]])
            if not vclose(got[k], exp[k], scale=run):
                return "curve-derivative: %s derivative %d at u=%r = %s, exact %s (degree %d, %s, %s)" % (
                    "rational" if c["rational"] else "non-rational", k, c["u"], got[k], [float(x) for x in exp[k]], c["p"],
                    "A3.4" if c["alg2"] else "A3.2", c["cls"])
        return None

    def nontrivial(self, c, out):
        return "ok" in out and (len(c["U"]) > 2 * (c["p"] + 1) or c["order"] >= 2)

    def stratum(self, c, out):
        return "%s/%s/p%d/%s/%s/%s" % ("nurbs" if c["rational"] else "bspline", "alg2" if c["alg2"] else "alg1", c["p"], c["kind"], c["cls"],
                                        "order>p" if c["order"] > c["p"] else "order<=p")


class SurfaceDers(Family):
    name = "surface"
    imports = ("Model.Derivs", "Run.DerivsH")
    count = {"quick": 170, "thorough": 2000}
    has_oracle = True

    def gen(self, rng, n):
        out = []
        for i in range(n):
            c = gen_surface(rng)
            if c["rational"]:
                # exact rationals of high mixed partials of a quotient are large: keep high orders on coarse parameters
                while max(c["pu"], c["pv"]) > 3:
                    c = gen_surface(rng, rational=True)
                hi = max(c["pu"], c["pv"]) + 2
                c["order"] = min(hi, rng.choice([0, 1, 2, 2, 2, 3, 3, 3, 3, 4, 4, 5]))
                classes = ["interior", "interior", "knot", "start", "end"] + (["third"] if c["order"] <= 3 else [])
                c["u"], c["clsu"] = param(rng, c["Uu"], c["pu"], rng.choice(classes))
                c["v"], c["clsv"] = param(rng, c["Uv"], c["pv"], rng.choice(classes))
            else:
                c["u"], c["clsu"] = param(rng, c["Uu"], c["pu"])
                c["v"], c["clsv"] = param(rng, c["Uv"], c["pv"])
                hi = max(c["pu"], c["pv"]) + 2
                c["order"] = rng.randint(0, hi) if i % 3 else rng.randint(min(c["pu"], c["pv"]), hi)
            c["alg2"] = (not c["rational"]) and rng.random() < 0.5
            if c["normalize"] and rng.random() < 0.05:
                c["v"], c["clsv"] = out_of_domain(rng, 0.0, 1.0), "outside"
            out.append(c)
        return out

    def impl(self, c):
        return call(lambda: lists(mk_surface(c, c["alg2"]).derivatives(c["u"], c["v"], c["order"])))

    def coq(self, c, out):
        return "(res_cmp closeVVVr (Surface_derivatives Qops %s %s %s %s) %s)" % (surf_args(c), G.Q(c["u"]), G.Q(c["v"]), G.n(c["order"]),
                                                                                  G.res(out, G.slll))

    def coq_show(self, c, out):
        return "(Surface_derivatives Qops %s %s %s %s)" % (surf_args(c), G.Q(c["u"]), G.Q(c["v"]), G.n(c["order"]))

    def oracle(self, c, out):
        if c["clsv"] == "outside":
            return None if "rej" in out else "surface-domain: parameter outside [0,1] was not refused"
        if "ok" not in out:
            return "surface-derivatives: failed on a valid input (order %d, degrees %d,%d, %s): %s" % (
                c["order"], c["pu"], c["pv"], "alternative evaluator" if c["alg2"] else "default evaluator", out)
        got = out["ok"]
        d = c["order"]
        exp = surface_ders_exact(c["pu"], c["pv"], c["Uu"], c["Uv"], c["su"], c["sv"], c["P"], c["u"], c["v"], d, c["rational"])
        if len(got) != d + 1 or any(len(r) != d + 1 for r in got):
            return "surface-shape: result is not (order+1) x (order+1)"
        for k in range(d + 1):
            for l in range(d + 1 - k):
                run = max([F(1)] + [abs(F(x)) for kk in range(k + 1) for ll in range(l + 1) for x in exp[kk][ll]])
                if not vclose(got[k][l], exp[k][l], scale=run):
                    return "surface-derivative: %s SKL[%d][%d] at (%r,%r) = %s, exact %s (degrees %d,%d, order %d, %s)" % (
                        "rational" if c["rational"] else "non-rational", k, l, c["u"], c["v"], got[k][l], [float(x) for x in exp[k][l]],
                        c["pu"], c["pv"], d, "A3.8" if c["alg2"] else "A3.6")
        return None

    def nontrivial(self, c, out):
        return "ok" in out and (c["su"] > c["pu"] + 1 or c["sv"] > c["pv"] + 1 or c["order"] >= 2)

    def stratum(self, c, out):
        return "%s/%s/p%d,%d/%s/%s" % ("nurbs" if c["rational"] else "bspline", "alg2" if c["alg2"] else "alg1", c["pu"], c["pv"],
                                        "order>p" if c["order"] > min(c["pu"], c["pv"]) else "order<=p",
                                        "sizes-differ" if c["su"] != c["sv"] else "sizes-equal")


def strip_none(x):
    """PK / PKL arrays: drop the points that were never assigned (None coordinates) and trailing empty rows at every level"""
    if isinstance(x, (list, tuple)):
        if x and all(not isinstance(y, (list, tuple)) for y in x):
            return None if any(y is None for y in x) else list(x)
        ys = [y for y in (strip_none(y) for y in x) if y is not None]
        while ys and ys[-1] == []:
            ys.pop()
        return ys
    return x


class DerivCpts(Family):
    """helpers.curve_deriv_cpts / surface_deriv_cpts called directly (A3.3 / A3.7)"""
    name = "deriv_cpts"
    imports = ("Model.Derivs", "Run.DerivsH")
    count = {"quick": 110, "thorough": 1000}
    has_oracle = True

    def gen(self, rng, n):
        out = []
        for i in range(n):
            if i % 2 == 0:
                c = gen_curve(rng, rational=rng.random() < 0.3)
                p, U = c["p"], c["U"]
                # admissible order: no A3.3 denominator U[i+p+1] - U[i+k] vanishes.  Unclamped vectors (either kind): every knot
                # counts, not only those strictly inside the clamped pattern
                m = max_interior_mult(U, p) if c["kind"] not in ("unclamped", "unclamped01") else max(2, max(U.count(k) for k in U))
                c["order"] = rng.randint(0, max(0, min(p, p + 1 - m)))
                nn = len(c["P"])
                r1 = rng.randint(0, nn - 1 - c["order"]) if rng.random() < 0.5 else 0
                r2 = rng.randint(r1 + c["order"], nn - 1) if rng.random() < 0.5 else nn - 1
                c.update({"what": "curve", "r1": r1, "r2": r2, "u": param(rng, U, p, "interior")[0]})
            else:
                c = gen_surface(rng, pmax=3, rational=rng.random() < 0.3)
                c["order"] = rng.randint(0, 4)
                c["spu"], _ = self._span(rng, c["Uu"], c["pu"], c["su"])
                c["spv"], _ = self._span(rng, c["Uv"], c["pv"], c["sv"])
                c["what"] = "surface"
            out.append(c)
        return out

    @staticmethod
    def _span(rng, U, p, n):
        u, _ = param(rng, U, p)
        return gc.exact_span(gc.fr(U), p, n, F(u)), u

    def impl(self, c):
        dim = len(c["P"][0])
        if c["what"] == "curve":
            return call(lambda: strip_none(helpers.curve_deriv_cpts(dim, c["p"], c["U"], c["P"], rs=(c["r1"], c["r2"]), deriv_order=c["order"])))
        return call(lambda: strip_none(helpers.surface_deriv_cpts(dim, (c["pu"], c["pv"]), (c["Uu"], c["Uv"]), c["P"], (c["su"], c["sv"]),
                                                                  rs=(c["spu"] - c["pu"], c["spu"]), ss=(c["spv"] - c["pv"], c["spv"]),
                                                                  deriv_order=c["order"])))

    def coq(self, c, out):
        if "ok" not in out:
            return None
        if c["what"] == "curve":
            return "(closeVVV (curve_deriv_cpts Qops %s %s %s %s %s %s) %s)" % (
                G.n(c["p"]), G.ql(c["U"]), G.qll(c["P"]), G.n(c["r1"]), G.n(c["r2"]), G.n(c["order"]), G.slll(out["ok"]))
        pkl = out["ok"]
        # model: PKL[k][l] lists for k <= du, l <= dd ; compare entry by entry what the implementation defined
        parts = []
        for k, row in enumerate(pkl):
            for l, net in enumerate(row):
                if net:
                    parts.append("closeVVV (nth %d (nth %d M []) []) %s" % (l, k, G.slll(net)))
        if not parts:
            return None
        return "(let M := surface_deriv_cpts Qops %s %s %s %s %s %s %s %s %s %s %s %s in %s)" % (
            G.n(c["pu"]), G.n(c["pv"]), G.ql(c["Uu"]), G.ql(c["Uv"]), G.qll(c["P"]), G.n(c["su"]), G.n(c["sv"]),
            G.n(c["spu"] - c["pu"]), G.n(c["spu"]), G.n(c["spv"] - c["pv"]), G.n(c["spv"]), G.n(c["order"]), conj(parts))

    def oracle(self, c, out):
        if "ok" not in out:
            return "deriv-cpts: helper failed on a valid input: %s" % (out,)
        if c["what"] != "curve":
            # every PKL[k][l] needed by A3.8 (k <= du, l <= min(order-k, dv)) must be defined
            pkl = out["ok"]
            du, dv = min(c["pu"], c["order"]), min(c["pv"], c["order"])
            for k in range(du + 1):
                for l in range(min(c["order"] - k, dv) + 1):
                    net = pkl[k][l] if k < len(pkl) and l < len(pkl[k]) else []
                    if len(net) < c["pu"] - k + 1 or any(len(r) < c["pv"] - l + 1 for r in net[:c["pu"] - k + 1]):
                        return "deriv-cpts-surface: PKL[%d][%d] is not (fully) computed for degrees (%d,%d), order %d" % (k, l, c["pu"], c["pv"], c["order"])
            return None
        # the k-th row are the control points of the k-th derivative curve (degree p-k, knot vector trimmed by k at both ends)
        p, U, P = c["p"], gc.fr(c["U"]), c["P"]
        if c["r1"] != 0 or c["r2"] != len(P) - 1 or c["rational"]:
            return None
        PK = out["ok"]
        n = len(P)
        u = F(c["u"])
        exp = curve_ders_exact(p, c["U"], P, u, c["order"], False)
        for k in range(c["order"] + 1):
            Uk = U[k:len(U) - k]
            val = [sum(gc.cdb(Uk, p - k, i, u) * F(PK[k][i][cc]) for i in range(n - k)) for cc in range(len(P[0]))]
            if not vclose(val, exp[k], 1e-8):
                return "deriv-cpts-curve: row %d does not define the derivative curve of order %d" % (k, k)
        return None

    def stratum(self, c, out):
        return c["what"] + ("/order>p" if c["what"] == "surface" and c["order"] > min(c["pu"], c["pv"]) else "")


class HodographCurve(Family):
    name = "hodograph_curve"
    imports = ("Model.Derivs", "Run.DerivsH")
    count = {"quick": 90, "thorough": 900}
    has_oracle = True

    def gen(self, rng, n):
        out = []
        for i in range(n):
            c = gen_curve(rng, rational=False)
            while c["p"] == 1 and rng.random() < 0.8:      # degree-0 splines do not exist in the library: few degree-1 inputs
                c = gen_curve(rng, rational=False)
            c["us"] = [param(rng, c["U"], c["p"])[0] for _ in range(3)]
            c["maxmult"] = max_interior_mult(c["U"], c["p"])
            out.append(c)
        return out

    def impl(self, c):
        def f():
            d = operations.derivative_curve(mk_curve(c))
            return {"degree": d.degree, "kv": list(d.knotvector), "P": lists(d.ctrlpts),
                    "ders": [lists(d.derivatives(u, 1)) for u in c["us"]], "evals": [list(d.evaluate_single(u)) for u in c["us"]]}
        return call(f)

    def coq(self, c, out):
        if "ok" not in out or c["p"] == 1:
            return None
        o = out["ok"]
        return ("(let '(d, kv, P) := derivative_curve Qops %s %s %s in andb (Nat.eqb d %s) (andb (closeL kv %s) (closeVV P %s)))" % (
            G.n(c["p"]), G.ql(c["U"]), G.qll(c["P"]), G.n(o["degree"]), G.sl(o["kv"]), G.sll(o["P"])))

    def oracle(self, c, out):
        if "ok" not in out:
            if c["p"] == 1:
                return "hodograph-degree-1: derivative_curve of a degree-1 curve failed: %s" % (out,)
            return "hodograph-curve: derivative_curve failed on a valid B-spline curve: %s" % (out,)
        o = out["ok"]
        if o["degree"] != c["p"] - 1:
            return "hodograph-curve-degree: %d" % o["degree"]
        for u, ev, ders in zip(c["us"], o["evals"], o["ders"]):
            exp = curve_ders_exact(c["p"], c["U"], c["P"], u, 2, False)
            if not vclose(ev, exp[1]) or not vclose(ders[0], exp[1]):
                return "hodograph-curve: derivative curve at u=%r gives %s, the first derivative of the curve is %s (%s, normalize_kv=%s)" % (
                    u, ev, [float(x) for x in exp[1]], c["kind"], c["normalize"])
            if not vclose(ders[1], exp[2]):
                return "hodograph-curve-second: derivative of the derivative curve at u=%r is not the second derivative" % u
        return None

    def stratum(self, c, out):
        return "p%d/%s/%s%s" % (c["p"], c["kind"], "norm" if c["normalize"] else "raw", "/mult=p" if c["maxmult"] == c["p"] else "")


class HodographSurface(Family):
    name = "hodograph_surface"
    imports = ("Model.Derivs", "Run.DerivsH")
    count = {"quick": 70, "thorough": 600}
    has_oracle = True

    def gen(self, rng, n):
        out = []
        for i in range(n):
            c = gen_surface(rng, rational=False)
            if rng.random() < 0.8:          # mostly degrees >= 2 (degree-0 splines do not exist in the library)
                while c["pu"] < 2 or c["pv"] < 2:
                    c = gen_surface(rng, rational=False)
            # known-finding class (a knot of multiplicity = degree): keep it present but rare
            while (second_level_zero(c["Uu"], c["pu"]) or second_level_zero(c["Uv"], c["pv"])) and min(c["pu"], c["pv"]) >= 2 and rng.random() < 0.8:
                c = gen_surface(rng, rational=False)
                while c["pu"] < 2 or c["pv"] < 2:
                    c = gen_surface(rng, rational=False)
            c["uvs"] = [(param(rng, c["Uu"], c["pu"])[0], param(rng, c["Uv"], c["pv"])[0]) for _ in range(2)]
            c["mult_eq_degree"] = second_level_zero(c["Uu"], c["pu"]) or second_level_zero(c["Uv"], c["pv"])
            c["mindeg"] = min(c["pu"], c["pv"])
            out.append(c)
        return out

    def impl(self, c):
        def f():
            ds = operations.derivative_surface(mk_surface(c))
            return [{"deg": [d.degree_u, d.degree_v], "kvu": list(d.knotvector_u), "kvv": list(d.knotvector_v), "size": [d.ctrlpts_size_u, d.ctrlpts_size_v],
                     "P": lists(d.ctrlpts), "evals": [list(d.evaluate_single(uv)) for uv in c["uvs"]]} for d in ds]
        return call(f)

    def coq(self, c, out):
        if "ok" not in out or c["mindeg"] < 2 or c["mult_eq_degree"]:
            return None
        o = out["ok"]
        return ("(let '(Pu, Pv, Puv) := derivative_surface Qops %s %s %s %s %s %s %s in andb (closeVV Pu %s) (andb (closeVV Pv %s) (closeVV Puv %s)))" % (
            G.n(c["pu"]), G.n(c["pv"]), G.ql(c["Uu"]), G.ql(c["Uv"]), G.n(c["su"]), G.n(c["sv"]), G.qll(c["P"]),
            G.sll(o[0]["P"]), G.sll(o[1]["P"]), G.sll(o[2]["P"])))

    def oracle(self, c, out):
        if "ok" not in out:
            if c["mindeg"] < 2:
                return "hodograph-degree-1: derivative_surface of a surface of degree 1 failed: %s" % (out,)
            if c["mult_eq_degree"]:
                return "hodograph-surface-multiple-knot: derivative_surface failed on a surface with an interior knot of multiplicity = degree: %s" % (out,)
            return "hodograph-surface: derivative_surface failed on a valid B-spline surface: %s" % (out,)
        o = out["ok"]
        pu, pv = c["pu"], c["pv"]
        if [x["deg"] for x in o] != [[pu - 1, pv], [pu, pv - 1], [pu - 1, pv - 1]]:
            return "hodograph-surface-degree: %s" % [x["deg"] for x in o]
        if o[0]["kvu"] != c["Uu"][1:-1] or o[0]["kvv"] != c["Uv"] or o[1]["kvu"] != c["Uu"] or o[1]["kvv"] != c["Uv"][1:-1] \
                or o[2]["kvu"] != c["Uu"][1:-1] or o[2]["kvv"] != c["Uv"][1:-1]:
            return "hodograph-surface-kv: knot vectors of the derivative surfaces are not the trimmed knot vectors (normalize_kv=%s)" % c["normalize"]
        for t, (u, v) in enumerate(c["uvs"]):
            exp = surface_ders_exact(pu, pv, c["Uu"], c["Uv"], c["su"], c["sv"], c["P"], u, v, 1, False)
            for nm, got, e in (("u", o[0]["evals"][t], exp[1][0]), ("v", o[1]["evals"][t], exp[0][1]), ("uv", o[2]["evals"][t], exp[1][1])):
                if not vclose(got, e):
                    return "hodograph-surface: %s-derivative surface at (%r,%r) = %s, exact %s" % (nm, u, v, got, [float(x) for x in e])
        return None

    def stratum(self, c, out):
        return "p%d,%d/%s%s" % (c["pu"], c["pv"], "norm" if c["normalize"] else "raw", "/mult=p" if c["mult_eq_degree"] else "")


def sq_signed(v):
    return [F(x) * abs(F(x)) for x in v]


class TangentNormal(Family):
    name = "tangent_normal"
    imports = ("Model.Derivs", "Run.DerivsH")
    count = {"quick": 150, "thorough": 1500}
    has_oracle = True

    def gen(self, rng, n):
        out = []
        for i in range(n):
            if i % 3 == 0:
                c = gen_curve(rng)
                c["what"] = "curve"
                c["params"] = [param(rng, c["U"], c["p"])[0] for _ in range(rng.choice([1, 1, 2]))]
            else:
                c = gen_surface(rng, pmax=3)
                c["what"] = "surface"
                c["params"] = [[param(rng, c["Uu"], c["pu"])[0], param(rng, c["Uv"], c["pv"])[0]] for _ in range(rng.choice([1, 1, 2]))]
                c["query"] = rng.choice(["tangent", "normal", "normal"])
            c["aslist"] = len(c["params"]) > 1 or rng.random() < 0.3
            c["unit"] = rng.random() < 0.7
            c["alg2"] = (not c["rational"]) and rng.random() < 0.3
            out.append(c)
        return out

    def impl(self, c):
        def f():
            kw = {"normalize": c["unit"]}
            if c["what"] == "curve":
                obj = mk_curve(c, c["alg2"])
                r = operations.tangent(obj, list(c["params"]) if c["aslist"] else c["params"][0], **kw)
            else:
                obj = mk_surface(c, c["alg2"])
                fn = operations.tangent if c["query"] == "tangent" else operations.normal
                r = fn(obj, [list(x) for x in c["params"]] if c["aslist"] else list(c["params"][0]), **kw)
            r = lists(r)
            return r if c["aslist"] else [r]
        return call(f)

    def _vec(self, c, model_vec, got):
        if c["unit"]:
            return "close_unit (unit_sq Qops %s) %s" % (model_vec, G.sl(sq_signed(got)))
        return "closeV %s %s" % (model_vec, G.sl(got))

    def coq(self, c, out):
        if "ok" not in out:
            return None
        parts = []
        for prm, r in zip(c["params"], out["ok"]):
            if c["what"] == "curve":
                m = "tangent_curve Qops %s %s" % (curve_args(c), G.Q(prm))
                parts.append("match %s with Ok (pt, d) => andb (closeV pt %s) (%s) | _ => false end" % (m, G.sl(r[0]), self._vec(c, "d", r[1])))
            elif c["query"] == "tangent":
                m = "tangent_surface Qops %s %s %s" % (surf_args(c), G.Q(prm[0]), G.Q(prm[1]))
                parts.append("match %s with Ok (pt, du, dv) => andb (closeV pt %s) (andb (%s) (%s)) | _ => false end" % (
                    m, G.sl(r[0]), self._vec(c, "du", r[1]), self._vec(c, "dv", r[2])))
            else:
                m = "normal_surface Qops %s %s %s" % (surf_args(c), G.Q(prm[0]), G.Q(prm[1]))
                parts.append("match %s with Ok (pt, nv) => andb (closeV pt %s) (%s) | _ => false end" % (m, G.sl(r[0]), self._vec(c, "nv", r[1])))
        return conj(parts)

    @staticmethod
    def _cross(a, b):
        a = list(a) + [F(0)] * (3 - len(a))
        b = list(b) + [F(0)] * (3 - len(b))
        return [a[1] * b[2] - a[2] * b[1], a[2] * b[0] - a[0] * b[2], a[0] * b[1] - a[1] * b[0]]

    def _check_vec(self, c, label, got, exact):
        """got: returned vector, exact: the exact (unnormalised) vector it must represent"""
        g = gc.fr(got)
        n2 = sum(x * x for x in exact)
        if n2 == 0:
            return None   # degenerate: no direction defined
        if not c["unit"]:
            return None if vclose(got, exact) else "%s: returned %s, exact %s" % (label, got, [float(x) for x in exact])
        if abs(sum(x * x for x in g) - 1) > F(1, 10 ** 9):
            return "%s-unit: |v|^2 = %r" % (label, float(sum(x * x for x in g)))
        # parallel and same orientation: g = exact/|exact|  <=>  g_i*|g_i| * n2 = e_i*|e_i|
        for x, e in zip(g, exact):
            if abs(x * abs(x) * n2 - e * abs(e)) > F(1, 10 ** 8) * n2:
                return "%s-direction: unit vector %s is not the direction of %s" % (label, got, [float(y) for y in exact])
        return None

    def oracle(self, c, out):
        if "ok" not in out:
            return "tangent/normal: failed on a valid input: %s" % (out,)
        for prm, r in zip(c["params"], out["ok"]):
            if c["what"] == "curve":
                exp = curve_ders_exact(c["p"], c["U"], c["P"], prm, 1, c["rational"])
                if not vclose(r[0], exp[0]):
                    return "tangent-point: %s" % (r[0],)
                m = self._check_vec(c, "tangent-curve", r[1], exp[1])
                if m:
                    return m
                continue
            exp = surface_ders_exact(c["pu"], c["pv"], c["Uu"], c["Uv"], c["su"], c["sv"], c["P"], prm[0], prm[1], 1, c["rational"])
            Su, Sv = exp[1][0], exp[0][1]
            if not vclose(r[0], exp[0][0]):
                return "tangent-point: %s" % (r[0],)
            if c["query"] == "tangent":
                m = self._check_vec(c, "tangent-u", r[1], Su) or self._check_vec(c, "tangent-v", r[2], Sv)
                if m:
                    return m
            else:
                nv = self._cross(Su, Sv)
                m = self._check_vec(c, "normal", r[1], nv)
                if m:
                    return m
                g = gc.fr(r[1])
                for nm, tv in (("u", Su), ("v", Sv)):
                    dot = sum(a * b for a, b in zip(g, list(tv) + [F(0)] * (3 - len(tv))))
                    sc = max(F(1), max(abs(x) for x in tv)) * max(F(1), max(abs(x) for x in g))
                    if abs(dot) > F(1, 10 ** 8) * sc:
                        return "normal-orthogonal: normal . S_%s = %r" % (nm, float(dot))
        return None

    def stratum(self, c, out):
        return "%s/%s/%s/%s" % (c["what"] if c["what"] == "curve" else c["query"], "nurbs" if c["rational"] else "bspline",
                                "unit" if c["unit"] else "raw", "list" if c["aslist"] else "single")


def families():
    return [CurveDers(), SurfaceDers(), DerivCpts(), HodographCurve(), HodographSurface(), TangentNormal()]
