"""Shared helpers of builder A (C04 knot insertion, C05 knot refinement): spline shape generators,
construction of geomdl objects, snapshots, exact tensor-product evaluation (fractions.Fraction) and
Gallina rendering of the geometry records of Model/InsertKnot.v."""
import io, contextlib
from fractions import Fraction as F
import gal as G
import gencommon as gc
from geomdl import BSpline, NURBS

TOL8 = 10e-8
DIRS = "uvw"


# ------------------------------------------------------------------ generators
def clamped_kv(rng, p, nint, grid=16, maxmult=None, nondyadic=False):
    """clamped knot vector on [0,1]: nint distinct interior knots with multiplicities 1..maxmult (<= p)"""
    mm = p if maxmult is None else max(1, min(p, maxmult))
    if nondyadic:
        cand = [1 / 3.0, 0.1, 0.7, 2 / 3.0, 0.3, 0.9, 0.2, 0.6]
        distinct = sorted(rng.sample(cand, min(nint, len(cand))))
    else:
        distinct = [d / float(grid) for d in sorted(rng.sample(range(1, grid), min(nint, grid - 1)))]
    interior = []
    for d in distinct:
        m = 1 if rng.random() < 0.5 else rng.randint(1, mm)
        interior += [d] * m
    return [0.0] * (p + 1) + interior + [1.0] * (p + 1)


def gen_shape(rng, pdim, rational, maxdeg=5, maxint=3, normalize=True, nondyadic=False, degs=None, budget=None):
    """A random spline shape.  Sizes differ pairwise per direction whenever possible.
    P: flat list of control points (v fastest, then u, then w); weighted homogeneous [x*w.., w] when rational."""
    budget = budget or {1: 40, 2: 70, 3: 120}[pdim]
    for _ in range(200):
        deg = degs or [rng.randint(1, maxdeg if pdim == 1 else (4 if pdim == 2 else 3)) for _ in range(pdim)]
        kvs = []
        for d in range(pdim):
            nint = rng.randint(0, maxint if pdim == 1 else 2)
            kvs.append(clamped_kv(rng, deg[d], nint, nondyadic=nondyadic and rng.random() < 0.5))
        size = [len(kvs[d]) - deg[d] - 1 for d in range(pdim)]
        total = 1
        for s in size:
            total *= s
        if total > budget:
            continue
        if pdim > 1 and len(set(size)) < pdim and rng.random() < 0.9:
            continue
        break
    dim = rng.choice([2, 3]) if pdim == 1 else 3
    pts = gc.points(rng, total, dim)
    if rational:
        ws = gc.weights(rng, total)
        P = [[c * w for c in pt] + [w] for pt, w in zip(pts, ws)]
    else:
        P = pts
    if not normalize:
        a = rng.choice([2.0, 4.0, 0.5, 8.0])
        b = rng.choice([-1.0, 0.25, 2.0, -3.5])
        kvs = [[a * k + b for k in kv] for kv in kvs]
    return {"pdim": pdim, "rational": bool(rational), "deg": deg, "kv": kvs, "size": size, "P": P, "normalize": bool(normalize)}


def build(sh):
    """geomdl object for a shape dict"""
    mod = NURBS if sh["rational"] else BSpline
    cls = [None, mod.Curve, mod.Surface, mod.Volume][sh["pdim"]]
    obj = cls(normalize_kv=sh.get("normalize", True))
    P = [list(map(float, pt)) for pt in sh["P"]]
    if sh["pdim"] == 1:
        obj.degree = sh["deg"][0]
        obj.set_ctrlpts(P)
        obj.knotvector = list(sh["kv"][0])
    elif sh["pdim"] == 2:
        obj.degree_u, obj.degree_v = sh["deg"]
        obj.set_ctrlpts(P, sh["size"][0], sh["size"][1])
        obj.knotvector_u = list(sh["kv"][0])
        obj.knotvector_v = list(sh["kv"][1])
    else:
        obj.degree_u, obj.degree_v, obj.degree_w = sh["deg"]
        obj.set_ctrlpts(P, sh["size"][0], sh["size"][1], sh["size"][2])
        obj.knotvector_u = list(sh["kv"][0])
        obj.knotvector_v = list(sh["kv"][1])
        obj.knotvector_w = list(sh["kv"][2])
    return obj


def snapshot(obj):
    """definition fields of a geomdl object as plain lists"""
    pd = obj.pdimension
    rat = bool(obj.rational)
    P = obj.ctrlptsw if rat else obj.ctrlpts
    P = [[float(c) for c in pt] for pt in P]
    if pd == 1:
        deg, kv, size = [obj.degree], [list(obj.knotvector)], [obj.ctrlpts_size]
    elif pd == 2:
        deg, kv, size = [obj.degree_u, obj.degree_v], [list(obj.knotvector_u), list(obj.knotvector_v)], [obj.ctrlpts_size_u, obj.ctrlpts_size_v]
    else:
        deg = [obj.degree_u, obj.degree_v, obj.degree_w]
        kv = [list(obj.knotvector_u), list(obj.knotvector_v), list(obj.knotvector_w)]
        size = [obj.ctrlpts_size_u, obj.ctrlpts_size_v, obj.ctrlpts_size_w]
    return {"pdim": pd, "rational": rat, "deg": [int(x) for x in deg], "kv": [[float(k) for k in v] for v in kv],
            "size": [int(s) for s in size], "P": P}


def quiet(fn, *a, **kw):
    """run fn with stdout swallowed (the object wrappers print caught GeomdlExceptions)"""
    buf = io.StringIO()
    with contextlib.redirect_stdout(buf):
        return fn(*a, **kw)


# ------------------------------------------------------------------ exact evaluation (property oracle)
def basis_exact(U, p, n, u):
    """(first index, [N_{first..first+p}(u)]) by the Cox-de Boor recursion; at the domain end the closed last span"""
    k = gc.exact_span(U, p, n, u)
    if k is None:
        raise ValueError("parameter outside the domain")
    if u >= U[n]:
        return k - p, gc.basis_closed(U, p, k, u)
    return k - p, [gc.cdb(U, p, k - p + j, u) for j in range(p + 1)]


class Exact(object):
    """exact evaluator of a snapshot (any parametric dimension); caches per-direction basis values"""

    def __init__(self, sn):
        self.sn = sn
        self.pd = sn["pdim"]
        self.U = [gc.fr(kv) for kv in sn["kv"]]
        self.P = [[F(c) for c in pt] for pt in sn["P"]]
        self.cache = [dict() for _ in range(self.pd)]

    def basis(self, d, u):
        c = self.cache[d]
        if u not in c:
            c[u] = basis_exact(self.U[d], self.sn["deg"][d], self.sn["size"][d], u)
        return c[u]

    def at(self, params):
        sn = self.sn
        pd = self.pd
        bs = [self.basis(d, F(params[d])) for d in range(pd)]
        size = sn["size"]
        dim = len(self.P[0])
        acc = [F(0)] * dim
        if pd == 1:
            i0, Nu = bs[0]
            for a, na in enumerate(Nu):
                if na:
                    pt = self.P[i0 + a]
                    for c in range(dim):
                        acc[c] += na * pt[c]
        elif pd == 2:
            (i0, Nu), (j0, Nv) = bs
            for a, na in enumerate(Nu):
                for b, nb in enumerate(Nv):
                    w = na * nb
                    if w:
                        pt = self.P[(j0 + b) + size[1] * (i0 + a)]
                        for c in range(dim):
                            acc[c] += w * pt[c]
        else:
            (i0, Nu), (j0, Nv), (k0, Nw) = bs
            for a, na in enumerate(Nu):
                for b, nb in enumerate(Nv):
                    for e, ne in enumerate(Nw):
                        w = na * nb * ne
                        if w:
                            pt = self.P[(j0 + b) + size[1] * (i0 + a) + size[0] * size[1] * (k0 + e)]
                            for c in range(dim):
                                acc[c] += w * pt[c]
        if sn["rational"]:
            if acc[-1] == 0:
                raise ZeroDivisionError("zero weight")
            return [x / acc[-1] for x in acc[:-1]]
        return acc


def dir_values(kv_old, kv_new, p):
    """parameter values for one direction: every distinct old and new knot in the domain and the midpoints between them"""
    lo, hi = F(kv_old[p]), F(kv_old[len(kv_old) - p - 1])
    ks = sorted(set(F(k) for k in list(kv_old) + list(kv_new) if lo <= F(k) <= hi))
    out = []
    for a, b in zip(ks, ks[1:]):
        out += [a, (a + b) / 2]
    out.append(ks[-1])
    return out


def grid(vals, limit=48):
    """parameter tuples: full product when small, otherwise a covering sample (every value of every direction occurs)"""
    pd = len(vals)
    total = 1
    for v in vals:
        total *= len(v)
    if total <= limit:
        out = [[]]
        for v in vals:
            out = [o + [x] for o in out for x in v]
        return out
    m = max(len(v) for v in vals)
    out, seen = [], set()
    for t in range(max(limit, m)):
        r = t // m
        o = [vals[d][(t + r * (2 * d + 1)) % len(vals[d])] for d in range(pd)]
        if tuple(o) not in seen:
            seen.add(tuple(o))
            out.append(o)
    return out


def same_shape(before, after, limit=48, tol=1e-9):
    """None if the two snapshots evaluate to the same points on a grid containing all old and new knots,
    else a message with the first differing parameter"""
    pd = before["pdim"]
    vals = [dir_values(before["kv"][d], after["kv"][d], before["deg"][d]) for d in range(pd)]
    try:
        ea, eb = Exact(before), Exact(after)
        for prm in grid(vals, limit):
            a = ea.at(prm)
            b = eb.at(prm)
            if not gc.closel(a, b, tol):
                return "evaluated point changed at %s: before %s after %s" % (
                    [float(x) for x in prm], [float(x) for x in a], [float(x) for x in b])
    except (IndexError, ZeroDivisionError, ValueError, TypeError) as e:
        return "the shape after the operation cannot be evaluated (%s: %s)" % (type(e).__name__, e)
    return None


def structure_ok(sn):
    """basic consistency of a snapshot: sizes, knot vector lengths, monotone knots"""
    total = 1
    for d in range(sn["pdim"]):
        total *= sn["size"][d]
        kv = sn["kv"][d]
        if len(kv) != sn["size"][d] + sn["deg"][d] + 1:
            return "knot vector %s has %d knots for degree %d and %d control points" % (DIRS[d], len(kv), sn["deg"][d], sn["size"][d])
        if any(a > b for a, b in zip(kv, kv[1:])):
            return "knot vector %s is not sorted: %s" % (DIRS[d], kv)
    if len(sn["P"]) != total:
        return "control net has %d points for sizes %s" % (len(sn["P"]), sn["size"])
    return None


def mult(kv, u, tol=1e-7):
    return sum(1 for k in kv if abs(k - u) <= tol)


# ------------------------------------------------------------------ Gallina rendering
def g_geom(sn):
    """record literal of Model/InsertKnot.v for a shape / snapshot (exact inputs)"""
    pd = sn["pdim"]
    if pd == 1:
        return "(mkC %s %s %s)" % (G.n(sn["deg"][0]), G.ql(sn["kv"][0]), G.qll(sn["P"]))
    if pd == 2:
        return "(mkS %s %s %s %s %s %s %s)" % (G.n(sn["deg"][0]), G.n(sn["deg"][1]), G.ql(sn["kv"][0]), G.ql(sn["kv"][1]),
                                               G.n(sn["size"][0]), G.n(sn["size"][1]), G.qll(sn["P"]))
    return "(mkV %s %s %s %s %s %s %s %s %s %s)" % (
        G.n(sn["deg"][0]), G.n(sn["deg"][1]), G.n(sn["deg"][2]), G.ql(sn["kv"][0]), G.ql(sn["kv"][1]), G.ql(sn["kv"][2]),
        G.n(sn["size"][0]), G.n(sn["size"][1]), G.n(sn["size"][2]), G.qll(sn["P"]))


def g_cmp(model_term, sn):
    """compare a model geometry record with an implementation snapshot (floats on the 1e-12 grid)"""
    pd = sn["pdim"]
    if pd == 1:
        return "(cmp_curve %s %s %s %s)" % (model_term, G.n(sn["deg"][0]), G.sl(sn["kv"][0]), G.sll(sn["P"]))
    if pd == 2:
        return "(cmp_surf %s %s %s %s %s)" % (model_term, G.nl(sn["deg"] + sn["size"]), G.sl(sn["kv"][0]), G.sl(sn["kv"][1]), G.sll(sn["P"]))
    return "(cmp_vol %s %s %s %s %s %s)" % (model_term, G.nl(sn["deg"] + sn["size"]), G.sl(sn["kv"][0]), G.sl(sn["kv"][1]), G.sl(sn["kv"][2]), G.sll(sn["P"]))


def g_optQ(x):
    return "None" if x is None else "(Some %s)" % G.Q(x)


def g_optQl(xs):
    return "[" + "; ".join(g_optQ(x) for x in xs) + "]"


def g_zl(xs):
    return "[" + "; ".join("(%d)" % int(x) for x in xs) + "]%Z"
