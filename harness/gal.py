"""Rendering of Python values as Gallina literals (exact)."""
from fractions import Fraction
import math

SCALE = 10 ** 12


def frac(x):
    if isinstance(x, Fraction):
        return x
    if isinstance(x, bool):
        return Fraction(int(x))
    if isinstance(x, int):
        return Fraction(x)
    if isinstance(x, float):
        if math.isnan(x) or math.isinf(x):
            raise ValueError("non-finite float")
        return Fraction(x)
    raise TypeError("not a scalar: %r" % (x,))


def q(x):
    """exact rational literal (valid inside %Q scope)"""
    f = frac(x)
    if f.numerator < 0:
        return "(-%d#%d)" % (-f.numerator, f.denominator)
    return "(%d#%d)" % (f.numerator, f.denominator)


def Q(x):
    return q(x) + "%Q"


def ql(xs):
    return "[" + "; ".join(q(x) for x in xs) + "]%Q"


def qll(xss):
    return "[" + "; ".join(ql(xs) for xs in xss) + "]"


def qlll(xsss):
    return "[" + "; ".join(qll(xs) for xs in xsss) + "]"


def scaled(x):
    """implementation float -> integer on the 1e-12 grid"""
    f = frac(x)
    return round(f * SCALE)


def z(x):
    return "(%d)%%Z" % int(x)


def zl(xs):
    return "[" + "; ".join("%d" % int(x) for x in xs) + "]%Z"


def zll(xss):
    return "[" + "; ".join(zl(xs) for xs in xss) + "]"


def zlll(xsss):
    return "[" + "; ".join(zll(xs) for xs in xsss) + "]"


def sl(xs):
    """list of floats -> scaled Z list"""
    return zl([scaled(x) for x in xs])


def sll(xss):
    return "[" + "; ".join(sl(xs) for xs in xss) + "]"


def slll(xsss):
    return "[" + "; ".join(sll(xs) for xs in xsss) + "]"


def n(x):
    x = int(x)
    if x < 0:
        raise ValueError("negative nat")
    return "%d%%nat" % x


def nl(xs):
    return "[" + "; ".join("%d" % int(x) for x in xs) + "]%nat"


def nll(xss):
    return "[" + "; ".join(nl(xs) for xs in xss) + "]"


def b(x):
    return "true" if x else "false"


def bl(xs):
    return "[" + "; ".join(b(x) for x in xs) + "]"


def opt(x, f):
    return "None" if x is None else "(Some %s)" % f(x)


def res(out, f):
    """out = {'ok': v} | {'rej': ..} | {'crash': ..}"""
    if "ok" in out:
        return "(Ok %s)" % f(out["ok"])
    if "rej" in out:
        return "Rejected"
    return "Crash"
