#!/usr/bin/env python3
"""Self-test of pytrans.py: fail-closed behaviour on constructs outside the understood subset, independence of the output
from formatting / comments / docstrings / hash seeds, and per-function SAME / DIFF / UNTRANSLATABLE reporting.
    python harness/pytrans_selftest.py        (exit 0 iff every expectation holds)
"""
import io, os, shutil, subprocess, sys, tempfile

HERE = os.path.dirname(os.path.abspath(__file__))
sys.path.insert(0, HERE)
import pytrans  # noqa: E402


def spec_for(params, returns, **extra):
    f = dict(name="f", params=params, returns=returns)
    f.update(extra)
    return {"order": ["m"], "modules": {"m": {"file": "m.py", "coq_module": "M", "imports": [], "functions": [f]}}}


def spec_multi(funcs, **modextra):
    """several functions / methods in one module; the outcome reported is that of the LAST one"""
    m = {"file": "m.py", "coq_module": "M", "imports": [], "functions": funcs}
    m.update(modextra)
    return {"order": ["m"], "modules": {"m": m}}


def outcome(src, spec):
    d = tempfile.mkdtemp()
    try:
        with open(os.path.join(d, "m.py"), "w") as fh:
            fh.write(src)
        (_, _, _, blocks), = pytrans.translate_blocks(d, spec).values()
        (_, text, err) = blocks[-1]
        return text, err
    finally:
        shutil.rmtree(d)


LF = {"a": "list[float]"}
CASES = [
    # (description, source, spec, substring expected in the error or None for "must translate")
    ("plain loop translates", "def f(a):\n    s = 0.0\n    for x in a:\n        s += x\n    return s\n", spec_for(LF, "float"), None),
    ("alias of a list that is later updated", "def f(a):\n    b = [0.0 for _ in a]\n    c = b\n    c[0] = 1.0\n    return b\n",
     spec_for(LF, "list[float]"), "second name"),
    ("in-place update of an argument", "def f(a):\n    a[0] = 1.0\n    return a\n", spec_for(LF, "list[float]"), "argument"),
    ("append to an argument", "def f(a):\n    a.append(1.0)\n    return a\n", spec_for(LF, "list[float]"), "argument"),
    ("unknown function", "def f(a):\n    return frobnicate(a)\n", spec_for(LF, "list[float]"), "not a translated function"),
    ("unknown method", "def f(a):\n    return a.index(1.0)\n", spec_for(LF, "int"), "not a translated function"),
    ("break", "def f(a):\n    s = 0.0\n    for x in a:\n        break\n    return s\n", spec_for(LF, "float"), "break"),
    ("loop variable used after the loop", "def f(a):\n    for x in a:\n        pass\n    return x\n", spec_for(LF, "float"), "not (definitely) bound"),
    ("variable bound on one path only", "def f(a):\n    if len(a) > 1:\n        y = 1.0\n    return y\n", spec_for(LF, "float"), "not (definitely) bound"),
    ("while without fuel", "def f(a):\n    i = 0\n    while i < len(a):\n        i += 1\n    return i\n", spec_for(LF, "int"), "fuel"),
    ("falls off the end", "def f(a):\n    s = 0.0\n", spec_for(LF, "float"), "fall off"),
    ("type error int vs list", "def f(a):\n    return a + 1\n", spec_for(LF, "list[float]"), "not understood"),
    ("list modified while iterated", "def f(a):\n    b = [x for x in a]\n    for x in b:\n        b.append(x)\n    return b\n",
     spec_for(LF, "list[float]"), "modified in the loop"),
    ("global statement", "def f(a):\n    global z\n    return a\n", spec_for(LF, "list[float]"), "Global"),
    ("lambda", "def f(a):\n    g = lambda x: x\n    return a\n", spec_for(LF, "list[float]"), "Lambda"),
    ("wrong parameter list", "def f(a, b):\n    return a\n", spec_for(LF, "list[float]"), "differ from the spec"),
    ("unknown decorator", "@cache\ndef f(a):\n    return a\n", spec_for(LF, "list[float]"), "decorator"),
    ("keyword not in spec", "def f(a, **kwargs):\n    t = kwargs.get('tol', 1.0)\n    return t\n", spec_for(LF, "float"), "not in the spec"),
    ("float + int/int translates (the exact quotient is injected: oratio)", "def f(a, n):\n    return a[0] + n / 2\n",
     spec_for({"a": "list[float]", "n": "int"}, "float"), None),
    ("range with a computed step", "def f(a, n):\n    s = 0\n    for i in range(0, 4, n):\n        s += i\n    return s\n",
     spec_for({"a": "list[float]", "n": "int"}, "int"), "step"),
    ("try body that updates a bound variable in several statements",
     "def f(a):\n    s = 0.0\n    try:\n        s = a[0]\n        s = s / a[1]\n    except ZeroDivisionError:\n        s = 1.0\n    return s\n",
     spec_for(LF, "float"), "bound before the try"),
    # ---- second round
    ("tuple swap of list elements translates", "def f(a):\n    b = [x for x in a]\n    b[0], b[1] = b[1], b[0]\n    return b\n",
     spec_for(LF, "list[float]"), None),
    ("int used as a condition translates", "def f(a):\n    n = len(a)\n    if n:\n        return 1.0\n    return 0.0\n", spec_for(LF, "float"), None),
    ("float('inf') without the spec flag", "def f(a):\n    return float('inf')\n", spec_for(LF, "float"), "infinity_params"),
    ("float('inf') with the spec flag translates", "def f(a):\n    return float('inf')\n",
     spec_for(LF, "float", infinity_params=True), None),
    ("float('nan')", "def f(a):\n    return float('nan')\n", spec_for(LF, "float", infinity_params=True), "other than"),
    ("enumerate loop that writes the current element translates",
     "def f(a):\n    b = [x for x in a]\n    for i, x in enumerate(b):\n        b[i] = x + 1.0\n    return b\n", spec_for(LF, "list[float]"), None),
    ("enumerate loop that writes another element",
     "def f(a):\n    b = [x for x in a]\n    for i, x in enumerate(b):\n        b[i + 1] = x\n    return b\n", spec_for(LF, "list[float]"),
     "modified in the loop"),
    ("enumerate loop that appends to the iterated list",
     "def f(a):\n    b = [x for x in a]\n    for i, x in enumerate(b):\n        b[i] = x\n        b.append(x)\n    return b\n",
     spec_for(LF, "list[float]"), "modified in the loop"),
    ("tuple indexed by a variable", "def f(a):\n    s = 0.0\n    for p in zip(a, a):\n        for k in range(2):\n            s += p[k]\n    return s\n",
     spec_for(LF, "float"), "literal"),
    ("nested function missing from the spec", "def f(a):\n    def g(x):\n        return x\n    return g(a[0])\n", spec_for(LF, "float"), "locals"),
    ("nested function translates", "def f(a):\n    def g(x):\n        return x + 1.0\n    return g(a[0])\n",
     spec_for(LF, "float", locals={"g": {"params": {"x": "float"}, "returns": "float"}}), None),
    ("nested function whose free variable is assigned later",
     "def f(a):\n    c = 1.0\n    def g(x):\n        return x + c\n    c = 2.0\n    return g(a[0])\n",
     spec_for(LF, "float", locals={"g": {"params": {"x": "float"}, "returns": "float"}}), "assigned after the def"),
    ("nested function that updates its argument in place",
     "def f(a):\n    def g(h, x):\n        h.append(x)\n        return h\n    return g([], a[0])\n",
     spec_for(LF, "list[float]", locals={"g": {"params": {"h": "list[float]", "x": "float"}, "returns": "list[float]"}}), "argument"),
    ("owned nested function called directly",
     "def f(a):\n    def g(h, x):\n        h.append(x)\n        return h\n    return g([], a[0])\n",
     spec_for(LF, "list[float]", locals={"g": {"params": {"h": "list[float]", "x": "float"}, "returns": "list[float]", "owned": ["h"]}}),
     "reduce"),
    ("owned nested function in reduce with a fresh initial value translates",
     "def f(a):\n    def g(h, x):\n        h.append(x)\n        return h\n    return reduce(g, a, [])\n",
     spec_for(LF, "list[float]", locals={"g": {"params": {"h": "list[float]", "x": "float"}, "returns": "list[float]", "owned": ["h"]}}),
     None),
    ("owned nested function in reduce over a visible list",
     "def f(a):\n    def g(h, x):\n        h.append(x)\n        return h\n    b = [x for x in a]\n    c = reduce(g, a, b)\n    return b\n",
     spec_for(LF, "list[float]", locals={"g": {"params": {"h": "list[float]", "x": "float"}, "returns": "list[float]", "owned": ["h"]}}),
     "fresh"),
    ("nested function that updates an outer list",
     "def f(a):\n    b = [x for x in a]\n    def g(x):\n        b.append(x)\n        return x\n    return g(a[0])\n",
     spec_for(LF, "float", locals={"g": {"params": {"x": "float"}, "returns": "float"}}), "enclosing"),
    ("sorted() of floats is not a primitive", "def f(a):\n    return sorted(a)\n", spec_for(LF, "list[float]"), "sorted() of"),
    ("static flag: both variants translate",
     "def f(a, flag=False):\n    if flag:\n        return a, 1.0\n    return a\n",
     spec_for(LF, {"False": "list[float]", "True": "tuple[list[float],float]"}, static={"flag": [False, True]}), None),
    ("static flag assigned in the body", "def f(a, flag=False):\n    flag = True\n    return a\n",
     spec_for(LF, "list[float]", static={"flag": [False]}), "assigned in the body"),
    ("math.sqrt is not understood", "import math\ndef f(a):\n    return math.sqrt(a[0])\n", spec_for(LF, "float"), "math.sqrt"),
    ("math.pow with another base", "import math\ndef f(a, n):\n    return math.pow(2, n)\n",
     spec_for({"a": "list[float]", "n": "int"}, "float"), "math.pow"),
    ("math.pow(-1, n) translates", "import math\ndef f(a, n):\n    return math.pow(-1, n)\n",
     spec_for({"a": "list[float]", "n": "int"}, "float"), None),
    ("math without the import", "def f(a, n):\n    return math.pow(-1, n)\n",
     spec_for({"a": "list[float]", "n": "int"}, "float"), "not a translated function"),
    ("int() of a float", "def f(a):\n    return int(a[0])\n", spec_for(LF, "int"), "int() of"),
    ("float(a) / float(b) stays a float division without the spec flag",
     "def f(a, n):\n    d = float(n) / float(n + 1)\n    return int(d)\n", spec_for({"a": "list[float]", "n": "int"}, "int"), "int() of"),
    ("float(a) / float(b) as an exact rational with the spec flag translates",
     "def f(a, n):\n    d = float(n) / float(n + 1)\n    return int(d)\n",
     spec_for({"a": "list[float]", "n": "int"}, "int", exact_int_quotients=True), None),
    ("abstract callee never called", "from . import linalg\ndef f(a):\n    return a[0]\n",
     spec_for(LF, "float", abstract_calls={"linalg.point_distance": {"param": "dist", "type": "fn(list[float],list[float])->float"}}),
     "never called"),
    ("None placeholders: arithmetic on a slot unwraps it (TypeError for None)",
     "def f(a):\n    b = [None for _ in a]\n    b[0] = a[0]\n    return b[0] + 1.0\n", spec_for(LF, "float"), None),
    ("None as a value of a non-list type", "def f(a):\n    return None\n", spec_for(LF, "float"), "type mismatch"),
    ("constant propagation of a flag: the dead branch need not type-check",
     "def f(a):\n    flag = True\n    if len(a) == len(a):\n        pass\n    if flag:\n        b = [x for x in a]\n    else:\n        b = [[x] for x in a]\n    return b\n",
     spec_for(LF, "list[float]"), None),
    ("a flag assigned under a run-time condition is not a constant",
     "def f(a):\n    flag = True\n    if len(a) > 1:\n        flag = False\n    if flag:\n        b = [x for x in a]\n    else:\n        b = [[x] for x in a]\n    return b\n",
     spec_for(LF, "list[float]"), "type mismatch"),
    ("a flag assigned in a loop is not a constant",
     "def f(a):\n    flag = True\n    for x in a:\n        flag = False\n    if flag:\n        b = [x for x in a]\n    else:\n        b = [[x] for x in a]\n    return b\n",
     spec_for(LF, "list[float]"), "type mismatch"),
    ("loop variable after a loop over range(0, n) with n >= 1 known translates",
     "def f(a, n):\n    if n < 1:\n        return 0\n    s = 0\n    for t in range(0, n):\n        s += t\n    return s + t\n",
     spec_for({"a": "list[float]", "n": "int"}, "int"), None),
    ("loop variable after a loop whose range may be empty",
     "def f(a, n):\n    s = 0\n    for t in range(0, n):\n        s += t\n    return s + t\n",
     spec_for({"a": "list[float]", "n": "int"}, "int"), "not (definitely) bound"),
    ("loop variable after the loop: the bound is reassigned",
     "def f(a, n):\n    if n < 1:\n        return 0\n    n = n - 1\n    s = 0\n    for t in range(0, n):\n        s += t\n    return s + t\n",
     spec_for({"a": "list[float]", "n": "int"}, "int"), "not (definitely) bound"),
    ("two while loops, the second inside a branch, each with its fuel",
     "def f(a, n):\n    i = 0\n    while i < n:\n        i += 1\n    if n > 2:\n        j = 0\n        while j < n:\n            j += 1\n            i += 1\n    return i\n",
     spec_for({"a": "list[float]", "n": "int"}, "int", fuel=["n + 1", "n + 1"]), None),
    ("a list as a condition / under not translates",
     "def f(a):\n    b = list()\n    if a:\n        b = b + a\n    if not b:\n        return 0.0\n    return b[0]\n", spec_for(LF, "float"), None),
    ("sorted(set(l)) translates", "def f(a):\n    return sorted(set(a))\n", spec_for(LF, "list[float]"), None),
    ("set() alone is not understood", "def f(a):\n    b = set(a)\n    return a\n", spec_for(LF, "list[float]"), "not a translated function"),
    ("loop variable after a possibly empty range, checked at run time (spec flag)",
     "def f(a, n):\n    s = 0\n    for t in range(0, n):\n        s += t\n    return s + t\n",
     spec_for({"a": "list[float]", "n": "int"}, "int", loop_var_after_loop="checked"), None),
    ("a later loop over the same variable is not a read of the old one",
     "def f(a, n):\n    s = 0\n    for j in range(0, n):\n        s += j\n    for j in range(0, n):\n        s += j\n    j = 3\n    return s + j\n",
     spec_for({"a": "list[float]", "n": "int"}, "int"), None),
    ("abstract callee translates", "from . import linalg\ndef f(a):\n    return linalg.point_distance(a, a)\n",
     spec_for(LF, "float", abstract_calls={"linalg.point_distance": {"param": "dist", "type": "fn(list[float],list[float])->float"}}),
     None),
    # ---- third round: methods, self attributes, super(), **kwargs passed on, dict arguments
    ("method with a function-typed self attribute translates",
     "class C(object):\n    def m(self, a):\n        return self._g(a[0])\n",
     spec_multi([dict(name="C.m", params=LF, returns="float", self_attrs={"_g": "fn(float)->float"})]), None),
    ("self attribute that is not in the spec", "class C(object):\n    def m(self, a):\n        return self._h(a[0])\n",
     spec_multi([dict(name="C.m", params=LF, returns="float", self_attrs={"_g": "fn(float)->float"})]), "self_attrs"),
    ("self used as a value", "class C(object):\n    def m(self, a):\n        b = self\n        return a[0]\n",
     spec_multi([dict(name="C.m", params=LF, returns="float")]), "not (definitely) bound"),
    ("method call through self (dynamic dispatch)", "class C(object):\n    def m(self, a):\n        return self.n(a)\n    def n(self, a):\n        return a[0]\n",
     spec_multi([dict(name="C.n", params=LF, returns="float"), dict(name="C.m", params=LF, returns="float")]), "self_attrs"),
    ("assignment to a self attribute", "class C(object):\n    def m(self, a):\n        self._x = a[0]\n        return a[0]\n",
     spec_multi([dict(name="C.m", params=LF, returns="float")]), "assignment target"),
    ("self_attrs on a plain function", "def f(a):\n    return a[0]\n", spec_for(LF, "float", self_attrs={"_g": "fn(float)->float"}),
     "plain function"),
    ("super() call of the translated base method translates (self attributes and **kwargs passed on)",
     "class B(object):\n    def m(self, a, **kwargs):\n        t = kwargs.get('t', 1.0)\n        return self._g(a[0]) + t\n"
     "class C(B):\n    def m(self, a, **kwargs):\n        return super(C, self).m(a, **kwargs) * 2.0\n",
     spec_multi([dict(name="B.m", params=LF, kwargs={"t": "float"}, returns="float", self_attrs={"_g": "fn(float)->float"}),
                 dict(name="C.m", params=LF, kwargs={"t": "float"}, returns="float", self_attrs={"_g": "fn(float)->float"})]), None),
    ("super() skips a class that does not define the method",
     "class A(object):\n    def m(self, a):\n        return a[0]\nclass B(A):\n    def n(self, a):\n        return a[0]\n"
     "class C(B):\n    def m(self, a):\n        return super(C, self).m(a)\n",
     spec_multi([dict(name="A.m", params=LF, returns="float"), dict(name="C.m", params=LF, returns="float")]), None),
    ("super() of another class", "class B(object):\n    def m(self, a):\n        return a[0]\nclass C(B):\n    def m(self, a):\n        return super(B, self).m(a)\n",
     spec_multi([dict(name="B.m", params=LF, returns="float"), dict(name="C.m", params=LF, returns="float")]), "super() form"),
    ("super() where the base method is not translated", "class B(object):\n    def m(self, a):\n        return a[0]\nclass C(B):\n    def m(self, a):\n        return super(C, self).m(a)\n",
     spec_multi([dict(name="C.m", params=LF, returns="float")]), "is not translated"),
    ("super() in a class with two bases", "class A(object):\n    pass\nclass B(object):\n    def m(self, a):\n        return a[0]\nclass C(B, A):\n    def m(self, a):\n        return super(C, self).m(a)\n",
     spec_multi([dict(name="B.m", params=LF, returns="float"), dict(name="C.m", params=LF, returns="float")]), "exactly one base"),
    ("super() in a class with a metaclass keyword", "class B(object):\n    def m(self, a):\n        return a[0]\nclass C(B, metaclass=M):\n    def m(self, a):\n        return super(C, self).m(a)\n",
     spec_multi([dict(name="B.m", params=LF, returns="float"), dict(name="C.m", params=LF, returns="float")]), "exactly one base"),
    ("super() in a class with a class attribute", "class B(object):\n    def m(self, a):\n        return a[0]\nclass C(B):\n    m2 = None\n    def m(self, a):\n        return super(C, self).m(a)\n",
     spec_multi([dict(name="B.m", params=LF, returns="float"), dict(name="C.m", params=LF, returns="float")]), "something else than methods"),
    ("super() in a class with an unknown decorator", "class B(object):\n    def m(self, a):\n        return a[0]\n@magic\nclass C(B):\n    def m(self, a):\n        return super(C, self).m(a)\n",
     spec_multi([dict(name="B.m", params=LF, returns="float"), dict(name="C.m", params=LF, returns="float")]), "decorator"),
    ("super() callee uses a self attribute the caller's spec lacks",
     "class B(object):\n    def m(self, a):\n        return self._g(a[0])\nclass C(B):\n    def m(self, a):\n        return super(C, self).m(a)\n",
     spec_multi([dict(name="B.m", params=LF, returns="float", self_attrs={"_g": "fn(float)->float"}), dict(name="C.m", params=LF, returns="float")]),
     "not in the spec of this method"),
    ("**kwargs passed on with a keyword the caller's spec lacks",
     "class B(object):\n    def m(self, a, **kwargs):\n        t = kwargs.get('t', 1.0)\n        return a[0] + t\n"
     "class C(B):\n    def m(self, a, **kwargs):\n        return super(C, self).m(a, **kwargs)\n",
     spec_multi([dict(name="B.m", params=LF, kwargs={"t": "float"}, returns="float"), dict(name="C.m", params=LF, returns="float")]),
     "not in the spec of this function"),
    ("** of something else than the own **kwargs", "def g(a, **kwargs):\n    t = kwargs.get('t', 1.0)\n    return a[0] + t\ndef f(a, d):\n    return g(a, **d)\n",
     spec_multi([dict(name="g", params=LF, kwargs={"t": "float"}, returns="float"), dict(name="f", params={"a": "list[float]", "d": "list[float]"}, returns="float")]),
     "only the function's own"),
    ("dict argument: a literal key of the declared set translates", "def f(d):\n    p = d['pts']\n    return p[d['n'][0]]\n",
     spec_multi([dict(name="f", params={"d": "dict:rec"}, returns="float")], dicts={"rec": {"n": "list[int]", "pts": "list[float]"}}), None),
    ("dict argument: a key that is not declared", "def f(d):\n    return d['q']\n",
     spec_multi([dict(name="f", params={"d": "dict:rec"}, returns="float")], dicts={"rec": {"n": "list[int]", "pts": "list[float]"}}), "is not in the spec of the dict"),
    ("dict argument: a computed key", "def f(d, k):\n    return d[k]\n",
     spec_multi([dict(name="f", params={"d": "dict:rec", "k": "int"}, returns="float")], dicts={"rec": {"n": "list[int]", "pts": "list[float]"}}), "literal key"),
    ("dict argument: undeclared dict type", "def f(d):\n    return d['n']\n",
     spec_multi([dict(name="f", params={"d": "dict:rec"}, returns="list[int]")]), "is not in the spec (dicts)"),
    ("dict argument: storing into the dict", "def f(d):\n    d['n'] = [1]\n    return 1.0\n",
     spec_multi([dict(name="f", params={"d": "dict:rec"}, returns="float")], dicts={"rec": {"n": "list[int]", "pts": "list[float]"}}), "argument"),
    ("dict argument: in-place update through a local name of a part",
     "def f(d):\n    p = d['pts']\n    q = [0.0 for _ in p]\n    q[0] = 1.0\n    p[0] = 2.0\n    return q\n",
     spec_multi([dict(name="f", params={"d": "dict:rec"}, returns="list[float]", alias_ok=True)], dicts={"rec": {"n": "list[int]", "pts": "list[float]"}}),
     "part of a dict argument"),
    ("dict argument: a local name of a part is rebound",
     "def f(d):\n    p = d['pts']\n    p = [0.0 for _ in p]\n    return p\n",
     spec_multi([dict(name="f", params={"d": "dict:rec"}, returns="list[float]", alias_ok=True)], dicts={"rec": {"n": "list[int]", "pts": "list[float]"}}),
     "is rebound"),
    ("dict argument: a variable with the name of a record projection",
     "def f(d):\n    rec_n = d['n']\n    return rec_n\n",
     spec_multi([dict(name="f", params={"d": "dict:rec"}, returns="list[int]")], dicts={"rec": {"n": "list[int]", "pts": "list[float]"}}),
     "name of a record"),
    ("iteration over a dict", "def f(d):\n    s = 0.0\n    for k in d:\n        s += 1.0\n    return s\n",
     spec_multi([dict(name="f", params={"d": "dict:rec"}, returns="float")], dicts={"rec": {"n": "list[int]", "pts": "list[float]"}}), "iteration over"),
    ("a tuple that is only ever indexed is a list (index by a variable) translates",
     "def f(a, n):\n    d = (n, n + 1)\n    s = 0\n    for k in range(2):\n        s += d[k]\n    return s\n",
     spec_for({"a": "list[float]", "n": "int"}, "int"), None),
    ("a tuple that is also used as a whole stays a tuple",
     "def f(a, n):\n    d = (n, n + 1)\n    s = 0\n    for k in range(2):\n        s += d[k]\n    e = d\n    return s\n",
     spec_for({"a": "list[float]", "n": "int"}, "int"), "literal"),
    ("a tuple bound twice stays a tuple",
     "def f(a, n):\n    d = (n, n + 1)\n    d = (n, n)\n    s = 0\n    for k in range(2):\n        s += d[k]\n    return s\n",
     spec_for({"a": "list[float]", "n": "int"}, "int"), "literal"),
    ("copy.deepcopy translates", "import copy\ndef f(a):\n    b = copy.deepcopy(a)\n    return b\n", spec_for(LF, "list[float]"), None),
    ("copy.copy is not understood", "import copy\ndef f(a):\n    b = copy.copy(a)\n    return b\n", spec_for(LF, "list[float]"), "not a translated function"),
    ("copy.deepcopy without the import", "def f(a):\n    b = copy.deepcopy(a)\n    return b\n", spec_for(LF, "list[float]"), "not a translated function"),
    # ---- fourth round
    ("a list display returned where the spec gives a tuple translates", "def f(a):\n    b = [x for x in a]\n    return [b, a[0]]\n",
     spec_for(LF, "tuple[list[float],float]"), None),
    ("a heterogeneous list display returned where the spec gives a list", "def f(a):\n    b = [x for x in a]\n    return [b, a[0]]\n",
     spec_for(LF, "list[float]"), "type mismatch"),
    ("none variant (p=None, `if p is None: p = ...`) translates", "def f(a, w=None):\n    if w is None:\n        w = [1.0 for _ in a]\n    return w\n",
     spec_for({"a": "list[float]", "w": "list[float]"}, "list[float]", none_variants=[{"suffix": "w_none", "none": ["w"]}]), None),
    ("none variant of a parameter whose default is not None", "def f(a, w=1.0):\n    return w\n",
     spec_for({"a": "list[float]", "w": "float"}, "float", none_variants=[{"suffix": "w_none", "none": ["w"]}]), "default of the none parameter"),
    ("none variant: the parameter is read while it is None", "def f(a, w=None):\n    return w\n",
     spec_for({"a": "list[float]", "w": "list[float]"}, "list[float]", none_variants=[{"suffix": "w_none", "none": ["w"]}]), "not (definitely) bound"),
    ("object argument: an attribute of the declared set translates", "def f(c):\n    return c.pts[c.n]\n",
     spec_multi([dict(name="f", params={"c": "obj:rec"}, returns="float")], objects={"rec": {"n": "int", "pts": "list[float]"}}), None),
    ("object argument: an attribute that is not declared", "def f(c):\n    return c.q\n",
     spec_multi([dict(name="f", params={"c": "obj:rec"}, returns="float")], objects={"rec": {"n": "int", "pts": "list[float]"}}), "is not in the spec of the object"),
    ("object argument: undeclared object type", "def f(c):\n    return c.n\n",
     spec_multi([dict(name="f", params={"c": "obj:rec"}, returns="int")]), "is not in the spec (objects)"),
    ("object argument: storing into an attribute", "def f(c):\n    c.n = 1\n    return 1.0\n",
     spec_multi([dict(name="f", params={"c": "obj:rec"}, returns="float")], objects={"rec": {"n": "int", "pts": "list[float]"}}), "target not understood"),
    ("object argument: a method call", "def f(c):\n    return c.evaluate(1.0)\n",
     spec_multi([dict(name="f", params={"c": "obj:rec"}, returns="float")], objects={"rec": {"n": "int", "pts": "list[float]"}}), "not a translated function"),
    ("object argument: in-place update through a local name of an attribute",
     "def f(c):\n    p = c.pts\n    q = [0.0 for _ in p]\n    q[0] = 1.0\n    p[0] = 2.0\n    return q\n",
     spec_multi([dict(name="f", params={"c": "obj:rec"}, returns="list[float]", alias_ok=True)], objects={"rec": {"n": "int", "pts": "list[float]"}}),
     "part of a dict argument"),
    ("[() for _ in range(n)] placeholders translate", "def f(a, n):\n    b = [() for _ in range(n)]\n    for i in range(n):\n        b[i] = [a[i]]\n    return b\n",
     spec_for({"a": "list[float]", "n": "int"}, "list[list[float]]"), None),
    ("() outside a comprehension", "def f(a):\n    b = ()\n    c = b\n    return a\n", spec_for(LF, "list[float]"), "fewer than two"),
    ("a translated function as the default of a function-typed keyword translates",
     "def g(a):\n    return a[0]\ndef f(a, **kwargs):\n    h = kwargs.get('h', g)\n    return h(a)\n",
     spec_multi([dict(name="g", params=LF, returns="float"), dict(name="f", params=LF, kwargs={"h": "fn(list[float])->float"}, returns="float")]), None),
    ("a function default of another type than the spec gives",
     "def g(a):\n    return a[0]\ndef f(a, **kwargs):\n    h = kwargs.get('h', g)\n    return h(a, 1)\n",
     spec_multi([dict(name="g", params=LF, returns="float"), dict(name="f", params=LF, kwargs={"h": "fn(list[float],int)->float"}, returns="float")]),
     "another type"),
    ("`if x is not None` on a None-or-float slot translates (a match)",
     "def f(a):\n    for x in a:\n        if x is not None:\n            if x < 0.0:\n                return False\n    return True\n",
     spec_for({"a": "list[optfloat]"}, "bool"), None),
    ("a None-or-float slot compared without a test", "def f(a):\n    return a[0] < 0.0\n", spec_for({"a": "list[optfloat]"}, "bool"), "comparison"),
    ("a branch that returns on some paths only translates (the continuation is duplicated)",
     "def f(a):\n    s = 0.0\n    if len(a) > 1:\n        if a[0] < 0.0:\n            return 1.0\n    return s\n", spec_for(LF, "float"), None),
    ("slice assignment b[lo:hi] = fresh list translates", "def f(a, n):\n    b = [0.0 for _ in range(n)]\n    b[1:3] = [x for x in a]\n    return b\n",
     spec_for({"a": "list[float]", "n": "int"}, "list[float]"), None),
    ("slice assignment into a row translates", "def f(a, n):\n    b = [[0.0 for _ in range(n)] for _ in range(n)]\n    b[0][1:n] = [x for x in a]\n    return b\n",
     spec_for({"a": "list[float]", "n": "int"}, "list[list[float]]"), None),
    ("slice assignment with a step", "def f(a, n):\n    b = [0.0 for _ in range(n)]\n    b[0:4:2] = [x for x in a]\n    return b\n",
     spec_for({"a": "list[float]", "n": "int"}, "list[float]"), "slice assignment"),
    ("slice assignment of a list that has another name", "def f(a, n):\n    b = [0.0 for _ in range(n)]\n    c = [x for x in a]\n    b[1:3] = c\n    b[0] = 1.0\n    return b\n",
     spec_for({"a": "list[float]", "n": "int"}, "list[float]"), "second name"),
    ("a static keyword (specialisation to its value) translates",
     "def f(a, **kwargs):\n    flag = kwargs.get('flag', False)\n    if flag:\n        return a[0]\n    return a[1]\n",
     spec_for(LF, "float", static_kwargs={"flag": False}), None),
    ("a static keyword that is never read", "def f(a, **kwargs):\n    return a[1]\n", spec_for(LF, "float", static_kwargs={"flag": False}), "never read"),
    ("a static keyword with a non-bool default", "def f(a, **kwargs):\n    flag = kwargs.get('flag', 0)\n    return a[1]\n",
     spec_for(LF, "float", static_kwargs={"flag": False}), "must be True / False"),
    ("construction of a result object translates", "from . import B\ndef f(a):\n    c = B.Curve()\n    c.x = a[0]\n    return c\n",
     spec_multi([dict(name="f", params=LF, returns="obj:rec", constructs={"B.Curve": "rec"})], objects={"rec": {"x": "float"}}), None),
    ("a constructor that is not in the spec", "from . import B\ndef f(a):\n    c = B.Curve()\n    c.x = a[0]\n    return c\n",
     spec_multi([dict(name="f", params=LF, returns="obj:rec")], objects={"rec": {"x": "float"}}), "not a translated function"),
    ("a constructor with arguments", "from . import B\ndef f(a):\n    c = B.Curve(a)\n    c.x = a[0]\n    return c\n",
     spec_multi([dict(name="f", params=LF, returns="obj:rec", constructs={"B.Curve": "rec"})], objects={"rec": {"x": "float"}}), "not a translated function"),
    ("result object: an attribute that is never assigned", "from . import B\ndef f(a):\n    c = B.Curve()\n    return c\n",
     spec_multi([dict(name="f", params=LF, returns="obj:rec", constructs={"B.Curve": "rec"})], objects={"rec": {"x": "float"}}), "never assigned"),
    ("result object: an attribute assigned twice", "from . import B\ndef f(a):\n    c = B.Curve()\n    c.x = a[0]\n    c.x = a[1]\n    return c\n",
     spec_multi([dict(name="f", params=LF, returns="obj:rec", constructs={"B.Curve": "rec"})], objects={"rec": {"x": "float"}}), "assigned twice"),
    ("result object: an undeclared attribute", "from . import B\ndef f(a):\n    c = B.Curve()\n    c.y = a[0]\n    return c\n",
     spec_multi([dict(name="f", params=LF, returns="obj:rec", constructs={"B.Curve": "rec"})], objects={"rec": {"x": "float"}}), "is not in the spec of the object"),
    ("result object: read while under construction", "from . import B\ndef f(a):\n    c = B.Curve()\n    c.x = a[0]\n    d = c\n    return c\n",
     spec_multi([dict(name="f", params=LF, returns="obj:rec", constructs={"B.Curve": "rec"})], objects={"rec": {"x": "float"}}), "under construction"),
    ("result object: an attribute assigned inside a loop", "from . import B\ndef f(a):\n    c = B.Curve()\n    for v in a:\n        c.x = v\n    return c\n",
     spec_multi([dict(name="f", params=LF, returns="obj:rec", constructs={"B.Curve": "rec"})], objects={"rec": {"x": "float"}}), "top level"),
    ("an abstract callee is passed on to a translated callee",
     "from . import linalg\ndef g(a):\n    return linalg.sq(a[0])\ndef f(a):\n    return g(a)\n",
     spec_multi([dict(name="g", params=LF, returns="float", abstract_calls={"linalg.sq": {"param": "sq", "type": "fn(float)->float"}}),
                 dict(name="f", params=LF, returns="float", abstract_calls={"linalg.sq": {"param": "sq", "type": "fn(float)->float"}})]), None),
    ("call of a function with an abstract callee from one without",
     "from . import linalg\ndef g(a):\n    return linalg.sq(a[0])\ndef f(a):\n    return g(a)\n",
     spec_multi([dict(name="g", params=LF, returns="float", abstract_calls={"linalg.sq": {"param": "sq", "type": "fn(float)->float"}}),
                 dict(name="f", params=LF, returns="float")]), "not an abstract callee of this function"),
    ("a static argument given by a constant-propagated flag translates",
     "def g(a, flag=False):\n    if flag:\n        return a[0]\n    return a[1]\ndef f(a):\n    fl = True\n    return g(a, fl)\n",
     spec_multi([dict(name="g", params=LF, static={"flag": [False, True]}, returns="float"), dict(name="f", params=LF, returns="float")]), None),
    ("a static argument given by the caller's own static parameter translates",
     "def g(a, flag=False):\n    if flag:\n        return a[0]\n    return a[1]\ndef f(a, flag=False):\n    return g(a, flag)\n",
     spec_multi([dict(name="g", params=LF, static={"flag": [False, True]}, returns="float"),
                 dict(name="f", params=LF, static={"flag": [False, True]}, returns="float")]), None),
    ("a static argument for which the callee is not translated",
     "def g(a, flag=False):\n    if flag:\n        return a[0]\n    return a[1]\ndef f(a):\n    return g(a, True)\n",
     spec_multi([dict(name="g", params=LF, static={"flag": [False]}, returns="float"), dict(name="f", params=LF, returns="float")]), "not translated for"),
    ("all() of a list of bools translates", "def f(a):\n    r = [x < 1.0 for x in a]\n    return all(r)\n", spec_for(LF, "bool"), None),
    ("all() of a list of floats", "def f(a):\n    return all(a)\n", spec_for(LF, "bool"), "all() of a"),
    ("f(*args) with the spec's vararg translates", "def f(*args):\n    return args[0]\n", spec_for({"args": "list[list[float]]"}, "list[float]", vararg="args"), None),
    ("f(*args) without vararg in the spec", "def f(*args):\n    return args[0]\n", spec_for({"args": "list[list[float]]"}, "list[float]"), "unsupported argument kinds"),
    ("f(x, *args)", "def f(x, *args):\n    return args[0]\n", spec_for({"x": "float", "args": "list[list[float]]"}, "list[float]", vararg="args"), "unsupported argument kinds"),
    ("call of a function with *args", "def g(*args):\n    return args[0]\ndef f(a):\n    return g(a)\n",
     spec_multi([dict(name="g", params={"args": "list[list[float]]"}, vararg="args", returns="list[float]"), dict(name="f", params=LF, returns="list[float]")]),
     "with *args"),
    ("x ** 2 on a float translates", "def f(a):\n    return a[0] ** 2\n", spec_for(LF, "float"), None),
    ("x ** 3 on a float", "def f(a):\n    return a[0] ** 3\n", spec_for(LF, "float"), "float operator Pow"),
    ("math.sqrt without an abstract callee in the spec", "import math\ndef f(a):\n    return math.sqrt(a[0])\n", spec_for(LF, "float"), "math.sqrt: not understood"),
    ("math.sqrt as an abstract callee translates", "import math\ndef f(a):\n    return math.sqrt(a[0])\n",
     spec_for(LF, "float", abstract_calls={"math.sqrt": {"param": "py_sqrt", "type": "fn(float)->float"}}), None),
    ("math.sqrt as an abstract callee without `import math`", "def f(a):\n    return math.sqrt(a[0])\n",
     spec_for(LF, "float", abstract_calls={"math.sqrt": {"param": "py_sqrt", "type": "fn(float)->float"}}), "not a translated function"),
    ("a generator function (SPEC generator) translates: the list of the yielded values",
     "def f(a):\n    for x in a:\n        yield x + 1.0\n    yield 0.0\n", spec_for(LF, "list[float]", generator=True), None),
    ("a generator function without generator in the spec", "def f(a):\n    for x in a:\n        yield x\n", spec_for(LF, "list[float]"), "SPEC does not say generator"),
    ("generator in the spec of a function that does not yield", "def f(a):\n    return a\n", spec_for(LF, "list[float]", generator=True), "generator"),
    ("yield used as an expression", "def f(a):\n    x = yield a[0]\n    yield x\n", spec_for(LF, "list[float]", generator=True), "yield used as an expression"),
    ("return inside a generator", "def f(a):\n    yield a[0]\n    return 1.0\n", spec_for(LF, "list[float]", generator=True), "generator: return"),
    ("a while loop bounded by a fuel parameter translates",
     "def f(a):\n    x = a[0]\n    while x < a[1]:\n        x = x + 1.0\n    return x\n", spec_for(LF, "float", fuel_params=["py_fuel"], fuel=["py_fuel"]), None),
    ("a fuel parameter with a name of the source", "def f(a):\n    x = a[0]\n    while x < a[1]:\n        x = x + 1.0\n    return x\n",
     spec_for(LF, "float", fuel_params=["a"], fuel=["a"]), "fresh name"),
    ("call of a function with a fuel parameter from one without",
     "def g(a):\n    x = a[0]\n    while x < a[1]:\n        x = x + 1.0\n    return x\ndef f(a):\n    return g(a)\n",
     spec_multi([dict(name="g", params=LF, returns="float", fuel_params=["py_fuel"], fuel=["py_fuel"]), dict(name="f", params=LF, returns="float")]),
     "not a fuel parameter of this function"),
    ("a fuel parameter is passed on to a callee", 
     "def g(a):\n    x = a[0]\n    while x < a[1]:\n        x = x + 1.0\n    return x\ndef f(a):\n    return g(a)\n",
     spec_multi([dict(name="g", params=LF, returns="float", fuel_params=["py_fuel"], fuel=["py_fuel"]),
                 dict(name="f", params=LF, returns="float", fuel_params=["py_fuel"])]), None),
    ("min(*l) of a list of floats translates", "def f(a):\n    return min(*a)\n", spec_for(LF, "float"), None),
    ("min(*l) of a list of lists", "def f(a):\n    return min(*a)\n", spec_for({"a": "list[list[float]]"}, "list[float]"), "min(*l) of a"),
    ("zip of three lists translates", "def f(a):\n    return [x - y - z for x, y, z in zip(a, a, a)]\n", spec_for(LF, "list[float]"), None),
    ("zip of four lists", "def f(a):\n    return [x for x, y, z, w in zip(a, a, a, a)]\n", spec_for(LF, "list[float]"), "zip() arguments"),
    ("a % n with a run-time divisor", "def f(a, n):\n    return len(a) % n\n", spec_for({"a": "list[float]", "n": "int"}, "int"), "integer operator Mod"),
]


def main():
    bad = 0
    for desc, src, spec, want in CASES:
        text, err = outcome(src, spec)
        ok = (text is not None) if want is None else (text is None and want in (err or ""))
        print("%-4s %s%s" % ("ok" if ok else "FAIL", desc, "" if ok else "   -> text=%r err=%r" % (text, err)))
        bad += not ok
    # formatting / comments / docstrings do not matter
    a = "def f(a):\n    s = 0.0\n    for x in a:\n        s += x * 2.5\n    return s\n"
    b = 'def f(a):\n    """doc"""\n    s = 0.0  # c\n\n    for x in a:\n        s += (x *\n              2.5)\n    return (s)\n'
    ta, tb = outcome(a, spec_for(LF, "float"))[0], outcome(b, spec_for(LF, "float"))[0]
    ok = ta is not None and ta == tb
    print("%-4s formatting, comments and docstrings do not change the output" % ("ok" if ok else "FAIL")); bad += not ok
    # hash seeds do not matter: regenerate the committed files under three seeds and compare
    outs = []
    for seed in ("0", "1", "424242"):
        env = dict(os.environ, PYTHONHASHSEED=seed)
        p = subprocess.run([sys.executable, os.path.join(HERE, "pytrans.py"), "--repo", os.environ.get("VERIF_REPO", "/repo"), "--check"],
                           env=env, capture_output=True, text=True)
        outs.append((p.returncode, p.stdout))
    ok = len(set(outs)) == 1 and outs[0][0] == 0
    print("%-4s --check is all SAME on the repo under three hash seeds" % ("ok" if ok else "FAIL")); bad += not ok
    # a changed operator is a DIFF of exactly that function, an unknown construct UNTRANSLATABLE
    d = tempfile.mkdtemp()
    try:
        repo = os.environ.get("VERIF_REPO", "/repo")
        shutil.copytree(os.path.join(repo, "geomdl"), os.path.join(d, "geomdl"))
        p = os.path.join(d, "geomdl", "helpers.py")
        s = open(p).read()
        s = s.replace("            saved = left[j - r] * temp\n        N[j] = saved", "            saved = left[j - r + 0] * temp\n        N[j] = saved")
        s = s.replace("    spans = []\n", "    spans = []\n    del spans\n")
        open(p, "w").write(s)
        buf = io.StringIO()
        pytrans.check(d, out=buf)
        # the evaluator methods call helpers.find_spans: they are UNTRANSLATABLE with it (reported per method); not counted here
        lines = [l for l in buf.getvalue().splitlines() if not l.startswith("SAME")
                 and not (l.startswith("UNTRANSLATABLE evaluators.") and ("find_spans" in l or "is not translated" in l))]
        ok = len(lines) == 2 and lines[0] == "DIFF helpers.basis_function" and lines[1].startswith("UNTRANSLATABLE helpers.find_spans")
        lines_sorted = sorted(lines)
        ok = ok or (len(lines) == 2 and lines_sorted[0] == "DIFF helpers.basis_function" and lines_sorted[1].startswith("UNTRANSLATABLE helpers.find_spans"))
        print("%-4s DIFF / UNTRANSLATABLE are reported per function%s" % ("ok" if ok else "FAIL", "" if ok else "  " + repr(lines))); bad += not ok
    finally:
        shutil.rmtree(d)
    print("%d failure(s)" % bad)
    return 1 if bad else 0


if __name__ == "__main__":
    sys.exit(main())
