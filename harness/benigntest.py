"""Run the checks against a HARMLESS change (false-alarm test).
usage: benigntest.py <change-dir> [--all] [--save]
The change dir contains patch.diff, demo.py (passes with and without the patch), meta.json.  Works in a scratch worktree of /repo
(removed afterwards).  Runs the check of the property named in meta.json plus every check whose anchored files the patch touches
(--all: all 20).  Expected: every check exits 0 and prints no VIOLATION line."""
import os, sys, json, subprocess, shutil, time, re
from concurrent.futures import ThreadPoolExecutor

VERIF = os.path.dirname(os.path.dirname(os.path.abspath(__file__)))


def sh(cmd, cwd=None, env=None, timeout=3600):
    e = dict(os.environ)
    e.update(env or {})
    p = subprocess.run(cmd, shell=True, cwd=cwd, env=e, stdout=subprocess.PIPE, stderr=subprocess.STDOUT, timeout=timeout)
    return p.returncode, p.stdout.decode("utf-8", "replace")


def main():
    sd = os.path.abspath(sys.argv[1])
    meta = json.load(open(os.path.join(sd, "meta.json")))
    prop = meta["property"]
    patch = open(os.path.join(sd, "patch.diff")).read()
    touched = set(re.findall(r"^\+\+\+ b/(\S+)", patch, re.M))
    props = [json.loads(l) for l in open(os.path.join(VERIF, "properties.jsonl"))]
    sel = [p["id"] for p in props if "--all" in sys.argv or p["id"] == prop or touched & set(p["anchors"]["files"])]
    wt = "/tmp/wt-benign-%d" % os.getpid()
    sh("git -C /repo worktree add --detach -q %s HEAD" % wt)
    res = {"change": sd, "property": prop, "touched": sorted(touched), "checks": {}}
    try:
        env = {"PYTHONPATH": wt, "PYTHONDONTWRITEBYTECODE": "1"}
        rc, out = sh("git apply %s" % os.path.join(sd, "patch.diff"), cwd=wt)
        res["apply_rc"] = rc
        rc, out = sh("/venv/bin/python -B %s" % os.path.join(sd, "demo.py"), cwd=wt, env=env)
        res["demo_patched_rc"] = rc
        rc, out = sh("/venv/bin/python -B -m pytest -q -p no:cacheprovider --timeout=900 tests --ignore=tests/test_visualization.py -q", cwd=wt, env=env)
        res["tests_pass"] = (rc == 0)

        def run(pid):
            t0 = time.time()
            rc, out = sh("./check %s --tier quick" % pid, cwd=VERIF, env={"VERIF_REPO": wt, "VERIF_JOBS": "4"})
            lines = out.strip().splitlines()
            return pid, {"rc": rc, "wall": round(time.time() - t0, 1), "violations": [l for l in lines if "VIOLATION" in l][:5],
                         "tail": "\n".join(lines[-3:])[-600:] if rc != 0 else ""}
        with ThreadPoolExecutor(max_workers=4) as ex:
            for pid, r in ex.map(run, sel):
                res["checks"][pid] = r
        res["alarms"] = sorted(p for p, r in res["checks"].items() if r["rc"] != 0 or r["violations"])
        res["valid_change"] = (res["apply_rc"] == 0 and res["demo_patched_rc"] == 0 and res["tests_pass"])
    finally:
        sh("git -C /repo worktree remove --force %s" % wt)
    print(json.dumps(res, indent=1))
    if "--save" in sys.argv and res.get("valid_change"):
        name = os.path.basename(sd.rstrip("/"))
        dst = os.path.join(VERIF, "seeded", "benign", name)
        os.makedirs(dst, exist_ok=True)
        for f in ("patch.diff", "demo.py"):
            shutil.copy(os.path.join(sd, f), os.path.join(dst, f))
        meta.update({"kind": "benign", "confirmed": {"demo_passes_with_patch": True, "existing_test_suite_passes_with_patch": True},
                     "check_result": {"checks_run": sorted(res["checks"]), "alarms": res["alarms"],
                                      "detail": dict((p, r) for p, r in res["checks"].items() if r["rc"] != 0)}})
        json.dump(meta, open(os.path.join(dst, "meta.json"), "w"), indent=1)
    return 0


if __name__ == "__main__":
    sys.exit(main())
